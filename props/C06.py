"""C06 — batch and job-group completion reflect their jobs (E1 sqlsym BMC)."""
from props import _sqlcommon as sc_
from vt.sqlsym import asserts as A

LEVEL = 'model_checking'
EXPLANATION = ('After every operation: job_groups.state is complete exactly when every job of a committed update in the '
               'group\'s subtree is terminal and job_groups.n_jobs equals that job count (same for batches.state / n_jobs; an '
               'empty group is complete; committing an update with jobs reopens), and the completed/succeeded/failed/'
               'cancelled tallies equal the counts over those jobs.' + sc_.BMC_TEXT)


def asserts(sc):
    return A.completion(sc.db) + A.tallies(sc.db)


def run(R):
    sc_.standard_run(R, 'C06', asserts, 'completion-state-differs-from-jobs')


def replay(path):
    return sc_.replay_file(path, asserts)
