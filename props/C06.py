"""C06 — batch and job-group completion reflect their jobs (E1 sqlsym BMC)."""
from props import _sqlcommon as sc_
from vt.sqlsym import asserts as A

LEVEL = 'model_checking'
EXPLANATION = ('After every operation: job_groups.state is complete exactly when every job of a committed update in the '
               'group\'s subtree is terminal and job_groups.n_jobs equals that job count (same for batches.state / n_jobs; an '
               'empty group is complete; committing an update with jobs reopens), and the completed/succeeded/failed/'
               'cancelled tallies equal the counts over those jobs.' + sc_.BMC_TEXT)


def asserts(sc):
    return A.completion(sc.db) + A.tallies(sc.db)


def run(R):
    import os
    from vt.sqlsym import model
    from vt.sqlsym.seqcheck import run_bmc_property
    sc_.standard_run(R, 'C06', asserts, 'completion-state-differs-from-jobs')
    # two instance collections: the jobs of one group and update are staged on several rows (one per inst_coll and token)
    sizes = model.Sizes(J=3, G=2, U=2, I=1, A=2, T=2, IC=2)
    run_bmc_property(R, 'C06', sizes, n1=2, g1=1, alphabet=['schedule', 'complete', 'cancel_group'], depth=1, asserts=asserts,
                     classify=lambda bad, vals, sc, known: sc_.KNOWN if known else 'completion-state-differs-from-jobs',
                     extra_seqs=[('schedule', 'complete', 'schedule', 'complete'), ('u2_create', 'u2_jobs', 'u2_commit', 'schedule', 'complete')],
                     workers=int(os.environ.get('VERIF_WORKERS', '12')))


def replay(path):
    return sc_.replay_file(path, asserts)
