"""C21 — retry policy retries exactly the transient failures, with jittered exponential delays.

Two deciding methods, both on the real code read from the repository at run time:
 * CrossHair executes the real `retry_transient_errors_with_debug_string` (driven by hand: asyncio.sleep stubbed)
   on failure sequences whose exception kinds / status codes / errnos / message choices / cause-chain depth are
   symbolic integers over a catalogue derived from the classifiers' own isinstance branches;
 * `delay_ms_for_try` is translated AST -> z3 integers (random draw = free variable in randrange's range) and
   its bounds are proved for all tries >= 0; the translation is validated against the real function each run.
"""
import ast
import itertools
import json
import time

import z3

from vt import chrun, loader, smt
from vt.common import HarnessError

LEVEL = 'other'
EXPLANATION = (
    'CrossHair (symbolic execution, z3) runs the real retry_transient_errors_with_debug_string with the real '
    'is_transient_error / is_limited_retries_error / is_rate_limit_error on (A) "position sweeps": t-1 transient '
    'failures then one failure whose catalogue kind, integer parameter (HTTP status / errno, -2..100000), message '
    'choice and __cause__-chain depth (0..2) are symbolic, for t in {1,2,5,6,8} (quick) / 1..12 (thorough), '
    'and (B) sequences of N failures (quick N<=4, thorough N<=6) whose kinds are symbolic indices into one '
    'representative per reachable classification; only "Confirmed over all paths" counts. Oracle: failure number '
    'tries is retried iff rate-limit or transient or (limited-retry and tries<=5), otherwise that very exception '
    'object is raised at once; one sleep per retry, each equal to delay_ms_for_try(tries)/1000 and inside '
    '[min(c/2,max), min(c,max)], c=base*2^min(tries,30). delay_ms_for_try itself is translated from its AST to z3 '
    'Int arithmetic and proved for ALL tries>=0 and all draws of randrange (defaults and symbolic base/max); '
    'thorough re-decides the SMT-LIB text with cvc5. (X) Independently of the classifiers: an exception whose own class '
    'is outside their vocabulary (ValueError, KeyError, RuntimeError, a user-defined Exception subclass, aiohttp / '
    'hailtop.httpx ClientResponseError with a symbolic permanent status 400..405 and empty body), with no declared '
    'cause, raised inside except blocks that are handling a catalogue error of symbolic kind (implicit __context__, '
    'chain depth 0..2, `from None` or not, symbolic) must be raised at once - one call, no sleep, same object - by '
    'retry_transient_errors, retry_transient_errors_with_debug_string, retry_transient_errors_with_delayed_warnings '
    'and sync_retry_transient_errors; the expected verdict there comes from the property text ("any other error"), so '
    'a classifier that is widened to look through __context__ is reported; likewise every builtin OSError subclass that '
    'no classifier branch names exactly (ConnectionAbortedError, BrokenPipeError, bare ConnectionError, '
    'FileNotFoundError, PermissionError, ...) with a symbolic errno 0..200 that the classifiers compare nowhere must be '
    'raised at once by all four helpers. The exception catalogue is finite: classes not named by the '
    'classifiers (other than the listed permanent ones) are outside the claim.'
)
SRC = 'hail/python/hailtop/utils/utils.py'
FUNCS = ('retry_transient_errors', 'retry_transient_errors_with_delayed_warnings', 'sync_retry_transient_errors',
         'sync_sleep_before_try', 'retry_transient_errors_with_debug_string', 'is_transient_error', 'is_limited_retries_error',
         'is_rate_limit_error', 'is_delayed_warning_error', 'delay_ms_for_try')
CLS_LOOP = 'retry-loop-deviates-from-policy'
CLS_DELAY = 'delay-outside-documented-bounds'
CLS_CTX = 'unclassified-error-retried-because-of-implicit-context'
CLS_OSX = 'unnamed-oserror-subclass-retried'


# ---------------------------------------------------------------------------------------------------
# E3: delay_ms_for_try, AST -> z3
class DelayEncoding:
    """Translate the body of delay_ms_for_try.  Supported: assignments to names, return, `if` on integer comparisons whose
    branch ends in a return (merged with ite; a draw inside a branch is constrained only under its guard); int constants,
    names (parameters, locals, module-level int constants), + - * // (constant positive divisor), `1 << e`
    (table for 0<=e<=62, unconstrained otherwise), min/max of two, random.randrange(e) (fresh draw r, 0<=r<e)."""

    def __init__(self, text, tree):
        self.consts = {}
        for n in tree.body:
            if isinstance(n, ast.Assign) and len(n.targets) == 1 and isinstance(n.targets[0], ast.Name) \
                    and isinstance(n.value, ast.Constant) and isinstance(n.value.value, int):
                self.consts[n.targets[0].id] = n.value.value
        fn = next((n for n in tree.body if isinstance(n, ast.FunctionDef) and n.name == 'delay_ms_for_try'), None)
        if fn is None:
            raise HarnessError('delay_ms_for_try not found')
        self.fn = fn
        self.text = ast.get_source_segment(text, fn)
        self.params = [a.arg for a in fn.args.args]
        self.defaults = {}
        for a, d in zip(self.params[len(self.params) - len(fn.args.defaults):], fn.args.defaults):
            self.defaults[a] = self._const(d)
        if self.params != ['tries', 'base_delay_ms', 'max_delay_ms']:
            raise HarnessError(f'delay_ms_for_try signature changed: {self.params}')
        self.env = {p: z3.Int(p) for p in self.params}
        self.side = []        # constraints introduced by the translation (draw ranges, table definitions)
        self.draws = []       # (r, n)
        self.draw_side = []   # 0 <= r < n per draw
        self.fresh = 0
        self.ret = None
        self.draw_guards = []
        self.guards = []      # conditions of the enclosing `if` branches (a draw happens only under them)
        self.ret = self.block(list(fn.body))
        if self.ret is None:
            raise HarnessError('delay_ms_for_try: no final return')

    def block(self, stmts):
        """Value returned by a statement list: assignments, `if` whose taken branch ends in a return (merged with ite), return."""
        for k, st in enumerate(stmts):
            if isinstance(st, ast.Expr) and isinstance(st.value, ast.Constant):
                continue
            if isinstance(st, ast.Assign) and len(st.targets) == 1 and isinstance(st.targets[0], ast.Name):
                self.env[st.targets[0].id] = self.ex(st.value)
            elif isinstance(st, ast.Return) and st.value is not None:
                return self.ex(st.value)
            elif isinstance(st, ast.If):
                c = self.cond(st.test)
                saved = dict(self.env)
                self.guards.append(c)
                a = self.block(list(st.body))
                self.guards.pop()
                if a is None:
                    raise HarnessError(f'delay_ms_for_try: `if` branch without a return: {ast.unparse(st)[:80]}')
                self.env = dict(saved)
                self.guards.append(z3.Not(c))
                b = self.block(list(st.orelse) + stmts[k + 1:])
                self.guards.pop()
                self.env = saved
                if b is None:
                    return None
                return z3.If(c, a, b)
            else:
                raise HarnessError(f'delay_ms_for_try: untranslatable statement {ast.unparse(st)}')
        return None

    def cond(self, n):
        if isinstance(n, ast.Compare) and len(n.ops) == 1:
            a, b = self.ex(n.left), self.ex(n.comparators[0])
            op = n.ops[0]
            for cls, f in ((ast.Lt, lambda: a < b), (ast.LtE, lambda: a <= b), (ast.Gt, lambda: a > b), (ast.GtE, lambda: a >= b),
                           (ast.Eq, lambda: a == b), (ast.NotEq, lambda: a != b)):
                if isinstance(op, cls):
                    return f()
        if isinstance(n, ast.BoolOp):
            vs = [self.cond(v) for v in n.values]
            return z3.And(*vs) if isinstance(n.op, ast.And) else z3.Or(*vs)
        if isinstance(n, ast.UnaryOp) and isinstance(n.op, ast.Not):
            return z3.Not(self.cond(n.operand))
        raise HarnessError(f'delay_ms_for_try: untranslatable condition {ast.unparse(n)}')

    def _const(self, node):
        if isinstance(node, ast.Constant) and isinstance(node.value, int):
            return node.value
        if isinstance(node, ast.Name) and node.id in self.consts:
            return self.consts[node.id]
        raise HarnessError(f'delay_ms_for_try: non-constant default {ast.unparse(node)}')

    def _new(self, stem):
        self.fresh += 1
        return z3.Int(f'{stem}{self.fresh}')

    def ex(self, n):
        if isinstance(n, ast.Constant) and isinstance(n.value, int) and not isinstance(n.value, bool):
            return z3.IntVal(n.value)
        if isinstance(n, ast.Name):
            if n.id in self.env:
                return self.env[n.id]
            if n.id in self.consts:
                return z3.IntVal(self.consts[n.id])
            raise HarnessError(f'delay_ms_for_try: unknown name {n.id}')
        if isinstance(n, ast.BinOp):
            if isinstance(n.op, ast.LShift):
                if not (isinstance(n.left, ast.Constant) and n.left.value == 1):
                    raise HarnessError('delay_ms_for_try: only `1 << e` is supported')
                k = self.ex(n.right)
                out = self._new('shl')   # unconstrained outside the table: nothing can be proved there
                for i in range(63):
                    self.side.append(z3.Implies(k == i, out == 2 ** i))
                return out
            a, b = self.ex(n.left), self.ex(n.right)
            if isinstance(n.op, ast.Add):
                return a + b
            if isinstance(n.op, ast.Sub):
                return a - b
            if isinstance(n.op, ast.Mult):
                return a * b
            if isinstance(n.op, ast.FloorDiv):
                if not (z3.is_int_value(b) and b.as_long() > 0):
                    raise HarnessError('delay_ms_for_try: // needs a positive constant divisor')
                return a / b   # z3 Int division floors for a positive divisor, like Python
        if isinstance(n, ast.Call):
            f = ast.unparse(n.func)
            if f in ('min', 'max') and len(n.args) == 2 and not n.keywords:
                a, b = self.ex(n.args[0]), self.ex(n.args[1])
                return z3.If(a <= b, a, b) if f == 'min' else z3.If(a >= b, a, b)
            if f == 'random.randrange' and len(n.args) == 1 and not n.keywords:
                m = self.ex(n.args[0])
                r = self._new('draw')
                self.draws.append((r, m))
                self.draw_guards.append(z3.And(*self.guards) if self.guards else z3.BoolVal(True))
                self.draw_side.append(z3.Implies(z3.And(*self.guards) if self.guards else z3.BoolVal(True), z3.And(0 <= r, r < m)))
                return r
        raise HarnessError(f'delay_ms_for_try: untranslatable expression {ast.unparse(n)}')


def _real_delay(H, tries, base, mx, draws):
    """the real delay_ms_for_try with random.randrange returning the given draws (checking each is in range)"""
    st = H._State
    st.jitter, st.jitter_ok, st.delays = list(draws), True, []
    v = H._REAL_DELAY(tries, base, mx)
    if not st.jitter_ok:
        raise HarnessError('model draw outside randrange range on the real function')
    return v


def _pow2_spec(k, name):
    """independent definition of 2^k for 0<=k<=30 used on the specification side"""
    p = z3.Int(name)
    return p, [z3.Implies(k == i, p == 2 ** i) for i in range(31)]


def check_delay(R, H):
    text = loader.read(SRC)
    enc = DelayEncoding(text, ast.parse(text))
    R.encode(f'{SRC}:{enc.fn.lineno} delay_ms_for_try', enc.text)
    tries, base, mx = (enc.env[p] for p in enc.params)
    ret = enc.ret
    if len(enc.draws) != 1:
        raise HarnessError(f'delay_ms_for_try: expected one random draw, found {len(enc.draws)}')
    r, rn = enc.draws[0]
    k = z3.If(tries <= 30, tries, 30)
    P, pdef = _pow2_spec(k, 'spec_pow2')
    c = base * P
    regimes = {
        'defaults': [base == enc.defaults['base_delay_ms'], mx == enc.defaults['max_delay_ms']],
        'any base 1..2^20, max 0..2^31': [base >= 1, base <= 2 ** 20, mx >= 0, mx <= 2 ** 31],
    }
    props = {
        'never longer than max_delay_ms': ret <= mx,
        'at most base*2^min(tries,30)': ret <= c,
        'at least min(base*2^min(tries,30)//2, max)': ret >= z3.If(c / 2 <= mx, c / 2, mx),
    }
    NOVALUEERROR = 'randrange argument >= 1 (no ValueError)'   # proved without assuming a draw exists
    two = R.tier == 'thorough'
    for rg, rcons in regimes.items():
        nodraw = [tries >= 0] + rcons + enc.side + pdef
        common = nodraw + enc.draw_side
        # reachability twin, shared by the properties of this regime: the relation is satisfiable with a capped and an
        # uncapped result
        tw = []
        for extra in (ret < mx, ret == mx):
            s = z3.Solver()
            s.set('timeout', 60000)
            s.add(common + [extra])
            tw.append(str(s.check()))
        reach = tw == ['sat', 'sat']
        for name, phi in list(props.items()) + [(NOVALUEERROR, z3.Implies(enc.draw_guards[0], rn >= 1))]:
            s = z3.Solver()
            s.set('timeout', 120000)
            s.add((nodraw if name == NOVALUEERROR else common) + [z3.Not(phi)])
            t0 = time.time()
            res = str(s.check())
            detail = {'z3': res, 'twin': tw}
            if two and res == 'unsat':
                v, _, _, verdicts = smt.agree('(set-logic ALL)\n' + s.to_smt2(), timeout_s=120, solvers=('z3new', 'cvc5'))
                detail['smtlib'] = verdicts
                if v == 'split' or v == 'sat':
                    raise HarnessError(f'solvers disagree on delay_ms_for_try [{rg}] {name}: {verdicts}')
            dt = time.time() - t0
            ob = f'delay_ms_for_try [{rg}] {name}, all tries>=0, all draws'
            if res == 'unsat':
                R.ob(ob, 'discharged' if reach else 'not_discharged', dt, detail, nontrivial=reach)
            elif res == 'sat':
                m = s.model()
                vals = [m.eval(x, model_completion=True).as_long() for x in (tries, base, mx, r)]
                got = _real_delay(H, vals[0], vals[1], vals[2], [vals[3]])
                want = m.eval(ret, model_completion=True).as_long()
                if got != want:
                    raise HarnessError(f'delay_ms_for_try translation disagrees with the real function at {vals}: '
                                       f'{want} vs {got}')
                rep = {'family': 'delay', 'tries': vals[0], 'base': vals[1], 'max': vals[2], 'draw': vals[3],
                       'prop': name}
                if replay_dict(rep, H) == 0:
                    raise HarnessError(f'delay counterexample does not reproduce: {rep}')
                stt = R.finding(CLS_DELAY, f'delay_ms_for_try({vals[0]}, {vals[1]}, {vals[2]}) with draw {vals[3]} '
                                f'returns {got}: violates "{name}"', rep)
                R.ob(ob, stt, dt, detail, nontrivial=True)
            else:
                R.ob(ob, 'not_discharged', dt, detail)
    # translator validation: models of the relation in different regions, pushed through the real function
    regions = [[ret < mx], [ret == mx], [tries == 0], [tries >= 31], [tries >= 3, tries <= 6, r == rn - 1],
               [base >= 7, mx >= 100000, tries >= 10, r >= 1], [tries == 6, ret < mx, r > 5000], [r == 0, tries >= 1]]
    pts = 0
    for extra in regions:
        s = z3.Solver()
        s.add([tries >= 0, base >= 1, base <= 2 ** 20, mx >= 0, mx <= 2 ** 31] + enc.side + enc.draw_side + extra)
        if str(s.check()) != 'sat':
            continue
        m = s.model()
        vals = [m.eval(x, model_completion=True).as_long() for x in (tries, base, mx, r)]
        want = m.eval(ret, model_completion=True).as_long()
        got = _real_delay(H, vals[0], vals[1], vals[2], [vals[3]])
        if got != want:
            raise HarnessError(f'delay_ms_for_try translation disagrees with the real function at '
                               f'(tries, base, max, draw)={vals}: z3 {want} vs real {got}')
        pts += 1
        R.sample({'delay_ms_for_try': dict(zip(('tries', 'base', 'max', 'draw'), vals)), 'result': got})
    if pts < 5:
        raise HarnessError('translator validation of delay_ms_for_try found fewer than 5 models')
    R.validation_points += pts


# ---------------------------------------------------------------------------------------------------
def _groups(H):
    """kind ranges for sharding: every kind with >= 4 message choices alone, the others in contiguous runs"""
    out, lo = [], 0
    for k in range(H.K):
        if H.CATALOGUE[k][2] >= 4:
            if lo < k:
                out.append((lo, k))
            out.append((k, k + 1))
            lo = k + 1
    if lo < H.K:
        out.append((lo, H.K))
    capped = []
    for lo, hi in out:          # at most 8 kinds per CrossHair process
        while hi - lo > 8:
            capped.append((lo, lo + 8))
            lo += 8
        capped.append((lo, hi))
    return capped


def run(R):
    from harness import C21_retry as H
    from harness import C21_template
    quick = R.tier == 'quick'
    ts = [1, 2, 5, 6, 8] if quick else list(range(1, 13))
    maxn = 4 if quick else 6
    pct = 400 if quick else 1200
    nreps = len(H.REPS_LIST)
    R.bounds = {'sweep_positions_t': ts, 'catalogue_kinds': H.K, 'integer_parameter': '-2..100000',
                'cause_chain_depth': '0..2', 'sequence_lengths': f'1..{maxn}', 'representative_kinds': nreps,
                'implicit_context_family': '6 outside-vocabulary outer kinds x status 400..405 x 24 context kinds x '
                                           'context depth 0..2 x suppress yes/no x 4 retry helpers',
                'unnamed_oserror_family': 'every builtin OSError subclass not exactly named by a classifier x errno 0..200 '
                                          'outside the reference set x 4 retry helpers',
                'jitter_in_loop_runs': 'min / mid / max draw (all draws: z3 proof of delay_ms_for_try)',
                'delay_ms_for_try': 'all tries >= 0; base 1..2^20, max 0..2^31 (and the defaults)'}
    R.assume(
        'the loop is driven by hand: in the namespace of hailtop.utils.utils `asyncio` is a proxy whose sleep records '
        'the delay and returns at once, `random.randrange` returns the harness-chosen draw (checked to be in range), '
        '`time_msecs` returns 0, `log` is silent, `delay_ms_for_try` is wrapped by a recorder that calls the real one',
        'aiodocker, urllib3, requests and botocore are not installed: DockerError(status, {"message":..}), '
        'ReadTimeoutError, requests ReadTimeout/ConnectionError (OSError subclasses) and ConnectionClosedError are '
        'small real-shaped stand-in classes; aiohttp and hailtop.httpx exceptions are the real classes',
        'OSError-family kinds (OSError, ConnectionResetError, ConnectionRefusedError, socket.gaierror, '
        'aiohttp.ClientOSError, aiohttp.ClientConnectorError) are subclasses whose errno/strerror are Python '
        'properties, so that a symbolic errno survives construction (OSError.__init__ is C code)',
        'the catalogue is one constructor per class named in an isinstance test of the three classifiers (derived from '
        'their AST each run: hand-written constructors for the classes the table knows, a generic one otherwise - '
        'OSError family through a subclass with Python-property errno/strerror, other classes by no-argument '
        'construction; only a name that cannot be resolved or constructed is a harness error), plus every builtin '
        'subclass of a named builtin class that is not named itself (OSError brings ConnectionAbortedError, '
        'BrokenPipeError, FileNotFoundError, ...), plus ValueError, Exception, KeyboardInterrupt and '
        'asyncio.CancelledError; message/body strings range over "", each constant the classifiers search for, and all '
        'of them joined; exception classes outside the catalogue are not covered',
        'aiohttp.ClientPayloadError is always built with a message (is_transient_error indexes e.args[0])',
        '"transient", "rate-limit" and "limited-retry" mean what the real classifiers return for the same exception '
        'object, evaluated outside the loop; the check is about the loop, not about which errors ought to be transient',
        'family X: for errors whose own class is outside the classifiers\' vocabulary and that declare no cause, the '
        'expected verdict (raise at once) comes from the property text, not from the classifiers; the error that was '
        'being handled is a catalogue kind at its most retryable integer/message parameters; permanent HTTP statuses '
        'are 400..405 (client errors other than 408/429) with an empty body; for the sync helper `time.sleep` is a '
        'recorder in the utils namespace; the explicit `raise ... from` dimension keeps the code\'s documented rule '
        '(follow __cause__) with the classifiers as oracle',
        'family X part 2: a builtin OSError subclass whose class object is not exactly named by any classifier branch of '
        'the tree under test and is not in the pinned vocabulary (the classes harness/C21_retry.py has hand-written '
        'constructors for, i.e. the classifiers\' vocabulary when the check was written), '
        'with an errno the classifiers compare nowhere, is "any other error" by the property text and must be raised at '
        'once; the errno reference set (RETRYABLE_ERRNOS, the integer constants in the classifiers\' source, '
        'socket.EAI_AGAIN/EAI_NONAME) is read from the tree under test - a pinned reference, the property text names '
        'no errno; a class that a branch names exactly is judged by families A/B with the classifiers as oracle',
        'position sweeps use TransientError for the first t-1 failures; the only state the loop carries between '
        'iterations is `tries` (sequence family B varies the earlier failures too, up to the stated length)',
        'in loop runs the jitter draw is the minimum, the middle or the maximum of its range (the loop divides by 1000.0, '
        'which would realise a symbolic draw); arbitrary draws are covered by the z3 proof about delay_ms_for_try plus '
        'the checked fact that every sleep equals delay_ms_for_try(tries)/1000 with default base and maximum',
        'CrossHair 0.0.110 path exploration is exhaustive when it reports "Confirmed over all paths"',
    )
    R.extra['trusted_base'] = ['CrossHair/z3', 'z3 (cvc5 cross-check in thorough)', 'harness/C21_retry.py oracle and '
                               'exception constructors', 'props/C21.py DelayEncoding (validated each run)']
    text = loader.read(SRC)
    tree = ast.parse(text)
    for n in tree.body:
        if isinstance(n, (ast.FunctionDef, ast.AsyncFunctionDef)) and n.name in FUNCS and n.name != 'delay_ms_for_try':
            R.encode(f'{SRC}:{n.lineno} {n.name}', ast.get_source_segment(text, n))
    R.extra['catalogue'] = [c[0] for c in H.CATALOGUE]
    R.extra['representatives'] = {str(k): H.CATALOGUE[v[0]][0] + f' p={v[1]} s={v[2]}' for k, v in H.REPS.items()}

    check_delay(R, H)

    groups = _groups(H)
    sweeps = [(t, lo, hi) for t in ts for lo, hi in groups]
    # shards of family B: the first kind (for N >= 6 the first two) is fixed per CrossHair process; a prefix that
    # already ends the run (a kind that is not retried at its position) is dropped for longer sequences
    keys = sorted(H.REPS)

    def retried_at(k, tries):
        lim, rate, trans = keys[k]
        return rate or trans or (lim and tries <= 5)

    seqs = []
    for n in range(1, maxn + 1):
        plen = 1 if n <= 5 else 2
        for prefix in itertools.product(range(nreps), repeat=min(plen, n)):
            alive = all(retried_at(k, i + 1) for i, k in enumerate(prefix))
            if not alive and n > len(prefix):
                continue
            seqs.append((n, prefix, 'ok' if alive else 'raised'))
    gm = chrun.gen_module(f'C21_conditions_{R.tier}', C21_template.source(
        sweeps, seqs, H.K, H.MAXS, nreps, ctx=H.HELPERS, NO=len(H.OUTSIDE), SLO=H.PERMANENT_HTTP[0],
        SHI=H.PERMANENT_HTTP[1], NOSX=len(H.OSX), EMAX=H.ERRNO_MAX))
    targets = [f'{gm}.sweep{t}_{lo}_{hi}' for t, lo, hi in sweeps]
    targets += [f'{gm}.sweep{t}_reach_{w}' for t in ts for w in ('ok', 'raised')]
    tag = C21_template.seq_tag
    targets += [f'{gm}.seq{n}_{tag(pf)}' for n, pf, _ in seqs] + [f'{gm}.seq{n}_{tag(pf)}_reach' for n, pf, _ in seqs]
    targets += [f'{gm}.ctx_{h}' for h in H.HELPERS] + [f'{gm}.ctx_{h}_reach' for h in H.HELPERS]
    if H.OSX:
        targets += [f'{gm}.osx_{h}' for h in H.HELPERS] + [f'{gm}.osx_{h}_reach' for h in H.HELPERS]
    res = chrun.run(targets, per_condition_timeout=pct, workers=8)

    def handle(name, target, twins, argnames, to_replay):
        v, msg, dt = res[target]
        reach = all(res[t][0] == 'refuted' for t in twins)
        tw = {t.rsplit('.', 1)[1]: res[t][0] for t in twins}
        if v == 'confirmed':
            R.ob(name, 'discharged' if reach else 'not_discharged', dt, {'twins': tw}, nontrivial=reach)
        elif v == 'refuted':
            args = chrun.parse_counterexample(msg, argnames)
            if args is None:
                raise HarnessError(f'cannot parse CrossHair counterexample: {msg}')
            rep = to_replay(args)
            why = explain(rep, H)
            if not why:
                raise HarnessError(f'CrossHair counterexample does not reproduce concretely: {msg}')
            st = R.finding({'context': CLS_CTX, 'osx': CLS_OSX}.get(rep['family'], CLS_LOOP), f'{rep}: {why}', rep)
            R.ob(name, st, dt, {'cex': rep, 'why': why}, nontrivial=True)
        else:
            R.ob(name, 'not_discharged', dt, {'crosshair': msg[-300:]})
        R.sample({'condition': target.rsplit('.', 1)[1], 'verdict': v, 'secs': round(dt, 1), 'twins': tw})

    for t, lo, hi in sweeps:
        kinds = ', '.join(c[0].rsplit('.', 1)[-1] for c in H.CATALOGUE[lo:hi])
        handle(f'loop: failure {t} of kind in [{kinds}] after {t - 1} transient failures: retried iff policy says so, '
               f'else raised at once; delays', f'{gm}.sweep{t}_{lo}_{hi}',
               [f'{gm}.sweep{t}_reach_ok', f'{gm}.sweep{t}_reach_raised'], ['kind', 'p', 's', 'depth'],
               lambda a, t=t: {'family': 'sweep', 't': t, 'kind': a['kind'], 'kind_name': H.CATALOGUE[a['kind']][0],
                               'p': a['p'], 's': a['s'], 'depth': a['depth'], 'jsel': t % 3})
    helper_name = {'debug_string': 'retry_transient_errors_with_debug_string', 'plain': 'retry_transient_errors',
                   'delayed_warnings': 'retry_transient_errors_with_delayed_warnings',
                   'sync': 'sync_retry_transient_errors'}
    for h in H.HELPERS:
        handle(f'{helper_name[h]}: an error outside the classifiers\' vocabulary, no declared cause, raised while any '
               f'catalogue error was being handled (implicit __context__, depth 0..2, suppressed or not) is raised at '
               f'once after one call', f'{gm}.ctx_{h}', [f'{gm}.ctx_{h}_reach'],
               ['okind', 'status', 'ckind', 'depth', 'sup'],
               lambda a, h=h: {'family': 'context', 'helper': h, 'okind': a['okind'],
                               'outer': H.OUTSIDE[a['okind']][0], 'status': a['status'], 'ckind': a['ckind'],
                               'context': H.CATALOGUE[a['ckind']][0], 'depth': a['depth'],
                               'suppress_context': a['sup']})
    for h in (H.HELPERS if H.OSX else ()):
        handle(f'{helper_name[h]}: a builtin OSError subclass that no classifier branch names '
               f'({", ".join(c.__name__ for c in H.OSX)}) with an errno the classifiers compare nowhere (0..{H.ERRNO_MAX} '
               f'minus {list(H.REF_ERRNOS)}) is raised at once after one call', f'{gm}.osx_{h}', [f'{gm}.osx_{h}_reach'],
               ['okind', 'en'],
               lambda a, h=h: {'family': 'osx', 'helper': h, 'okind': a['okind'], 'class': H.OSX[a['okind']].__name__,
                               'errno': a['en']})
    for n, pf, _ in seqs:
        handle(f'loop: every sequence of {n} failures over the representative kinds starting with '
               f'{[keys[k] for k in pf]} (lim,rate,trans)', f'{gm}.seq{n}_{tag(pf)}', [f'{gm}.seq{n}_{tag(pf)}_reach'],
               [f'k{i}' for i in range(len(pf) + 1, n + 1)] + ['jsel'],
               lambda a, n=n, pf=pf: {'family': 'seq', 'n': n, 'jsel': a['jsel'],
                                      'kinds': list(pf) + [a[f'k{i}'] for i in range(len(pf) + 1, n + 1)]})


def explain(rep, H):
    """re-execute a replay dict on the real code; '' when the property holds"""
    try:
        if rep['family'] == 'osx':
            k = [c.__name__ for c in H.OSX].index(rep['class']) if rep.get('class') in [c.__name__ for c in H.OSX] else rep['okind']
            return H.osx_check(rep['helper'], k, rep['errno'])
        if rep['family'] == 'context':
            return H.context_check(rep['helper'], rep['okind'], rep['status'], rep['ckind'], rep['depth'],
                                   rep['suppress_context'])
        if rep['family'] == 'sweep':
            return H.sweep(rep['t'], rep['kind'], rep['p'], rep['s'], rep['depth'], rep['jsel'])
        if rep['family'] == 'seq':
            return H.seq(rep['n'], rep['kinds'], rep['jsel'])
        if rep['family'] == 'delay':
            v = _real_delay(H, rep['tries'], rep['base'], rep['max'], [rep['draw']])
            c = rep['base'] * 2 ** min(rep['tries'], 30)
            lo, hi = min(c // 2, rep['max']), min(c, rep['max'])
            return '' if lo <= v <= hi else f'delay {v} outside [{lo}, {hi}]'
    except Exception as e:
        return f'raised {type(e).__name__}: {e}'
    raise HarnessError(f'unknown replay family {rep.get("family")}')


def replay_dict(rep, H):
    return 1 if explain(rep, H) else 0


def replay(path):
    from harness import C21_retry as H
    rep = json.load(open(path))['replay']
    why = explain(rep, H)
    print(f'property violated: {why}' if why else 'property holds', rep)
    return 1 if why else 0
