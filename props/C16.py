"""C16 - worker CPU semaphore is safe, FIFO and live (symbolic scheduler harness on the real class)."""
import ast
import importlib
import json

from vt import loader, sched

LEVEL = 'other'
EXPLANATION = (
    'CrossHair (symbolic execution, z3) runs the real batch.semaphore.FIFOWeightedSemaphore, used through '
    '`async with sem(weight)` exactly as Job.run uses worker.cpu_sem, under a director coroutine on the real asyncio '
    'scheduler. Job weights (1..capacity), the action of every step (start next job / let job i leave) and a per-step '
    'drain bit (do pending wake-ups run before the next action) are symbolic; at every quiescent point the harness '
    'asserts no over-grant, capacity accounting, FIFO (no job inside while an earlier arrival waits) and head-of-queue '
    'liveness. Only "Confirmed over all paths" discharges a shard. Bounded: capacity 4; quick: 3 jobs, k=4 steps with '
    'symbolic drain bits; thorough: 3 jobs k=5 with symbolic drain bits, 3 jobs k=6 and 4 jobs k=7 with every step drained; '
    'quick also runs 4 jobs k=6 with every step drained; the quantifier "any number of jobs" is NOT covered beyond 4 jobs.'
)
SRC = 'batch/batch/semaphore.py'
HM = 'harness.C16_fifo'


def params(k, nt=3):
    return ([(f'w{i}', 'int', 1, 4) for i in range(nt)]
            + [(f'a{i}', 'int', 0, min(i, nt)) for i in range(1, k)] + [(f'd{i}', 'bool') for i in range(k)])


def describe(a, meta):
    k, nt = meta['k'], meta['nt']
    acts = ['start'] + [('start' if a[f'a{i}'] == 0 else f'leave{a[f"a{i}"] - 1}') for i in range(1, k)]
    return ('FIFOWeightedSemaphore(4) weights=(%s) schedule=' % ','.join(str(a[f'w{i}']) for i in range(nt))
            + ' '.join(x + ('+drain' if a[f'd{i}'] else '') for i, x in enumerate(acts)))


def group(name, k, nt, shard_on, all_drained=False):
    return sched.gen_shards(name, HM, params(k, nt), shard_on, entry=(f'check_{nt}', f'reach_{nt}'), prefix=name[4:] + '_',
                            const={f'd{i}': True for i in range(k)} if all_drained else None, meta={'k': k, 'nt': nt})[1]


def run(R):
    text = loader.read(SRC)
    for n in ast.walk(ast.parse(text)):
        if isinstance(n, ast.ClassDef) and n.name in ('FIFOWeightedSemaphore', 'FIFOWeightedSemaphoreContextManager'):
            for f in n.body:
                if isinstance(f, (ast.FunctionDef, ast.AsyncFunctionDef)):
                    R.encode(f'{SRC}:{f.lineno} {n.name}.{f.name}', ast.get_source_segment(text, f))
    groups = []
    W = [1, 2, 3, 4]
    if R.tier == 'quick':
        pct = 150
        groups.append(group('C16_k4', 4, 3, {'a1': [0, 1], 'w0': W}))
        # two holders + two waiters is the smallest shape in which a release can be too small for the head waiter
        groups.append(group('C16_n4k6d', 6, 4, {'a1': [0, 1], 'w0': W, 'w1': W}, all_drained=True))
        R.bounds = {'jobs': '3 (k=4, drain bits symbolic); 4 (k=6, every step drained)', 'capacity': 4, 'weights': '1..4 symbolic',
                    'steps': 'k=4 with symbolic drain bits (3 jobs); k=6 with every step drained (4 jobs)'}
    else:
        pct = 1300
        groups.append(group('C16_k5', 5, 3, {'a1': [0, 1], 'w0': W, 'd0': [False, True], 'd1': [False, True]}))
        groups.append(group('C16_k6d', 6, 3, {'a1': [0, 1], 'w0': W}, all_drained=True))
        groups.append(group('C16_n4k7d', 7, 4, {'a1': [0, 1], 'w0': W, 'w1': W}, all_drained=True))
        R.bounds = {'capacity': 4, 'weights': '1..4 symbolic',
                    'steps': '3 jobs: k=5 with symbolic drain bits, k=6 (the complete life cycle of 3 jobs) with every '
                             'step drained; 4 jobs: k=7 with every step drained'}
    R.assume('jobs are started in index order (jobs differ only by their symbolic weights); step 0 is a start',
             'every job uses the semaphore through `async with sem(w)` (as worker.py does) and releases exactly what it acquired',
             'no cancellation is injected (not part of C16); weights are integers 1..capacity',
             'FIFO is asserted at quiescent points as "no job inside while an earlier arrival still waits"; the order of '
             'entry inside one burst of callbacks is not compared (a granted waiter resumes one loop iteration after the grant)',
             'event loop = asyncio.BaseEventLoop scheduler with a fixed clock and a null I/O selector (vt/sched.py DetLoop); '
             'counterexamples are replayed on the stock loop',
             'CrossHair 0.0.110 path exploration is exhaustive when it reports "Confirmed over all paths"')
    R.extra['trusted_base'] = ['CrossHair/z3', 'CPython asyncio', 'vt/sched.py', 'harness/C16_fifo.py oracle']
    H = importlib.import_module(HM)
    shards = [s for g in groups for s in g]
    sched.run_shards(shards, pct, workers=8)
    sched.discharge(R, shards, 'FIFOWeightedSemaphore safe/FIFO/live over all schedules', H.replay, describe)


def replay(path):
    d = json.load(open(path))['replay']
    H = importlib.import_module(HM)
    ok, cls, why = H.replay(d['args'], d['meta'])
    print('property holds' if ok else f'property violated ({cls})', describe(d['args'], d['meta']), why)
    return 0 if ok else 1
