"""C16 - worker CPU semaphore is safe, FIFO and live (symbolic scheduler harness on the real class)."""
import ast
import importlib
import json

from vt import loader, sched

LEVEL = 'other'
EXPLANATION = (
    'CrossHair (symbolic execution, z3) runs the real batch.semaphore.FIFOWeightedSemaphore, used through '
    '`async with sem(weight)` exactly as Job.run uses worker.cpu_sem, under a director coroutine on the real asyncio '
    'scheduler. Job weights (1..capacity), the action of every step (start next job / let job i leave) and a per-step '
    'drain bit (do pending wake-ups run before the next action) are symbolic; at every quiescent point the harness '
    'asserts no over-grant, capacity accounting, FIFO (no job inside while an earlier arrival waits) and head-of-queue '
    'liveness. Only "Confirmed over all paths" discharges a shard. Bounded: 3 jobs, capacity 4, k steps (quick k=4 with '
    'symbolic drain bits; thorough k=5 with symbolic drain bits plus k=6 and k=7 with every step drained); the quantifier '
    '"any number of jobs" is NOT covered beyond 3 jobs.'
)
SRC = 'batch/batch/semaphore.py'
HM = 'harness.C16_fifo'


def params(k):
    return ([('w0', 'int', 1, 4), ('w1', 'int', 1, 4), ('w2', 'int', 1, 4)]
            + [(f'a{i}', 'int', 0, min(i, 3)) for i in range(1, k)] + [(f'd{i}', 'bool') for i in range(k)])


def describe(a, meta):
    k = meta['k']
    acts = ['start'] + [('start' if a[f'a{i}'] == 0 else f'leave{a[f"a{i}"] - 1}') for i in range(1, k)]
    return ('FIFOWeightedSemaphore(4) weights=(%s,%s,%s) schedule=' % (a['w0'], a['w1'], a['w2'])
            + ' '.join(x + ('+drain' if a[f'd{i}'] else '') for i, x in enumerate(acts)))


def run(R):
    text = loader.read(SRC)
    for n in ast.walk(ast.parse(text)):
        if isinstance(n, ast.ClassDef) and n.name in ('FIFOWeightedSemaphore', 'FIFOWeightedSemaphoreContextManager'):
            for f in n.body:
                if isinstance(f, (ast.FunctionDef, ast.AsyncFunctionDef)):
                    R.encode(f'{SRC}:{f.lineno} {n.name}.{f.name}', ast.get_source_segment(text, f))
    groups = []
    if R.tier == 'quick':
        pct = 150
        groups.append(sched.gen_shards('C16_k4', HM, params(4), {'a1': [0, 1], 'w0': [1, 2, 3, 4]}, prefix='k4_',
                                       meta={'k': 4})[1])
        R.bounds = {'jobs': 3, 'capacity': 4, 'weights': '1..4 symbolic', 'steps': 'k=4, drain bits symbolic'}
    else:
        pct = 1300
        groups.append(sched.gen_shards('C16_k5', HM, params(5), {'a1': [0, 1], 'a2': [0, 1, 2], 'w0': [1, 2, 3, 4]},
                                       prefix='k5_', meta={'k': 5})[1])
        for k in (6, 7):
            groups.append(sched.gen_shards(f'C16_k{k}d', HM, params(k), {'a1': [0, 1], 'a2': [0, 1, 2], 'w0': [1, 2, 3, 4]},
                                           const={f'd{i}': True for i in range(k)}, prefix=f'k{k}d_', meta={'k': k})[1])
        R.bounds = {'jobs': 3, 'capacity': 4, 'weights': '1..4 symbolic',
                    'steps': 'k=5 with symbolic drain bits; k=6 and k=7 with every step drained'}
    R.assume('jobs are started in index order (jobs differ only by their symbolic weights); step 0 is a start',
             'every job uses the semaphore through `async with sem(w)` (as worker.py does) and releases exactly what it acquired',
             'no cancellation is injected (not part of C16); weights are integers 1..capacity',
             'FIFO is asserted at quiescent points as "no job inside while an earlier arrival still waits"; the order of '
             'entry inside one burst of callbacks is not compared (a granted waiter resumes one loop iteration after the grant)',
             'event loop = asyncio.BaseEventLoop scheduler with a fixed clock and a null I/O selector (vt/sched.py DetLoop); '
             'counterexamples are replayed on the stock loop',
             'CrossHair 0.0.110 path exploration is exhaustive when it reports "Confirmed over all paths"')
    R.extra['trusted_base'] = ['CrossHair/z3', 'CPython asyncio', 'vt/sched.py', 'harness/C16_fifo.py oracle']
    H = importlib.import_module(HM)
    shards = [s for g in groups for s in g]
    sched.run_shards(shards, pct, workers=8)
    sched.discharge(R, shards, 'FIFOWeightedSemaphore safe/FIFO/live over all schedules', H.replay, describe)


def replay(path):
    d = json.load(open(path))['replay']
    H = importlib.import_module(HM)
    ok, cls, why = H.replay(d['args'], d['meta'])
    print('property holds' if ok else f'property violated ({cls})', describe(d['args'], d['meta']), why)
    return 0 if ok else 1
