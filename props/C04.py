"""C04 — jobs follow the lifecycle and complete at most once (E1 sqlsym BMC)."""
from props import _sqlcommon as sc_
from vt.sqlsym import asserts as A

LEVEL = 'model_checking'
EXPLANATION = ('After every operation: each job\'s (old state, new state) pair is an allowed lifecycle edge (Pending->Ready, '
               'Ready->Creating/Running/terminal, Creating->Running/Ready/terminal, Running->Ready/terminal, terminal '
               'absorbing; a Creating/Running job is Ready afterwards only if the operation ended its current attempt), no job row disappears, and n_completed/n_succeeded/n_failed/n_cancelled of every job group equal '
               'the count of terminal jobs in its subtree (so duplicates, stale-attempt and late reports count once).'
               + sc_.BMC_TEXT)


def asserts(sc):
    out = list(A.tallies(sc.db))
    if sc.prev is not None:
        out += A.lifecycle_edges(sc.prev, sc.db)
        out += A.fallback_only_when_withdrawn(sc.prev, sc.db)
    return out


def run(R):
    sc_.standard_run(R, 'C04', asserts, 'lifecycle-or-tally-violation')


def replay(path):
    return sc_.replay_file(path, asserts)
