"""C11 — fair-share allocation is max-min fair (E2: CrossHair on the real method, float idioms cut)."""
import importlib
import json

from vt import chrun, floatcut, loader
from vt.common import HarnessError

LEVEL = 'other'
EXPLANATION = (
    'CrossHair (symbolic execution with z3) runs the real PoolScheduler._compute_fair_share (real sortedcontainers, fake '
    'db yielding N records) with every user\'s running and ready mcpu and the free mcpu as symbolic integers and checks '
    'the water-filling clauses of the property (0<=alloc<=ready; free<=0 => nothing; sum<=free+N/2; demand>=free => '
    'sum>=free-N/2; demand<=free => everyone fully served; nobody with a positive allocation ends more than 1 above a '
    'user left short). The two float idioms int(a/n+0.5) and int(i+0.5) are rewritten to integer arithmetic on the '
    'function\'s AST in memory (int() truncation toward zero modelled for negative operands too); each rewrite is justified in the same run by a Float64 lemma decided by z3 (bit-precise '
    'IEEE semantics) on exactly the operand ranges the rewritten code admits. Only "Confirmed over all paths" counts. '
    'Bounded: N users (quick 1..2, thorough 1..3), all values in [0, 2^bits) (quick 2^20, thorough 2^31), free in '
    '(-2^bits, 2^bits); more users are outside the claim.'
)
SRC = 'batch/batch/driver/instance_collection/pool.py'
QUAL = 'PoolScheduler._compute_fair_share'
CLS = 'fair-share-not-water-filling'


def _harness():
    return importlib.import_module('harness.C11_fair')


def _concrete_violation(H, rs, qs, free):
    """Re-execute on the REAL (uncut) method.  Returns None if the property holds, else a description."""
    try:
        al = H.allocations(rs, qs, free, use_cut=False)
    except Exception as e:  # the scheduler loop crashing on a valid input is a violation too
        return f'raises {type(e).__name__}: {e}'
    if H.fair_ok(rs, qs, free, al):
        return None
    return f'allocations {al}'


def run(R):
    quick = R.tier == 'quick'
    ns = [1, 2] if quick else [1, 2, 3]
    abits = 20 if quick else 31
    pct = 150 if quick else 1200
    nmax = max(ns)
    R.bounds = {'users': ns, 'running/ready mcpu': f'0..2^{abits}-1', 'free mcpu': f'-2^{abits}..2^{abits}-1',
                'rounding slack': 'N/2 on totals, 1 on levels'}
    R.assume('the SQL of _compute_fair_share is not executed: self.db is a fake yielding one record per user with the '
             'symbolic running_cores_mcpu / ready_cores_mcpu (aggregation is C01/C10\'s subject)',
             'running and ready mcpu are non-negative integers (they are sums of non-negative counters)',
             'user names are the fixed distinct strings u0..u(N-1); records arrive in that order; one CrossHair condition per '
             'ordering of the running cores (and, for N=3, of the totals), ties broken by user index, so the conditions partition the inputs',
             'CrossHair 0.0.110 path exploration is exhaustive when it reports "Confirmed over all paths"',
             'lemmas are needed to DISCHARGE; for REFUTING any model may propose candidates: a counterexample that does not '
             'replay, or a cut helper leaving its lemma range (CutRangeError), triggers a second CrossHair run with the helpers '
             'in search mode (exact real-valued reading, no side conditions); only counterexamples that reproduce on the real '
             'uncut method are reported, otherwise the obligation stays not_discharged',
             'Python int/int true division is the correctly rounded quotient (= fp.div RNE of the exact conversions for '
             'operands < 2^53); int(float) truncates (fp.to_sbv RTZ)')
    R.extra['trusted_base'] = ['CrossHair/z3', 'z3 Float64 theory (lemmas)', 'harness/C11_fair.py oracle',
                               'vt/floatcut.py rewrite rules']

    H = _harness()
    H.configure(abits, nmax)
    c = H.cut_result()
    R.encode(f'{SRC}:{c.node.lineno} {QUAL}', c.text)
    rules = sorted({a['rule'] for a in c.applied} - {'deasync'})
    R.extra['float_cuts'] = c.applied
    R.log(f'[C11] float cuts applied: {[(a["rule"], a["line"]) for a in c.applied] or "NONE (checking the uncut method)"}')
    if not rules:
        R.assume('no float idiom matched: the float expressions are checked uncut (CrossHair treats floats as reals)')
    if any(a['rule'] == 'deasync' for a in c.applied):
        R.assume('the coroutine is rewritten to a plain function (await / async for driven synchronously by helpers that raise '
                 'if anything suspends; the fake db never suspends): CrossHair 0.0.110 mis-reads the value stack in coroutine '
                 'frames with `async for` and can segfault; semantics are unchanged')

    # 1. Float64 lemmas for the cuts actually applied
    lemmas_ok = floatcut.prove(R, rules, H.LIMITS, timeout_s=100 if quick else 400, workers=8,
                               second=None if quick else 'cvc5')

    # 2. CrossHair on the (cut) real method
    from harness import C11_template
    src, names = C11_template.source(ns, abits, nmax)
    gm = chrun.gen_module('C11_conditions', src)
    targets = [f'{gm}.check{n}_{s}' for n, s, _ in names] + [f'{gm}.reach{n}_{s}' for n, s, _ in names]
    res = chrun.run(targets, per_condition_timeout=pct, workers=8)
    floatcut.require_verdicts(res)
    refuted = {f'check{n}_{s}': (res[f'{gm}.check{n}_{s}'][1], C11_template.argnames(n))
               for n, s, _ in names if res[f'{gm}.check{n}_{s}'][0] == 'refuted'}

    def rep(fn, a):
        n = int(fn[5:].split('_')[0])
        return _concrete_violation(H, [a[f'r{i}'] for i in range(n)], [a[f'q{i}'] for i in range(n)], a['free'])

    decided = floatcut.two_phase(gm, refuted, rep, pct, prefix='S_') if refuted else {}
    for n, s, (perm, tperm) in names:
        rv, rmsg, rdt = res[f'{gm}.reach{n}_{s}']
        reach = rv == 'refuted' and 'Error' not in rmsg
        v, msg, dt = res[f'{gm}.check{n}_{s}']
        order = '<'.join(f'r{i}' for i in perm) + ('' if tperm is None else '; ' + '<'.join(f't{i}' for i in tperm))
        name = f'_compute_fair_share N={n} [{order}]: water-filling clauses A-E'
        if v == 'confirmed':
            good = reach and lemmas_ok
            R.ob(name, 'discharged' if good else 'not_discharged', dt,
                 {'twin': rmsg, 'lemmas_ok': lemmas_ok, 'cuts': rules}, nontrivial=reach)
        elif v == 'refuted':
            d = decided[f'check{n}_{s}']
            dt += d['secs']
            if d['result'] is None:
                R.ob(name, 'not_discharged', dt, {'crosshair': msg[-300:], 'phase1': d['how'], 'search_twin': d['twin'],
                     'note': 'no counterexample reproduced on the real method (lemma-range exit or over-approximation); '
                             'the search-mode run found none that does'})
            else:
                args = d['args']
                rs = [args[f'r{i}'] for i in range(n)]
                qs = [args[f'q{i}'] for i in range(n)]
                free = args['free']
                st = R.finding(CLS, f'_compute_fair_share running={rs} ready={qs} free={free}: {d["result"]}',
                               {'running': rs, 'ready': qs, 'free': free})
                R.ob(name, st, dt, {'cex': args, 'why': d['result'], 'found_by': d['how']}, nontrivial=True)
        else:
            R.ob(name, 'not_discharged', dt, {'crosshair': msg[-300:]})
        R.sample({'N': n, 'order': order, 'verdict': v, 'secs': round(dt, 1), 'twin': rv})
    open_obs = [o['name'] for o in R.obligs if o['status'] == 'not_discharged']
    if set(rules) != {'rdiv', 'rint'} and open_obs and not R.violations:
        # a float idiom was edited away and the uncut method could not be decided: source no longer translatable
        raise HarnessError(f'float idioms recognised: {rules} (expected rdiv, rint) and {len(open_obs)} obligations on the '
                           'uncut code are undecided')


def replay(path):
    d = json.load(open(path))['replay']
    H = _harness()
    why = _concrete_violation(H, d['running'], d['ready'], d['free'])
    print('property holds' if why is None else f'property violated: {why}', d)
    return 0 if why is None else 1
