"""C03 — billed attempt time is monotone and bounded by the attempt (E1 sqlsym, inductive step, LIA)."""
import inspect
import json
import time

import z3

from vt import glue, loader
from vt.common import HarnessError
from vt.glue import SInt
from vt.sqlsym import batchops as bo
from vt.sqlsym import catalog, model
from vt.sqlsym import ops as sqlops
from vt.sqlsym.interp import GLOBAL_S as S
from vt.sqlsym.interp import NULL, V, b_and, b_not, b_or, is_sym, ite

LEVEL = 'other'
EXPLANATION = (
    'Inductive step decided by z3 (linear integer arithmetic over mathematical integers, no bound on the values): from '
    'an ARBITRARY database state (every cell symbolic; the attempt row constrained only by the invariant "rollup and end '
    'both set => rollup <= end") one call of each real routine that updates `attempts` — mark_job_started, '
    'mark_job_creating, mark_job_complete, unschedule_job, deactivate_instance (parsed from the live migrations, with the '
    'attempts_before_update trigger) and the billing heartbeat of driver/main.py billing_update_1 (the real Python run '
    'through the glue layer) — with arbitrary (nullable) arguments; the property clauses are asserted on (OLD, NEW) of '
    'the attempt row and the invariant is re-established. Covers histories of any length and multiplicity.'
)

ATT = (1, 1, S.code('att1'))


def billed(v):
    """GREATEST(COALESCE(rollup - start, 0), 0) — the expression the billing triggers use."""
    start, rollup = v['start_time'], v['rollup_time']
    d = ite(b_or(start.n, rollup.n), 0, rollup.v - start.v)
    return ite(d > 0, d, 0) if is_sym(d) else max(d, 0)


def snapshot(db):
    r = db.t['attempts'].rows[ATT]
    return r.present, dict(r.vals)


def clauses(old_p, old, new, report_reason):
    """Property clauses over OLD/NEW.  A missing OLD row is a freshly inserted attempt (all NULL).
    Reading used (DESIGN 6/C03): NULL end = not ended; the activation-timeout exception is keyed on the
    report's reason; 'corrects the end to an earlier time' includes setting an end where none was."""
    o = {c: V(ite(old_p, v.v, 0), b_or(b_not(old_p), v.n)) for c, v in old.items()}
    n = new
    bo_, bn = billed(o), billed(n)
    end_earlier = b_and(b_not(n['end_time'].n), b_or(o['end_time'].n, n['end_time'].v < o['end_time'].v))
    # "marks an activation timeout": the report carries that reason, or the attempt is (still) marked with it after
    # the report — attempts_before_update then clears the start, so nothing is billed
    is_timeout = b_and(b_not(n['reason'].n), n['reason'].v == S.code('activation_timeout'))
    if report_reason is not None:
        is_timeout = b_or(is_timeout, b_and(b_not(report_reason.n), report_reason.v == S.code('activation_timeout')))
    out = []
    out.append(('billed duration is never negative', bn >= 0))
    out.append(('once ended, billed <= end - start',
                z3.Implies(b_and(b_not(n['end_time'].n), b_not(n['start_time'].n)),
                           bn <= ite(n['end_time'].v - n['start_time'].v > 0, n['end_time'].v - n['start_time'].v, 0))))
    out.append(('billed never decreases unless the end moves earlier or the report is an activation timeout',
                z3.Or(bn >= bo_, end_earlier, is_timeout)))
    out.append(('start time only moves earlier (or is cleared by an activation timeout)',
                z3.Implies(b_and(b_not(o['start_time'].n), b_not(n['start_time'].n)), n['start_time'].v <= o['start_time'].v)))
    out.append(('once a reason is recorded the end can only be replaced by an earlier one',
                z3.Implies(b_not(o['reason'].n),
                           z3.Or(b_and(_same(o['end_time'], n['end_time']), _same(o['reason'], n['reason'])),
                                 b_and(b_not(n['end_time'].n), b_not(o['end_time'].n), n['end_time'].v < o['end_time'].v)))))
    out.append(('invariant re-established: rollup <= end when both set',
                z3.Implies(b_and(b_not(n['rollup_time'].n), b_not(n['end_time'].n)), n['rollup_time'].v <= n['end_time'].v)))
    return out


def _same(a, b):
    return b_or(b_and(a.n, b.n), b_and(b_not(a.n), b_not(b.n), a.v == b.v))


def nullable(name):
    return V(z3.Int(name), z3.Bool(name + '.null'))


def fresh_state():
    sizes = model.Sizes(J=1, G=1, U=1, I=1, A=1, T=1, IC=1, R=1, D=1)
    db, typed = model.symbolic_db(sizes, 'pre')
    cons = list(typed)
    r = db.t['attempts'].rows[ATT]
    v = r.vals
    # the invariant assumed of every reachable attempt row
    cons.append(z3.Implies(z3.And(r.present, z3.Not(v['rollup_time'].n), z3.Not(v['end_time'].n)),
                           v['rollup_time'].v <= v['end_time'].v))
    # caller contract (driver/job.py, canceller.py, instance.py): end times / timestamps / reasons are real values;
    # NULL times only come with driver-generated completions of a FRESH attempt id (mark_job_errored, canceller)
    for nm in ('arg_end', 'arg_ts'):
        cons.append(z3.Implies(r.present, z3.Not(z3.Bool(nm + '.null'))))
    cons.append(z3.Not(z3.Bool('arg_reason.null')))
    cons.append(z3.Or(z3.Not(z3.Bool('arg_start.null')), z3.Bool('start_may_be_null')))
    cons.append(z3.Or(*[z3.Int('arg_reason') == S.code(x) for x in model.REASONS]))
    return db, cons


def operations():
    """name -> function(db) performing one real update with arbitrary arguments; returns the report's reason V or None."""
    inst = S.code('inst1')
    att = S.code('att1')
    states = [S.code(s) for s in model.TERMINAL]

    def started(db):
        db.env_constraints.append(z3.Not(z3.Bool('start_may_be_null')))
        sqlops.call(db, 'mark_job_started', [1, 1, V(att), V(inst), nullable('arg_start')])
        return None

    def creating(db):
        db.env_constraints.append(z3.Not(z3.Bool('start_may_be_null')))
        sqlops.call(db, 'mark_job_creating', [1, 1, V(att), V(inst), nullable('arg_start')])
        return None

    def complete(db):
        reason = nullable('arg_reason')
        st = z3.Int('arg_state')
        db.env_constraints.append(z3.Or(*[st == s for s in states]))
        sqlops.call(db, 'mark_job_complete', [1, 1, V(att), V(inst), V(st), NULL, nullable('arg_start'), nullable('arg_end'),
                                              reason, V(z3.Int('arg_ts'))])
        return reason

    def unschedule(db):
        reason = nullable('arg_reason')
        sqlops.call(db, 'unschedule_job', [1, 1, V(att), V(inst), nullable('arg_end'), reason])
        return reason

    def deactivate(db):
        reason = nullable('arg_reason')
        sqlops.call(db, 'deactivate_instance', [V(inst), reason, nullable('arg_ts')])
        return reason

    def heartbeat(db):
        run_heartbeat(db, SInt(z3.Int('arg_ts'), S))
        return None

    return {'mark_job_started': started, 'mark_job_creating': creating, 'mark_job_complete': complete,
            'unschedule_job': unschedule, 'deactivate_instance': deactivate, 'billing_update_1 (heartbeat)': heartbeat}


_main = None


def driver_main():
    global _main
    if _main is None:
        loader.install()
        glue.pymysql_shim()
        from batch.driver import main as dm

        async def json_request(request):
            return request._body
        dm.json_request = json_request
        _main = dm
    return _main


def run_heartbeat(db, ts, concrete=False):
    dm = driver_main()

    class Inst:
        async def mark_healthy(self):
            return None

    w = bo.World(db)

    def make(app):
        req = w.request({}, {'timestamp': ts, 'attempts': [{'batch_id': 1, 'job_id': 1, 'attempt_id': 'att1'}]})
        req.app = app
        return dm.billing_update_1(req, Inst())
    outs = w.run(make, 'billing_update_1')
    for t in db.t:
        db.t[t] = w.db.t[t]
    db.env_constraints = w.db.env_constraints
    db.oob = w.db.oob
    return outs


def run(R):
    for name in ('attempts_before_update', 'mark_job_started', 'mark_job_creating', 'mark_job_complete', 'unschedule_job',
                 'deactivate_instance', 'add_attempt'):
        r = catalog.routine(name)
        R.encode(f"{r['file']}:{r['line']} {name}", r['rest'])
    import ast
    text = loader.read('batch/batch/driver/main.py')
    for n in ast.walk(ast.parse(text)):
        if isinstance(n, ast.AsyncFunctionDef) and n.name == 'billing_update_1':
            R.encode(f'batch/batch/driver/main.py:{n.lineno} billing_update_1', ast.get_source_segment(text, n))
    # every routine that updates `attempts` must be in the operation list (source scan)
    updaters = set()
    for name in catalog.live_routines():
        rr = catalog.routine(name)
        if rr['kind'] == 'PROCEDURE' and _updates_attempts(rr['body']):
            updaters.add(name)
    ops_ = operations()
    missing = updaters - set(ops_) - {'add_attempt'}
    if missing:
        raise HarnessError(f'routines updating `attempts` that the check does not drive: {sorted(missing)}')
    R.bounds = {'values': 'unbounded (mathematical integers)', 'state': 'arbitrary pre-state satisfying the invariant',
                'history length': 'any (inductive step)'}
    R.assume('each procedure call / transaction is atomic and serial',
             'MySQL semantics as implemented by vt/sqlsym (S1-S8)',
             'timestamps are integers without overflow',
             'a NULL end time means "not ended"; the activation-timeout exception is keyed on the reason carried by the report',
             'start times may be NULL; end times/timestamps are non-NULL for an existing attempt and reasons are one of the '
             'literals used by the callers (NULL times only accompany a fresh attempt id: mark_job_errored, canceller)',
             'mark_job_started / mark_job_creating carry a non-NULL start time (worker status / time_msecs()); only '
             'mark_job_complete may carry a NULL start',
             'invariant assumed and re-established: rollup <= end when both set',
             '"marks an activation timeout" is read as: the report carries that reason or the attempt is marked with it '
             'after the report')
    R.extra['trusted_base'] = ['z3 (LIA)', 'vt/sqlsym interpreter', 'vt/glue for billing_update_1']
    for opname, fn in ops_.items():
        db, cons = fresh_state()
        old_p, old = snapshot(db)
        t0 = time.time()
        report_reason = fn(db)
        new_p, new = snapshot(db)
        cons = cons + [c for c in db.env_constraints if is_sym(c)]
        if is_sym(db.oob):
            cons.append(z3.Not(db.oob))
        # only look at runs in which the row exists afterwards (otherwise nothing was written)
        cons.append(new_p if is_sym(new_p) else z3.BoolVal(bool(new_p)))
        build = time.time() - t0
        s = z3.Solver()
        s.set('timeout', 120000)
        s.add(*cons)
        if str(s.check()) != 'sat':
            raise HarnessError(f'{opname}: assumptions unsatisfiable (vacuous)')
        # reachability twin: the operation can really change the row
        s.push()
        s.add(z3.Or(*[z3.Not(_same(V(ite(old_p, old[c].v, 0), b_or(b_not(old_p), old[c].n)), new[c])) for c in
                      ('start_time', 'rollup_time', 'end_time', 'reason')]))
        changes = str(s.check()) == 'sat'
        s.pop()
        for cname, expr in clauses(old_p, old, new, report_reason):
            s.push()
            s.add(z3.Not(expr))
            t = time.time()
            r = str(s.check())
            dt = time.time() - t
            name = f'{opname}: {cname}'
            if r == 'unsat':
                R.ob(name, 'discharged', dt, nontrivial=changes)
            elif r == 'sat':
                m = s.model()
                wit = witness(m, old_p, old, new, report_reason)
                if not replay_witness(opname, m, db, wit, cname):
                    raise HarnessError(f'{name}: counterexample does not reproduce concretely: {wit}')
                st = R.finding('attempt-time-rule-broken:' + cname.split(' ')[0], f'{name}: {wit}',
                               {'op': opname, 'clause': cname, 'witness': wit})
                R.ob(name, st, dt, wit, nontrivial=True)
            else:
                R.ob(name, 'not_discharged', dt, {'solver': r})
            s.pop()
        R.sample({'operation': opname, 'build_s': round(build, 2), 'row_can_change': changes})


def _updates_attempts(stmts):
    for st in stmts:
        if st[0] == 'update' and _mentions(st[1], 'attempts') and any(t[2] in ('start_time', 'rollup_time', 'end_time', 'reason')
                                                                      for t, _ in st[2]):
            return True
        if st[0] == 'if':
            for _, body in st[1]:
                if _updates_attempts(body):
                    return True
            if _updates_attempts(st[2]):
                return True
        if st[0] in ('block',) and _updates_attempts(st[1]):
            return True
        if st[0] == 'loop' and _updates_attempts(st[2]):
            return True
    return False


def _mentions(ref, table):
    if ref[0] == 'table':
        return ref[1] == table
    if ref[0] == 'join':
        return _mentions(ref[2], table) or _mentions(ref[3], table)
    return False


def witness(m, old_p, old, new, reason):
    def val(v):
        n = m.eval(v.n, model_completion=True) if is_sym(v.n) else v.n
        if z3.is_true(n) or n is True:
            return None
        x = m.eval(v.v, model_completion=True) if is_sym(v.v) else v.v
        x = x.as_long() if is_sym(x) else x
        return S.name(x)
    return {'old_present': str(m.eval(old_p, model_completion=True)) if is_sym(old_p) else old_p,
            'old': {c: val(old[c]) for c in ('start_time', 'rollup_time', 'end_time', 'reason')},
            'new': {c: val(new[c]) for c in ('start_time', 'rollup_time', 'end_time', 'reason')},
            'report_reason': val(reason) if reason is not None else None,
            'args': {d.name(): str(m[d]) for d in m.decls() if d.name().startswith('arg_')}}


def replay_witness(opname, m, sym_db, wit, cname):
    """Concrete re-execution: concretise the pre-state from the model, run the same real routine with the
    model's argument values on the concrete emulator, re-evaluate the clause with Python values."""
    pre, _ = fresh_state()
    cdb = model.concretize(pre, m)
    cdb.concrete_env = lambda n, a: 0

    def arg(name):
        x = m.eval(z3.Int(name), model_completion=True).as_long()
        n = z3.is_true(m.eval(z3.Bool(name + '.null'), model_completion=True))
        return V(x, n)
    inst, att = S.code('inst1'), S.code('att1')
    old_p, old = snapshot(cdb)
    reason = None
    if opname == 'mark_job_started':
        sqlops.call(cdb, 'mark_job_started', [1, 1, V(att), V(inst), arg('arg_start')])
    elif opname == 'mark_job_creating':
        sqlops.call(cdb, 'mark_job_creating', [1, 1, V(att), V(inst), arg('arg_start')])
    elif opname == 'mark_job_complete':
        reason = arg('arg_reason')
        sqlops.call(cdb, 'mark_job_complete', [1, 1, V(att), V(inst), V(m.eval(z3.Int('arg_state'), model_completion=True).as_long()),
                                               NULL, arg('arg_start'), arg('arg_end'), reason,
                                               V(m.eval(z3.Int('arg_ts'), model_completion=True).as_long())])
    elif opname == 'unschedule_job':
        reason = arg('arg_reason')
        sqlops.call(cdb, 'unschedule_job', [1, 1, V(att), V(inst), arg('arg_end'), reason])
    elif opname == 'deactivate_instance':
        reason = arg('arg_reason')
        sqlops.call(cdb, 'deactivate_instance', [V(inst), reason, arg('arg_ts')])
    else:
        run_heartbeat(cdb, m.eval(z3.Int('arg_ts'), model_completion=True).as_long())
    new_p, new = snapshot(cdb)
    for name, expr in clauses(old_p, old, new, reason):
        if name == cname:
            e = z3.simplify(expr) if is_sym(expr) else expr
            holds = z3.is_true(e) if is_sym(e) else bool(e)
            return not holds
    return False


def replay(path):
    d = json.load(open(path))
    print(json.dumps(d['replay'], indent=1))
    return 1
