"""C31 — Hail type strings round-trip (Python half: E4 regular languages + E2 CrossHair on the real dtype/str;
engine half: E4 against the lexer rule extracted from Parser.scala — model-level)."""
import ast
import importlib
import json
import os
import re
import time

import z3

from vt import chrun, loader, strlang
from vt import strlang_ext as sx
from vt.common import VERIF, HarnessError

LEVEL = 'other'
EXPLANATION = (
    'PYTHON HALF. Names (any length, all of Unicode): the set of names escape_parsable returns unchanged is DERIVED from '
    'its source (the branch condition — re.match/fullmatch/search on the module\'s compiled pattern with Python\'s ^ $ '
    'semantics — is translated; only the escaped-branch expression and unescape_parsable, which call the C codec, are '
    'pinned); z3 regular-language inclusions show that everything the real escape_parsable emits is matched, as a whole and with no other split, by the identifier rule of the real grammar '
    'text (regexes taken from type_grammar_str), and that unescape_parsable inverts it: the per-code-point escape is '
    'tabulated from the REAL functions over all 0x110000 code points (model == real, unescape(escape(c)) == c), and '
    'z3 proves the two facts that lift this to strings of any length — every occurrence of backslash-backtick in a '
    'concatenation of escapes is an escaped backtick (so str.replace acts token-wise), and every escape is a '
    'self-delimiting token of the documented unicode_escape decoder (so decoding acts token-wise). Structure: '
    'CrossHair runs the real dtype(str(t)) (real grammar text and visitor, stand-in PEG engine) for types built from '
    'symbolic constructor/primitive/name choices to depth 2, names drawn from solver-produced members of every name '
    'region. ENGINE HALF (model-level, no scalac): the IRLexer identifier rule (backtickLiteral | ident, escapeChars, '
    'unescapeString arms) is extracted from the Scala source text, JavaTokenParsers.ident character classes are '
    'tabulated by the installed JDK, and z3 decides L(python emits) ⊆ L(lexer accepts) and agreement of the decoded '
    'name per escape class; counterexamples are replayed on the real Python emitter and on a concrete evaluation of '
    'the extracted lexer rule.'
)

JAVA_PY = 'hail/python/hail/utils/java.py'
TYPES_PY = 'hail/python/hail/expr/types.py'
PARSING_PY = 'hail/python/hail/expr/type_parsing.py'
FULL = strlang.re_full


def contains(ch):
    return z3.Concat(FULL(), strlang.re_lit(ch), FULL())


def has_set(rs):
    return z3.Concat(FULL(), strlang.z3_charset(rs), FULL())


def pick(z, lengths, timeout_ms=5000):
    out = []
    s = z3.String('s')
    for ln in lengths:
        sol = z3.Solver()
        sol.set('timeout', timeout_ms)
        sol.add(z3.InRe(s, z), z3.Length(s) == ln)
        if str(sol.check()) == 'sat':
            w = strlang.model_string(sol.model(), s)
            if w not in out:
                out.append(w)
    return out


def empty(R, name, z, on_witness, twin=None):
    """obligation: language z is empty.  twin: a language that must be non-empty (vacuity guard)."""
    nontriv = True
    if twin is not None:
        r0, w0, _ = strlang.member(twin)
        if r0 != 'sat':
            raise HarnessError(f'{name}: left-hand language is empty — vacuous')
    r, w, dt = strlang.member(z, timeout_ms=120000)
    if r == 'unsat':
        R.ob(name, 'discharged', dt, nontrivial=nontriv)
    elif r == 'sat':
        st = on_witness(w)
        R.ob(name, st, dt, {'witness': w}, nontrivial=nontriv)
    else:
        R.ob(name, 'not_discharged', dt, {'solver': r})


# ---- Python half: names ---------------------------------------------------------------------------------
def check_unescape_shape():
    """unescape_parsable is pinned to `bytes(s.replace('\\`','`'),'utf-8').decode('unicode_escape')`: the codec is C code and
    cannot be derived (its per-code-point and token behaviour is validated against the real function every run)."""
    node2, seg2, _ = strlang.load_function(loader.src(JAVA_PY), 'unescape_parsable')
    d2 = ast.unparse(node2)
    if "bytes(s.replace('\\\\`', '`'), 'utf-8').decode('unicode_escape')" not in d2:
        raise HarnessError('unescape_parsable no longer has the modelled shape')
    return node2, seg2


def model_escape(is_raw, s):
    from harness import C31_names as N
    if is_raw(s):
        return s
    return '`' + ''.join(N.esc_model(ord(c)) for c in s) + '`'


def names_half(R, m):
    from harness import C31_names as N
    J, T, g = m.J, m.T, m.grammar
    n1, seg1, raw_cond = N.raw_branch(loader.src(JAVA_PY))
    n2, seg2 = check_unescape_shape()
    R.encode(f'{JAVA_PY}:{n1.lineno} escape_parsable (condition of the as-is branch translated: {ast.unparse(raw_cond)})', seg1)
    R.encode(f'{JAVA_PY}:{n2.lineno} unescape_parsable', seg2)
    for nm_, v_ in vars(J).items():
        if isinstance(v_, re.Pattern) and any(isinstance(x, ast.Name) and x.id == nm_ for x in ast.walk(raw_cond)):
            R.encode(f'{JAVA_PY} {nm_} (compiled pattern used by escape_parsable)', v_.pattern)
    R.encode(f'{PARSING_PY} type_grammar_str', m.tp.type_grammar_str)
    simple_pat, simple_fl = g.regex_of('simple_identifier')
    esc_pat, esc_fl = g.regex_of('escaped_identifier')
    ws_pat, _ = g.regex_of('_')
    # the identifier rule must still be `_ (simple_identifier / escaped_identifier) _`
    idr = g.rules['identifier']
    if not (idr[0] == 'seq' and len(idr[1]) == 3 and idr[1][1] == ('alt', [('ref', 'simple_identifier'), ('ref', 'escaped_identifier')])):
        raise HarnessError('grammar rule `identifier` no longer has the modelled shape')

    from vt.strlang_ext import ALL as A_, cat as c_, cset as s_, lit as l_, Rx as Rx_

    def cont(x):
        return c_(A_(), x, A_())

    region_rx = {
        'backtick': cont(l_('`')), 'backslash': cont(l_('\\')), 'bs-bt': cont(l_('\\`')), 'bs-bs-bt': cont(l_('\\\\`')),
        'control': cont(s_([(0, 0x1f), (0x7f, 0x9f)])), 'latin1': cont(s_([(0xa0, 0xff)])), 'bmp': cont(s_([(0x100, 0xffff)])),
        'astral': cont(s_([(0x10000, strlang.PYMAX)])), 'nonascii': cont(s_([(0x80, strlang.PYMAX)])),
        'syntax': cont(s_(':,}>{< ()')), 'newline': cont(l_('\n')), 'trailing-bs': c_(A_(), l_('\\')),
        'looks-escaped': c_(l_('`'), A_(), l_('`')), 'x-after-bs': cont(l_('\\x41')), 'digit': s_([(48, 57)]),
        'colon-gt': s_(':>'), 'any1': Rx_('set', ((0, strlang.PYMAX),)),
    }

    def build(red):
        rt = strlang.ReTranslator() if red is None else sx.ReducedReTranslator(red)
        cs = rt.charsets
        L = {}
        L['P'], pcs = N.raw_language(n1, raw_cond, vars(J), red)
        cs.extend(pcs)
        L['SIMPLE'] = rt.language(simple_pat, 'fullmatch', simple_fl)
        L['ESCID'] = rt.language(esc_pat, 'fullmatch', esc_fl)
        L['WORD1'] = rt.language(r'\w', 'fullmatch')
        L['WS'] = rt.language(ws_pat, 'fullmatch')
        L['TOK'] = sx.to_z3(N.tok_lang(), cs, red)
        L['TOKNOBT'] = sx.to_z3(N.tok_nobt(), cs, red)
        L['TOK2'] = sx.to_z3(N.tok2_lang(), cs, red)
        L['DTOK'] = sx.to_z3(N.dtok_lang(), cs, red)
        for k, x in region_rx.items():
            L['r:' + k] = sx.to_z3(x, cs, red)
        return L, cs

    _, cs = build(None)
    red = sx.Reducer(cs)
    L, _ = build(red)
    REPS = red.repstar()
    P, SIMPLE, ESCID, WORD1, WS = L['P'], L['SIMPLE'], L['ESCID'], L['WORD1'], L['WS']
    TOK, TOKNOBT, TOK2, DTOK = L['TOK'], L['TOKNOBT'], L['TOK2'], L['DTOK']
    ANY1 = L['r:any1']
    WS1 = z3.Intersect(WS, ANY1)
    BT = strlang.re_lit('`')
    ESCAPED_EMIT = z3.Concat(BT, z3.Star(TOK), BT)
    EMIT = z3.Union(P, ESCAPED_EMIT)
    R.ob('names: alphabet compressed to one representative per character-class signature (all of Unicode incl. planes '
         'above U+2FFFF)', 'discharged', 0.0, {'charsets': len(cs), 'classes': len(red.reps)}, nontrivial=True)

    def in_(lang, w):
        return red.in_lang(lang, w)

    def R_(z):
        return z3.Intersect(z, REPS)

    # ---- tabulation of the per-code-point escape from the REAL functions (k = 1, exhaustive over the alphabet)
    t = time.time()
    bad_model, bad_rt, n = N.tabulate(J.escape_parsable, J.unescape_parsable)
    R.validation_points += n
    if bad_rt:
        c, body, back = bad_rt[0]
        st = R.finding('escape-roundtrip-changes-name', f'unescape_parsable(escape body {body!r}) == {back!r} != {chr(c)!r}',
                       {'kind': 'name', 'name': ' ' + chr(c)})
        R.ob('names: unescape_parsable(escape(c)) == c for every code point (real functions, tabulated)', st, time.time() - t)
    elif bad_model:
        raise HarnessError(f'per-code-point escape model disagrees with the real escape_parsable: {bad_model[:3]}')
    else:
        R.ob('names: unescape_parsable(escape(c)) == c for every code point (real functions, tabulated)', 'discharged',
             time.time() - t, {'code_points': n}, nontrivial=True)

    # ---- translator validation: regex translations vs the real `re`, whole-string escape model vs the real function
    t = time.time()
    rg = lambda k: L['r:' + k]  # noqa: E731
    hard_regions = {
        'simple': P, 'simple-nonascii': z3.Intersect(P, rg('nonascii')),
        'backtick': rg('backtick'), 'backslash': rg('backslash'), 'bs-bt': rg('bs-bt'), 'bs-bs-bt': rg('bs-bs-bt'),
        'control': rg('control'), 'latin1': rg('latin1'), 'bmp': rg('bmp'), 'astral': rg('astral'), 'syntax': rg('syntax'),
        'word-not-simple': z3.Intersect(z3.Plus(WORD1), z3.Complement(P)), 'digit-start': z3.Concat(rg('digit'), z3.Star(WORD1)),
        'newline': rg('newline'), 'trailing-bs': rg('trailing-bs'), 'looks-escaped': rg('looks-escaped'),
        'x-after-bs': rg('x-after-bs'),
    }
    lens = [1, 2, 3, 5] if R.tier == 'quick' else [1, 2, 3, 4, 5, 7, 9]
    names = ['']
    by_region = {'empty': ['']}
    for nm, z in hard_regions.items():
        by_region[nm] = pick(R_(z), lens)
        for w in by_region[nm]:
            if w not in names:
                names.append(w)
    names_half.by_region = by_region
    # the solver only ever returns class representatives; add hand-picked members of the same regions with other characters
    names += [w for w in ['é', 'aé', 'ß1', '٣', 'a٣', '\u2028', 'a b', 'a:b', 'a`b', 'a\\b', '\\', '`', '``', '\\`', '`\\', 'x\ty', '\x7f',
                          '\x80', 'ÿ', 'Ā', '\uffff', '\U00010000', '\U0010ffff', 'a\U0001f600', '\\x41', '\\u0041', '\\N{DASH}', '\\101',
                          'a' * 40, '_', '9', 'int32', 'struct', '\\\n', "'", '"', 'ǅ', 'ⅷ', '²', '_\u0300']
              if w not in names]
    def is_raw(w):
        return in_(P, w)

    for w in names:
        R.validation_points += 1
        for lang, pat, what in ((SIMPLE, re.compile(simple_pat, simple_fl), 'simple_identifier'),
                                (ESCID, re.compile(esc_pat, esc_fl), 'escaped_identifier')):
            if in_(lang, w) != (pat.fullmatch(w) is not None):
                raise HarnessError(f'regex translation of {what} disagrees with re.fullmatch on {w!r}')
        e_real = J.escape_parsable(w)
        if (e_real == w) != is_raw(w):
            raise HarnessError(f'derived as-is language disagrees with the real escape_parsable on {w!r}: real returns {e_real!r}')
        if e_real != model_escape(is_raw, w):
            raise HarnessError(f'escape model disagrees with the real escape_parsable on {w!r}: {e_real!r}')
        if not in_(EMIT, e_real):
            raise HarnessError(f'EMIT language does not contain the real escape_parsable({w!r}) = {e_real!r}')
        # the round trip itself, on the real functions
        if e_real.startswith('`') and J.unescape_parsable(e_real[1:-1]) != w:
            st = R.finding('escape-roundtrip-changes-name', f'unescape_parsable(escape_parsable({w!r})) == '
                           f'{J.unescape_parsable(e_real[1:-1])!r}', {'kind': 'name', 'name': w})
            R.ob(f'names: round trip of solver-chosen name {w!r}', st, 0.0)
    # members / non-members of the grammar languages pushed through re (other direction)
    esc_re = re.compile(esc_pat, esc_fl)
    simple_re = re.compile(simple_pat, simple_fl)
    for lang, want, rx_ in ((ESCID, True, esc_re), (z3.Complement(ESCID), False, esc_re), (SIMPLE, True, simple_re),
                            (z3.Complement(SIMPLE), False, simple_re)):
        for w in pick(R_(lang), lens):
            R.validation_points += 1
            if (rx_.fullmatch(w) is not None) != want:
                raise HarnessError(f'regex translation and re.fullmatch disagree on {w!r}')
    # decoder model vs the real codec on solver-chosen token strings
    for w in pick(R_(z3.Star(TOK2)), [1, 2, 3, 4, 6, 8, 10, 12, 15]) + pick(R_(z3.Star(DTOK)), [2, 4, 6, 10, 11, 14]):
        R.validation_points += 1
        want = N.py_decode_model(w)
        try:
            got = bytes(w, 'utf-8').decode('unicode_escape')
        except Exception:  # noqa: BLE001
            got = None
        if want != got:
            raise HarnessError(f'decoder model disagrees with the real unicode_escape codec on {w!r}: {want!r} vs {got!r}')
    R.ob('names: regex translations / escape model / decoder model == real re, escape_parsable, codec on solver-chosen points',
         'discharged', time.time() - t, {'names': len(names)}, nontrivial=True)

    # ---- the language obligations (any length) --------------------------------------------------------------
    def real_name_fails(kind):
        def f(w):
            cands = []
            if w.startswith('`') and w.endswith('`') and len(w) >= 2:
                try:
                    cands.append(J.unescape_parsable(w[1:-1]))
                except Exception:  # noqa: BLE001
                    pass
            cands.append(w)
            for nm in cands:
                if not struct_roundtrip_ok(T, nm):
                    return R.finding(kind, f'struct field name {nm!r}: dtype(str(t)) != t (emitted {J.escape_parsable(nm)!r})',
                                     {'kind': 'name', 'name': nm})
            raise HarnessError(f'language counterexample {w!r} ({kind}) does not reproduce through the real dtype(str(t))')
        return f

    def E_(name, z, cls, twin):
        empty(R, name, R_(z), real_name_fails(cls), twin=R_(twin))

    E_('names: every simple name emitted as-is is matched whole by simple_identifier (P ⊆ L(\\w+))',
       z3.Intersect(P, z3.Complement(SIMPLE)), 'identifier-rule-rejects-emitted-name', P)
    E_('names: every escaped form `…` is matched by escaped_identifier', z3.Intersect(ESCAPED_EMIT, z3.Complement(ESCID)),
       'identifier-rule-rejects-emitted-name', ESCAPED_EMIT)
    E_('names: escaped_identifier is prefix-free (the regex can stop only at the closing backtick)',
       z3.Intersect(ESCID, z3.Concat(ESCID, z3.Plus(ANY1))), 'identifier-rule-splits-emitted-name', ESCID)
    E_('names: an escaped form never starts like a simple identifier or whitespace (ordered choice picks escaped_identifier)',
       z3.Intersect(ESCAPED_EMIT, z3.Concat(z3.Union(WORD1, WS1), FULL())), 'identifier-rule-splits-emitted-name', ESCAPED_EMIT)
    E_('names: the characters following an identifier in printed types (":" and ">") end \\w+ and are not whitespace',
       z3.Intersect(rg('colon-gt'), z3.Union(WORD1, WS1)), 'identifier-rule-splits-emitted-name', rg('colon-gt'))
    E_('names: simple names contain no whitespace (the `_` rule cannot eat part of a name)',
       z3.Intersect(P, z3.Concat(FULL(), WS1, FULL())), 'identifier-rule-splits-emitted-name', P)
    # unescape lifts from one code point to any string
    bsbt = strlang.re_lit('\\`')
    misaligned = z3.Union(
        z3.Concat(z3.Star(TOK), z3.Intersect(TOKNOBT, rg('backtick')), z3.Star(TOK)),
        z3.Concat(z3.Star(TOK), z3.Intersect(TOK, rg('trailing-bs')), z3.Intersect(TOK, z3.Concat(BT, FULL())), z3.Star(TOK)))
    E_('names: in a concatenation of escapes every backslash-backtick is an escaped backtick (replace acts token-wise)',
       misaligned, 'escape-roundtrip-changes-name', z3.Concat(z3.Star(TOK), bsbt, z3.Star(TOK)))
    E_('names: every escape (after the replace) is a self-delimiting token of the unicode_escape decoder',
       z3.Intersect(TOK2, z3.Complement(DTOK)), 'escape-roundtrip-changes-name', TOK2)
    return names


def struct_roundtrip_ok(T, name):
    t = T.tstruct(**{name: T.tint32, name + '2': T.tarray(T.tstr)})
    try:
        t2 = T.dtype(str(t))
    except Exception:  # noqa: BLE001
        return False
    return t2 == t and list(t2.keys()) == [name, name + '2']


# ---- Python half: structure ------------------------------------------------------------------------------
def structure_half(R, m, names):
    for f in ('HailType.__str__', 'dtype'):
        pass
    ttext = loader.read(TYPES_PY)
    tree = ast.parse(ttext)
    for n in ast.walk(tree):
        if isinstance(n, ast.FunctionDef) and n.name == 'dtype':
            R.encode(f'{TYPES_PY}:{n.lineno} dtype', ast.get_source_segment(ttext, n))
        if isinstance(n, ast.ClassDef) and n.name in ('tstruct', 'tlocus', 'tarray', 'tdict', 'ttuple', 'tndarray', 'tinterval', 'tset', 'tstream'):
            for fn in n.body:
                if isinstance(fn, ast.FunctionDef) and fn.name == '__str__':
                    R.encode(f'{TYPES_PY}:{fn.lineno} {n.name}.__str__', ast.get_source_segment(ttext, fn))
    ptext = loader.read(PARSING_PY)
    for n in ast.walk(ast.parse(ptext)):
        if isinstance(n, ast.ClassDef) and n.name == 'TypeConstructor':
            R.encode(f'{PARSING_PY}:{n.lineno} TypeConstructor', ast.get_source_segment(ptext, n))
    # hard names for the harness: at most H, covering every region (first picks of each region come first)
    H = 6 if R.tier == 'quick' else 12
    chosen = []
    by_region = names_half.by_region
    order = ['empty', 'bs-bt', 'backtick', 'simple', 'syntax', 'astral', 'backslash', 'control', 'word-not-simple', 'bmp',
             'newline', 'simple-nonascii', 'latin1', 'trailing-bs', 'looks-escaped', 'digit-start', 'bs-bs-bt', 'x-after-bs']
    for rank in range(3):
        for reg in order:
            cand = [w for w in by_region.get(reg, []) if len(w) <= 4]
            if rank < len(cand) and cand[rank] not in chosen and len(chosen) < H:
                chosen.append(cand[rank])
    os.makedirs(os.path.join(VERIF, 'harness', 'gen'), exist_ok=True)
    with open(os.path.join(VERIF, 'harness', 'gen', 'C31_hardnames.json'), 'w', encoding='utf-8') as f:
        json.dump(chosen, f)
    R.sample({'hard_names': chosen})
    from harness import C31_struct
    importlib.reload(C31_struct)
    src, tags = C31_struct.source(R.tier)
    gm = chrun.gen_module('C31_conditions', src)
    pct = 170 if R.tier == 'quick' else 1300
    targets = [f'{gm}.check_{t}' for t in tags] + [f'{gm}.reach_{t}' for t in tags]
    res = chrun.run(targets, per_condition_timeout=pct, workers=8)
    for tg in tags:
        rv, rmsg, rdt = res[f'{gm}.reach_{tg}']
        reach = rv == 'refuted'
        v, msg, dt = res[f'{gm}.check_{tg}']
        name = f'structure: dtype(str(t)) == t, top constructor {tg}, depth 2'
        if v == 'confirmed':
            R.ob(name, 'discharged' if reach else 'not_discharged', dt, {'twin': rmsg[:200]}, nontrivial=reach)
        elif v == 'refuted':
            argn = ['a1', 'b1', 'n1']
            args = chrun.parse_counterexample(msg, argn)
            if args is None:
                raise HarnessError(f'cannot parse CrossHair counterexample: {msg}')
            gmod = importlib.import_module(gm)
            try:
                ok = getattr(gmod, f'check_{tg}')(**args)
                tdesc = ''
            except Exception as e:  # noqa: BLE001
                ok = False
                tdesc = f' [{type(e).__name__}: {e}]'
            if ok:
                raise HarnessError(f'CrossHair counterexample does not reproduce concretely: {msg}')
            st = R.finding('dtype-str-roundtrip', f'dtype(str(t)) != t for check_{tg}{args}{tdesc}',
                           {'kind': 'structure', 'tag': tg, 'args': args, 'names': chosen, 'tier': R.tier})
            R.ob(name, st, dt, {'cex': args}, nontrivial=True)
        else:
            R.ob(name, 'not_discharged', dt, {'crosshair': msg[-300:]})


def run(R):
    from harness import C31_peg
    m = C31_peg.install()
    R.bounds = {'names': 'any length, all Unicode scalar values (z3 alphabet 0..0x2FFFF + class-signature reduction)',
                'structure': 'depth 2; per top constructor (struct: per top-level field name) the first child is symbolic: 9 '
                             'constructors x 5 (quick) / 10 (thorough) primitives incl. loci x H field names; the second child '
                             'is derived from the first; H = 6 (quick) / 12 (thorough) solver-produced names'}
    R.assume('parsimonious is absent: the real grammar text and the real TypeConstructor run on a stand-in PEG engine '
             '(harness/C31_peg.py: ordered choice, greedy regex terms, parsimonious node shapes)',
             'ReferenceGenome objects are registered in a registry-only backend stub (real Backend.add/get_reference)',
             'escape_parsable: the condition of the as-is branch is translated from the AST (vt.strlang.PredTranslator); the escaped '
             'expression and unescape_parsable are pinned by AST comparison because the unicode_escape codec is C code',
             'the unicode_escape codec is modelled per code point (validated on all 0x110000 code points against the real '
             'functions each run); the lift to strings rests on the two z3-proved token facts plus the left-to-right, '
             'bounded-lookahead behaviour of the decoder on the token shapes listed in harness/C31_names.py (validated on '
             'solver-chosen strings against the real codec)',
             'lone surrogates are outside the alphabet; tvariable / tvoid / trngstate are not built by the structure harness',
             'CrossHair 0.0.110 path exploration is exhaustive when it reports "Confirmed over all paths"')
    R.extra['trusted_base'] = ['z3 regex solver', 'CrossHair/z3', 'harness/C31_peg.py stand-in PEG engine',
                               'vt/strlang.py regex translation (validated each run)']
    names = names_half(R, m)
    structure_half(R, m, names)
    try:
        engine = importlib.import_module('harness.C31_engine')
    except ImportError:
        engine = None
    if engine is not None:
        engine.engine_half(R, m, names)


def replay(path):
    d = json.load(open(path))
    rp = d['replay']
    from harness import C31_peg
    m = C31_peg.install()
    if rp['kind'] == 'name':
        ok = struct_roundtrip_ok(m.T, rp['name'])
        e = m.J.escape_parsable(rp['name'])
        print(f"name {rp['name']!r}: emitted {e!r}; dtype(str(struct)) round-trips: {ok}")
        return 0 if ok else 1
    if rp['kind'] == 'structure':
        with open(os.path.join(VERIF, 'harness', 'gen', 'C31_hardnames.json'), 'w', encoding='utf-8') as f:
            json.dump(rp['names'], f)
        from harness import C31_struct
        importlib.reload(C31_struct)
        src, tags = C31_struct.source(rp['tier'])
        gm = chrun.gen_module('C31_conditions', src)
        gmod = importlib.reload(importlib.import_module(gm))
        try:
            ok = getattr(gmod, f"check_{rp['tag']}")(**rp['args'])
        except Exception as e:  # noqa: BLE001
            print('raised', type(e).__name__, e)
            ok = False
        print('round trip holds' if ok else 'round trip violated', rp['tag'], rp['args'])
        return 0 if ok else 1
    engine = importlib.import_module('harness.C31_engine')
    return engine.replay(rp, m)
