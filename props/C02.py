"""C02 — billing aggregates equal the sum of attempt usage (E1 sqlsym BMC with billing operations)."""
import os
import types

import z3

from props import _sqlcommon as sc_
from vt import glue, loader
from vt.common import HarnessError
from vt.glue import SInt
from vt.sqlsym import asserts as A
from vt.sqlsym import batchops as bo
from vt.sqlsym import bmc, model, oracle
from vt.sqlsym.interp import GLOBAL_S as S
from vt.sqlsym.interp import NULL, V, b_and, b_not, b_or, i_eq, is_sym, ite
from vt.sqlsym.seqcheck import run_bmc_property

LEVEL = 'model_checking'
EXPLANATION = ('After every operation, for every resource: the usage recorded per job (aggregated_job_resources_v3), per job '
               'group incl. descendants (aggregated_job_group_resources_v3, summed over tokens), per billing project and user '
               '(aggregated_billing_project_user_resources_v3, summed over tokens) and per billing day (…_by_date_v3, summed '
               'over tokens and days) equals the sum over the relevant attempts of quantity x GREATEST(COALESCE(rollup - '
               'start, 0), 0); the real compaction functions of driver/main.py leave every per-key total unchanged. '
               'Operations: schedule, creating, started, complete, unschedule, deactivate, the real billing heartbeat '
               '(billing_update_1), the real add_attempt_resources (before or after start), both real compaction functions.'
               + sc_.BMC_TEXT + ' Quantities are constants per resource and report (3 and 5, or 7 and 2 in a later report about the same attempt) (the identity is linear in the quantity; '
               'symbolic x symbolic products are avoided), times and tokens and billing dates are symbolic.')

QUANT = {1: 3, 2: 5}
QUANT_ALT = {1: 7, 2: 2}   # a later report about the same attempt may carry other quantities (job-private: whole machine, then job spec)
ALPH = ['schedule', 'creating', 'started', 'complete', 'unschedule', 'deactivate', 'heartbeat', 'add_resources', 'compact',
        'compact_by_date']
DEEP = [
    ('schedule', 'add_resources', 'started', 'heartbeat', 'complete'),
    ('schedule', 'started', 'heartbeat', 'add_resources', 'complete'),
    ('schedule', 'started', 'add_resources', 'compact', 'heartbeat'),
    ('schedule', 'started', 'add_resources', 'heartbeat', 'compact_by_date', 'complete'),
    ('schedule', 'started', 'add_resources', 'complete', 'complete'),
    ('schedule', 'add_resources', 'started', 'deactivate', 'heartbeat'),
    ('schedule', 'started', 'add_resources', 'add_resources', 'heartbeat'),
    ('started', 'add_resources', 'heartbeat', 'add_resources', 'heartbeat'),                 # re-registration after time accrued
    ('started', 'add_resources', 'heartbeat', 'compact', 'heartbeat', 'compact'),            # second compaction of a key
    ('started', 'add_resources', 'heartbeat', 'compact_by_date', 'heartbeat', 'compact_by_date'),
]

_mods = {}


def driver_modules():
    if not _mods:
        loader.install()
        glue.pymysql_shim()
        from batch.driver import job as dj
        from batch.driver import main as dm

        async def json_request(request):
            return request._body
        dm.json_request = json_request
        _mods['job'], _mods['main'] = dj, dm
    return _mods['job'], _mods['main']


def billed(a):
    start, rollup = a.vals['start_time'], a.vals['rollup_time']
    d = ite(b_or(start.n, rollup.n), 0, rollup.v - start.v)
    return ite(d > 0, d, 0) if is_sym(d) else max(d, 0)


def attempt_usage(db, r, job_filter):
    """sum over attempts (of jobs passing job_filter) of quantity[a, r] * billed(a)"""
    tot = 0
    for ak, a in db.t['attempts'].rows.items():
        ar = db.t['attempt_resources'].rows[(ak[0], ak[1], ak[2], r)]
        c = b_and(a.present, ar.present, job_filter(ak[1]))
        q = ar.vals['quantity'].v
        tot = tot + ite(c, q * billed(a), 0)
    return tot


def asserts(sc):
    db = sc.db
    out = []
    js = {f.j: f for f in oracle.jobs(db)}
    for r in db.sizes.dom('res'):
        for j in js:
            got = db.t['aggregated_job_resources_v3'].rows[(1, j, r)]
            out.append((f'job {j} resource {r}: usage = sum quantity x billed',
                        oracle.eq(ite(got.present, got.vals['usage'].v, 0), attempt_usage(db, r, lambda jj, j=j: jj == j))))
        for g in oracle.groups(db):
            rows = [x for k, x in db.t['aggregated_job_group_resources_v3'].rows.items() if k[1] == g and k[2] == r]
            got = oracle.sum_(ite(x.present, x.vals['usage'].v, 0) for x in rows)
            want = attempt_usage(db, r, lambda jj, g=g: b_and(js[jj].present, js[jj].in_subtree(db, g)))
            out.append((f'job group {g} resource {r}: usage over tokens = sum over jobs in subtree', oracle.eq(got, want)))
        allj = attempt_usage(db, r, lambda jj: True)
        rows = [x for k, x in db.t['aggregated_billing_project_user_resources_v3'].rows.items() if k[2] == r]
        out.append((f'billing project/user resource {r}: usage over tokens = sum over attempts',
                    oracle.eq(oracle.sum_(ite(x.present, x.vals['usage'].v, 0) for x in rows), allj)))
        rows = [x for k, x in db.t['aggregated_billing_project_user_resources_by_date_v3'].rows.items() if k[3] == r]
        out.append((f'by-date resource {r}: usage over tokens and days = sum over attempts',
                    oracle.eq(oracle.sum_(ite(x.present, x.vals['usage'].v, 0) for x in rows), allj)))
    # compaction: per-key totals unchanged and (by construction of the assertion above) still equal the recount
    if sc.prev is not None and sc.last_kind in ('compact', 'compact_by_date'):
        prev = sc.prev
        for tname, keyidx in (('aggregated_billing_project_user_resources_v3', 3),
                              ('aggregated_billing_project_user_resources_by_date_v3', 4)):
            t = db.t[tname]
            groups = {}
            for k in t.rows:
                groups.setdefault(k[:keyidx], []).append(k)
            for gk, ks in groups.items():
                now = oracle.sum_(ite(t.rows[k].present, t.rows[k].vals['usage'].v, 0) for k in ks)
                before = oracle.sum_(ite(prev.t[tname].rows[k].present, prev.t[tname].rows[k].vals['usage'].v, 0) for k in ks)
                out.append((f'{sc.last_kind}: total of {tname}{[S.name(x) for x in gk]} unchanged', oracle.eq(now, before)))
        for tname in ('aggregated_job_resources_v3', 'aggregated_job_group_resources_v3', 'attempts', 'attempt_resources'):
            out.append((f'{sc.last_kind}: {tname} untouched', A.db_unchanged(prev, db, [tname])))
    return out


class BillingScenario(bmc.Scenario):
    def prefix_batch(self, commit=True):
        """batch prefix + one scheduled attempt (so that depth-2 sequences can already bill it)"""
        super().prefix_batch(commit)
        self.apply('schedule', 'p')
        self.prev = None

    def op_heartbeat(self, tag):
        j, a = self._job(tag), self._att(tag)
        ts = self.inp.sint(f'{tag}_ts')
        _, dm = driver_modules()

        class Inst:
            async def mark_healthy(self):
                return None
        w = self.w
        jj = j if self.inp.concrete else SInt(j, S)
        aa = S.name(a) if self.inp.concrete else SInt(a, S)

        def make(app):
            req = w.request({}, {'timestamp': ts, 'attempts': [{'batch_id': 1, 'job_id': jj, 'attempt_id': aa}]})
            req.app = app
            return dm.billing_update_1(req, Inst())
        return self.run_glue('billing_update', make)

    def op_add_resources(self, tag):
        j, a = self._job(tag), self._att(tag)
        dj, _ = driver_modules()
        w = self.w
        jj = j if self.inp.concrete else SInt(j, S)
        aa = S.name(a) if self.inp.concrete else SInt(a, S)
        names = {f'res{r}': types.SimpleNamespace(resource_id=r, deduped_resource_id=r) for r in self.sizes.dom('res')}
        # which resources this report carries is symbolic (at least the first); quantities are fixed constants

        def make(app):
            alt = self.inp.choose(f'{tag}_other_quantities', [False, True])
            res = [{'name': f'res{r}', 'quantity': (QUANT_ALT if alt else QUANT)[r]} for r in self.sizes.dom('res')
                   if r == 1 or self.inp.choose(f'{tag}_has_res{r}', [True, False])]
            app['resource_name_to_id'] = names
            return dj.add_attempt_resources(app, app['db'], 1, jj, aa, res)
        # the attempt must exist (foreign key attempts <- attempt_resources)
        pres, _ = self._attempt_facts(j, a)
        self._assume(pres)
        return self.run_glue('add_attempt_resources', make)

    def _compact(self, fname, label):
        _, dm = driver_modules()

        def make(app):
            app['feature_flags'] = {'compact_billing_tables': True}
            return getattr(dm, fname)(app, app['db'])
        return self.run_glue(label, make)

    def op_compact(self, tag):
        return self._compact('compact_agg_billing_project_users_table', 'compact')

    def op_compact_by_date(self, tag):
        return self._compact('compact_agg_billing_project_users_by_date_table', 'compact_by_date')

    OPS = dict(bmc.Scenario.OPS)


BillingScenario.OPS.update({'heartbeat': BillingScenario.op_heartbeat, 'add_resources': BillingScenario.op_add_resources,
                            'compact': BillingScenario.op_compact, 'compact_by_date': BillingScenario.op_compact_by_date})


def run(R):
    import vt.sqlsym.seqcheck as seqcheck
    R.assume(*sc_.ASSUMPTIONS)
    R.assume('UTC_DATE() returns an arbitrary billing date of the modelled day set at each call (days may change between steps)',
             'resource quantities are the constants 3 and 5; resource_id = deduped_resource_id',
             'attempt_resources rows are only inserted for existing attempts (foreign key)')
    R.extra['trusted_base'] = ['z3', 'vt/sqlsym interpreter', 'vt/glue', 'environment stubs of vt/sqlsym/batchops.py']
    for rel, names in (('batch/batch/driver/main.py', ['billing_update_1', 'compact_agg_billing_project_users_table',
                                                        'compact_agg_billing_project_users_by_date_table']),
                       ('batch/batch/driver/job.py', ['add_attempt_resources'])):
        import ast
        text = loader.read(rel)
        for n in ast.walk(ast.parse(text)):
            if isinstance(n, ast.AsyncFunctionDef) and n.name in names:
                R.encode(f'{rel}:{n.lineno} {n.name}', ast.get_source_segment(text, n))
    from vt.sqlsym import catalog
    for name in ('attempt_resources_after_insert', 'attempts_after_update', 'attempts_before_update'):
        r = catalog.routine(name)
        R.encode(f"{r['file']}:{r['line']} {name}", r['rest'])
    quick = R.tier == 'quick'
    sizes = model.Sizes(J=2, G=2, U=1, I=1, A=1 if quick else 2, T=2, IC=1, R=2, D=2)
    orig = seqcheck.bmc.Scenario
    seqcheck.bmc.Scenario = BillingScenario
    bmc.Scenario = BillingScenario
    try:
        alph = ALPH if not quick else ['started', 'complete', 'deactivate', 'heartbeat', 'add_resources', 'compact', 'compact_by_date']
        run_bmc_property(R, 'C02', sizes, n1=2, g1=1, alphabet=alph, depth=2, asserts=asserts,
                         classify=lambda bad, vals, sc, known: 'billing-aggregate-differs-from-attempt-usage',
                         extra_seqs=DEEP, workers=int(os.environ.get('VERIF_WORKERS', '12')), timeout_ms=240000)
    finally:
        seqcheck.bmc.Scenario = orig
        bmc.Scenario = orig


def replay(path):
    import vt.sqlsym.seqcheck as seqcheck
    orig = seqcheck.bmc.Scenario
    seqcheck.bmc.Scenario = BillingScenario
    try:
        return sc_.replay_file(path, asserts)
    finally:
        seqcheck.bmc.Scenario = orig
