"""C05 — dependencies gate readiness; failed parents cancel children (E1 sqlsym BMC)."""
from props import _sqlcommon as sc_
from vt.sqlsym import asserts as A

LEVEL = 'model_checking'
EXPLANATION = ('After every operation, for every job: it is Ready/Creating/Running only if every parent (also parents from an '
               'earlier update) is terminal; for committed jobs n_pending_parents equals the number of non-terminal parents, '
               'the job is not left Pending once all parents are terminal, its cancelled mark is set exactly when some '
               'terminal parent did not succeed, and a cancelled non-always-run job is never Creating/Running (always-run '
               'children do become Ready).' + sc_.BMC_TEXT)


def asserts(sc):
    out = []
    for a in A.dependencies(sc.db):
        out.append(a)
    return out


def run(R):
    sc_.standard_run(R, 'C05', asserts, 'dependency-gating-violation')


def replay(path):
    return sc_.replay_file(path, asserts)
