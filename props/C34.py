"""C34 — genotype call packing agrees with the engine (E3: pyk on the Python side, scalak on the Scala side)."""
import ast
import importlib
import json
import time

import z3

from vt import loader, pyk, scalak
from vt.common import HarnessError
from vt.pyk import SBool, SInt

LEVEL = 'other'
EXPLANATION = (
    'Both implementations are re-read from /repo and translated to SMT terms: the real Python _tcall._convert_to_encoding / '
    '_convert_from_encoding, allele_pair, allele_pair_sqrt, small_allele_pair and genetics.Call.__init__ by vt/pyk.py (Python int '
    '-> 64-bit BV with no-overflow side conditions, float -> Float64), the Scala Call/Call1/Call2.apply, Genotype.diploidGtIndex'
    '(WithSwap), allelePair, allelePairSqrt, AllelePair by vt/scalak.py (Int -> 32-bit BV with wrap-around, Double -> Float64, '
    'toInt saturating). SMT queries (z3 5.1 / z3 4.8.12 / cvc5) decide, for ploidy 0, 1, 2 with a symbolic phased bit and '
    'symbolic allele indices whose allele representation is < 2^29 (the engine maximum): (i) Python writes exactly the Int the '
    'engine packs, without raising; both equal phased | ploidy<<1 | repr<<3 with repr = k(k+1)/2+j (VCF order); (ii) '
    'decoding what was encoded returns the same call; (iii) allelePair(diploidGtIndex(j,k)) = (j,k) and diploidGtIndex(allelePair(i)) = i. '
    'The sqrt-based inverse (Python allele_pair_sqrt, Scala allelePairSqrt) is proved against its contract tri(k)+j = i, 0<=j<=k '
    'by Float64 fp.sqrt queries split into octaves [2^b, 2^(b+1)) and is used through that contract in (ii)/(iii). '
    'Bounds: packing, sign wrap, layout and the decoder\'s bit handling (everything that does not need the sqrt inverse) are decided '
    'for repr < 2^29 = the engine maximum in BOTH tiers; the sqrt contracts, the full round trip and the engine bijection for repr < 2^20 '
    '(quick) / < 2^29 (thorough). Scala counterexamples are replayed on a concrete evaluation of the parsed '
    'Scala AST (model level: there is no Scala compiler in the sandbox); Python counterexamples on the real functions.'
)

TYPES = 'hail/python/hail/expr/types.py'
CALLPY = 'hail/python/hail/genetics/call.py'
SCALA = ['hail/hail/src/is/hail/variant/Call.scala', 'hail/hail/src/is/hail/variant/Genotype.scala']
MAXREPR = 1 << 29


def load_py():
    loader.install()
    types = importlib.import_module('hail.expr.types')
    call = importlib.import_module('hail.genetics.call')
    br = importlib.import_module('hail.utils.byte_reader')
    return types, call, br


def load_scala():
    P = scalak.Program()
    for f in SCALA:
        P.load(f, loader.read(f))
    return P


def tri64(k):
    return z3.UDiv(k * (k + 1), z3.BitVecVal(2, 64))


class Ctx:
    def __init__(self, R):
        self.R = R
        self.types, self.callmod, self.br = load_py()
        self.P = load_scala()
        self.encoded = set()
        self.queue = []
        self.fcache = {}

    def defer(self, key, text, solvers, timeout, handler):
        self.queue.append((('q', len(self.queue), str(key)), text, solvers, timeout, handler))

    def run_queue(self, workers=4):
        t0 = time.time()
        res = pyk.portfolio_many([(k, t, s, to) for k, t, s, to, h in self.queue], workers=workers)
        self.R.log(f'[C34] {len(self.queue)} SMT queries solved in {time.time() - t0:.1f}s')
        for k, t, s, to, h in self.queue:
            h(res[k])
        self.queue = []

    def on_py(self, f, node, src):
        key = (f.__code__.co_filename, node.lineno, f.__qualname__)
        if key not in self.encoded:
            self.encoded.add(key)
            rel = f.__code__.co_filename.split('/python/', 1)[-1]
            self.R.encode(f'hail/python/{rel}:{f.__code__.co_firstlineno} {f.__qualname__}', src)

    def on_scala(self, d):
        key = ('scala', d.obj, d.name, d.line)
        if key not in self.encoded:
            self.encoded.add(key)
            self.R.encode(f'{d.obj}.{d.name} (Scala, line {d.line})', d.src)


def sqrt_cut_py(ctx, bound):
    """allele_pair_sqrt(i) read through its contract (proved separately on the real function for 36 <= i < bound)."""
    def handler(it, args, kwargs):
        i = it.it(args[0])
        if getattr(it, '_cutlog', None) is not None:
            it._cutlog.append(i)
        it.fresh += 1
        j = z3.BitVec(f'cut_j!{it.fresh}', it.W)
        k = z3.BitVec(f'cut_k!{it.fresh}', it.W)
        it.add_side(z3.And(i >= 36, i < bound), 'allele_pair_sqrt contract domain')
        it.pc.append(z3.And(j >= 0, j <= k, k <= 0xFFFF, tri64(k) + j == i))
        return it.call(ctx.types.allele_pair, [SInt(j), SInt(k)])
    return handler


def explore_python(ctx, ploidy, bound, with_decode):
    """Returns (interp, vars, paths).  Path value: dict(enc=('ok', v)|('raise', kind), dec=..., value fields)."""
    types, callmod = ctx.types, ctx.callmod
    it = pyk.Interp(width=64, interpret_classes={callmod.Call}, on_function=ctx.on_py,
                    intrinsics={id(types.allele_pair_sqrt): sqrt_cut_py(ctx, bound)}, feas_timeout_ms=400)
    a = [it.int_var(f'a{i}') for i in range(ploidy)]
    ph = it.bool_var('phased')
    for x in a:
        it.assume(z3.And(x.t >= 0, x.t < (1 << 31)))
    tc = types.tcall

    class Writer:
        def __init__(self):
            self.vals = []

        @pyk.native
        def write_int32(self, v):
            t = it.it(v)
            # struct.pack('=i', v) raises struct.error outside the int32 range
            if not it.branch(z3.And(t >= -(1 << 31), t < (1 << 31))):
                raise pyk.PyRaise('struct.error', 'int32 out of range')
            self.vals.append(SInt(t))

    class Reader:
        def __init__(self, v):
            self.v = v

        @pyk.native
        def read_int32(self):
            return self.v

    def thunk(it_):
        value = it_.call(callmod.Call, [list(a), ph])
        out = {'alleles': list(value.fields.get('_alleles', [])), 'phased': value.fields.get('_phased')}
        w = Writer()
        try:
            it_.call(types._tcall._convert_to_encoding, [tc, w, value])
            out['enc'] = ('ok', list(w.vals))
        except pyk.PyRaise as e:
            out['enc'] = ('raise', e.typ)
            return out
        if with_decode and len(w.vals) == 1:
            it_._cutlog = []
            try:
                res = it_.call(types._tcall._convert_from_encoding, [tc, Reader(w.vals[0])])
                out['dec'] = ('ok', res)
            except pyk.PyRaise as e:
                out['dec'] = ('raise', e.typ)
            out['cut_args'] = list(it_._cutlog)
            it_._cutlog = None
        return out
    paths = it.explore(thunk)
    return it, a, ph, paths


def scala_pack(ctx, it, ploidy, a, ph):
    """Engine side on the same inputs (as Ints): ('ok', BV32 term) | ('error', kind); forks through `it`."""
    ev = scalak.Evaluator(ctx.P, it, on_def=ctx.on_scala)
    args = [SInt(z3.Extract(31, 0, x.t)) for x in a]
    try:
        if ploidy == 0:
            r = ev.call('Call0', 'apply', [ph])
        elif ploidy == 1:
            r = ev.call('Call1', 'apply', [args[0], ph])
        else:
            r = ev.call('Call2', 'apply', [args[0], args[1], ph])
        return ('ok', r.t)
    except pyk.PyRaise as e:
        return ('error', e.typ)


def domain(ploidy, a, ph, bound):
    """Calls whose allele representation (in unbounded arithmetic) is below `bound`; returns (constraint, repr term)."""
    if ploidy == 0:
        return z3.BoolVal(True), z3.BitVecVal(0, 64)
    if ploidy == 1:
        return a[0].t < bound, a[0].t
    x, y = a[0].t, a[1].t
    lo = z3.If(x <= y, x, y)
    hi = z3.If(x <= y, y, x)
    rep = z3.If(ph.t, tri64(x + y) + x, tri64(hi) + lo)
    return z3.And(x < (1 << 20), y < (1 << 20), rep < bound), rep


def solve(assertions, fp=False, timeout=120):
    txt = pyk.smt2(assertions, 'QF_BVFP' if fp else 'QF_BV')
    return pyk.portfolio(txt, ('z3old', 'cvc5') if fp else ('z3new', 'cvc5'), timeout)


# ---- concrete replays ----------------------------------------------------------------------------------
def real_python_encode(ctx, alleles, phased):
    c = ctx.callmod.Call(list(alleles), phased=bool(phased))
    w = ctx.br.ByteWriter(bytearray())
    try:
        ctx.types.tcall._convert_to_encoding(w, c)
    except Exception as e:
        return ('raise', type(e).__name__), c
    import struct
    data = bytes(w._buf)
    return ('ok', struct.unpack('=i', data)[0]), c


def real_python_decode(ctx, v):
    import struct
    r = ctx.br.ByteReader(memoryview(struct.pack('=i', v)))
    try:
        return ('ok', ctx.types.tcall._convert_from_encoding(r))
    except Exception as e:
        return ('raise', type(e).__name__)


def model_scala_pack(ctx, alleles, phased):
    if len(alleles) == 0:
        return scalak.run_concrete(ctx.P, 'Call0', 'apply', [bool(phased)])
    if len(alleles) == 1:
        return scalak.run_concrete(ctx.P, 'Call1', 'apply', [alleles[0], bool(phased)])
    return scalak.run_concrete(ctx.P, 'Call2', 'apply', [alleles[0], alleles[1], bool(phased)])


def spec_pack(alleles, phased):
    if len(alleles) == 0:
        rep = 0
    elif len(alleles) == 1:
        rep = alleles[0]
    else:
        x, y = alleles
        if phased:
            rep = (x + y) * (x + y + 1) // 2 + x
        else:
            lo, hi = min(x, y), max(x, y)
            rep = hi * (hi + 1) // 2 + lo
    v = int(bool(phased)) | (len(alleles) << 1) | (rep << 3)
    return v - (1 << 32) if v >= (1 << 31) else v


def check_encode_cex(ctx, alleles, phased):
    """Evaluates the encode property concretely -> (set of classes violated, description)."""
    (pk, pv), c = real_python_encode(ctx, alleles, phased)
    sk, sv = model_scala_pack(ctx, alleles, phased)
    want = spec_pack(alleles, phased)
    cls = set()
    if pk != 'ok':
        cls.add('python-encode-raises-on-representable-call')
    if sk != 'ok':
        cls.add('engine-rejects-representable-call (model-level)')
    if pk == 'ok' and sk == 'ok' and pv != sv:
        cls.add('python-engine-encoding-mismatch (engine side model-level)')
    if pk == 'ok' and pv != want:
        cls.add('python-encoding-differs-from-layout')
    if sk == 'ok' and sv != want:
        cls.add('engine-encoding-differs-from-layout (model-level)')
    rt = None
    if pk == 'ok':
        rt = real_python_decode(ctx, pv)
        if rt[0] != 'ok':
            cls.add('python-decode-raises-on-own-encoding')
        elif not (rt[1] == c):
            cls.add('python-roundtrip-changes-call')
    return cls, f'Call({list(alleles)}, phased={bool(phased)}): python={pk, pv} engine(model)={sk, sv} layout={want} roundtrip={rt}'


# ---- obligations ---------------------------------------------------------------------------------------
def encode_and_roundtrip(R, ctx, bound):
    """`bound`: range on which the sqrt contract is proved in this tier (2^20 quick, 2^29 thorough).  Everything that does
    not need the sqrt inverse (packing, sign wrap, decode's bit handling) is decided on the full engine range in both tiers."""
    status_cache = {}
    full = MAXREPR
    for ploidy in (0, 1, 2):
        t0 = time.time()
        it, a, ph, paths = explore_python(ctx, ploidy, full, with_decode=True)
        # engine side: explored per Python path prefix would multiply paths; it is independent, so explore it separately
        it2 = pyk.Interp(width=64, feas_timeout_ms=400)
        for c in it.pre:
            it2.assume(c)
        spaths = it2.explore(lambda i: scala_pack(ctx, i, ploidy, a, ph))
        dom, rep = domain(ploidy, a, ph, full)
        pre = list(it.pre) + [dom]
        R.log(f'[C34] ploidy {ploidy}: {len(paths)} python paths, {len(spaths)} engine paths ({time.time() - t0:.1f}s)')
        R.states += len(paths) + len(spaths)
        want64 = (z3.If(ph.t, z3.BitVecVal(1, 64), z3.BitVecVal(0, 64)) | z3.BitVecVal(ploidy << 1, 64) | (rep << 3))
        want32 = z3.Extract(31, 0, want64)
        py_raise, py_side, py_layout, py_ok, py_norm = [], [], [], [], []

        def path_repr(al):
            # the representation written with the path's own (constructor-normalised) alleles, in the shape the code computes
            # it (k*(k+1) shared with the encoder's term): equal to `rep` once the normalisation obligation holds
            if ploidy == 0:
                return z3.BitVecVal(0, 64), z3.BoolVal(True)
            if ploidy == 1:
                return it.it(al[0]), it.it(al[0]) == a[0].t
            u, w = it.it(al[0]), it.it(al[1])
            x, y = a[0].t, a[1].t
            norm = z3.If(ph.t, z3.And(u == x, w == y), z3.And(u == z3.If(x <= y, x, y), w == z3.If(x <= y, y, x)))
            return z3.If(ph.t, tri64(u + w) + u, tri64(w) + u), norm
        dec_raise, dec_diff, dec_side, dec_reach, dec_struct = [], [], [], [], []
        for p in paths:
            pc = z3.And(*p.pc) if p.pc else z3.BoolVal(True)
            side = z3.And(*p.side) if p.side else z3.BoolVal(True)
            if p.kind != 'return':
                py_raise.append(pc)
                continue
            out = p.value
            if out['enc'][0] != 'ok' or len(out['enc'][1]) != 1:
                py_raise.append(pc)
                continue
            v = out['enc'][1][0].t
            rep_p, norm = path_repr(out['alleles'])
            want32_p = z3.Extract(31, 0, z3.If(ph.t, z3.BitVecVal(1, 64), z3.BitVecVal(0, 64)) | z3.BitVecVal(ploidy << 1, 64) | (rep_p << 3))
            py_norm.append(z3.And(pc, z3.Not(norm)))
            py_side.append(z3.And(pc, z3.Not(side)))
            py_layout.append(z3.And(pc, side, z3.Extract(31, 0, v) != want32_p))
            py_ok.append((pc, side, v))
            if 'dec' not in out:
                dec_raise.append(pc)
                continue
            if out['dec'][0] != 'ok':
                dec_raise.append(z3.And(pc, side))
                continue
            res = out['dec'][1]
            al2 = res.fields.get('_alleles')
            ph2 = res.fields.get('_phased')
            al1 = out['alleles']
            if not isinstance(al2, list) or len(al2) != len(al1):
                dec_diff.append(z3.And(pc, side))
                continue
            same = [it.truth_term(ph2) == ph.t] + [it.it(x) == it.it(y) for x, y in zip(al1, al2)]
            dec_reach.append(pc)
            dec_diff.append(z3.And(pc, side, z3.Not(z3.And(*same))))
            # bit handling of the decoder: phased bit preserved and the index handed to the sqrt inverse is the representation
            struct = [it.truth_term(ph2) == ph.t] + [ci == rep_p for ci in out.get('cut_args', [])]
            dec_struct.append(z3.And(pc, side, z3.Not(z3.And(*struct))))
        sc_err, sc_ok = [], []
        for p in spaths:
            pc = z3.And(*p.pc) if p.pc else z3.BoolVal(True)
            if p.kind != 'return' or p.value[0] != 'ok':
                sc_err.append(pc)
            else:
                sc_ok.append((pc, p.value[1]))

        def orr(xs):
            return z3.Or(*xs) if len(xs) > 1 else (xs[0] if xs else z3.BoolVal(False))
        mismatch = orr([z3.And(pc, side, spc, z3.Extract(31, 0, v) != sv) for pc, side, v in py_ok for spc, sv in sc_ok])
        sc_layout = orr([z3.And(spc, sv != want32) for spc, sv in sc_ok])
        tw = z3.Solver()
        tw.set('timeout', 30000)
        tw.add(*pre)
        tw.add(orr([pc for pc, side, v in py_ok]))
        reach = str(tw.check()) == 'sat'
        tw = z3.Solver()
        tw.set('timeout', 30000)
        tw.add(*pre)
        tw.add(orr(dec_reach))
        reach_dec = str(tw.check()) == 'sat'
        FB, CB = f'2^{full.bit_length() - 1}', f'2^{bound.bit_length() - 1}'
        contract = '' if bound >= full else f'; sqrt contract proved to {CB} in this tier, to {FB} in thorough'
        inb = rep < bound
        qs = [
            (FB, '(i) Python encode does not raise on a representable call', orr(py_raise), reach),
            (FB, '(i) Python integer operations stay inside the 64-bit encoding (no overflow side condition fails)', orr(py_side), reach),
            (FB, '(i) the Call constructor keeps phased alleles in order and sorts unphased diploid alleles (so repr is the VCF index '
             'of the call as given)', orr(py_norm), reach),
            (FB, '(i) engine packs every representable call (no fatal/assert)', orr(sc_err), reach),
            (FB, '(i) Python wire Int == engine packed Int (signed 32-bit)', mismatch, reach),
            (FB, '(i)/(iii) Python wire Int == phased | ploidy<<1 | repr<<3 as a signed 32-bit value, repr in VCF order', orr(py_layout), reach),
            ((FB if ploidy < 2 else CB), '(i)/(iii) engine packed Int == phased | ploidy<<1 | repr<<3 as a signed 32-bit value, repr in VCF '
             'order', (sc_layout if ploidy < 2 else z3.And(sc_layout, inb)), reach),
            (FB, f'(ii) Python decode of its own encoding does not raise (allele_pair_sqrt through its contract{contract})',
             orr(dec_raise), reach_dec),
            (FB, '(ii) Python decode recovers the phased bit and hands the sqrt inverse exactly the allele representation '
             '(signed/unsigned handling of the wire Int)', orr(dec_struct), reach_dec),
            (CB, '(ii) Python decode(encode(call)) == call (allele_pair_sqrt through its contract)', z3.And(orr(dec_diff), inb), reach_dec),
        ]
        if ploidy == 2 and bound > (1 << 24):
            # the full-range query is the hardest of the check; the same obligation on repr < 2^24 is kept as a fallback claim
            qs.append(('2^24', '(ii) Python decode(encode(call)) == call', z3.And(orr(dec_diff), rep < (1 << 24)), reach_dec))
        for rng, label, vio, rch in qs:
            name = f'ploidy {ploidy}, phased symbolic, repr < {rng}: {label}'
            if z3.is_false(z3.simplify(vio)):
                R.ob(name, 'discharged' if rch else 'not_discharged', 0.0, {'note': 'no such path'}, nontrivial=rch)
                continue
            def handle(res, name=name, rch=rch, ploidy=ploidy):
                r, model, dt, solver = res
                if r == 'unsat':
                    R.ob(name, 'discharged' if rch else 'not_discharged', dt, {'solver': solver}, nontrivial=rch)
                elif r == 'sat':
                    alleles = [model.get(f'a{i}', 0) for i in range(ploidy)]
                    phv = bool(model.get('phased', False))
                    cls, what = check_encode_cex(ctx, alleles, phv)
                    if not cls:
                        raise HarnessError(f'{name}: counterexample {alleles} phased={phv} does not reproduce ({what})')
                    for c in sorted(cls):
                        if c not in status_cache:
                            status_cache[c] = R.finding(c, what, {'kind': 'call', 'alleles': alleles, 'phased': phv})
                        R.ob(name if len(cls) == 1 else f'{name} <{c}>', status_cache[c], dt,
                             {'alleles': alleles, 'phased': phv, 'what': what}, nontrivial=True)
                elif r == 'error':
                    raise HarnessError(f'{name}: solver error {str(model)[:300]}')
                else:
                    R.ob(name, 'not_discharged', dt, {'solver': solver, 'result': r})
            ctx.defer(name, pyk.smt2(pre + [vio], 'QF_BV'), ('z3new', 'cvc5'), 150 if R.tier == 'quick' else 600, handle)
        # translator validation: solver-chosen calls per Python path, pushed through the real encoder
        for pc, side, v in py_ok[:: max(1, len(py_ok) // 6)]:
            s = z3.Solver()
            s.set('timeout', 20000)
            s.add(*pre)
            s.add(pc)
            if str(s.check()) != 'sat':
                continue
            m = s.model()
            alleles = [m.eval(x.t, model_completion=True).as_long() for x in a]
            phv = z3.is_true(m.eval(ph.t, model_completion=True))
            asg = {x.t: val for x, val in zip(a, alleles)}
            asg[ph.t] = phv
            enc = pyk.eval_term(v, asg)
            (pk, pv), _ = real_python_encode(ctx, alleles, phv)
            sk, sv = model_scala_pack(ctx, alleles, phv)
            R.validation_points += 1
            if pk != 'ok' or pv != enc:
                raise HarnessError(f'translator validation (python encode): alleles={alleles} phased={phv} real={pk, pv} encoded={enc}')
            for spc, svt in sc_ok:
                if pyk.eval_term(spc, asg):
                    sval = pyk.eval_term(svt, asg)
                    if sk != 'ok' or sv != sval:
                        raise HarnessError(f'scala symbolic/concrete evaluation disagree: {alleles} {phv}: {sk, sv} vs {sval}')
            R.sample({'call': {'alleles': alleles, 'phased': phv}, 'python_wire': pv, 'engine_model': sv})


def sqrt_contracts(R, ctx, bound):
    """allele_pair_sqrt / allelePairSqrt against tri(k)+j == i, 0 <= j <= k <= 0xFFFF, octave by octave."""
    types = ctx.types
    chunks = [(36, 64)] + [(1 << b, 1 << (b + 1)) for b in range(6, bound.bit_length() - 1)]
    jobs = {}
    meta = {}
    # the kernels are explored once (feasibility "unknown" => explored; infeasible paths only add unsatisfiable disjuncts)
    it = pyk.Interp(width=64, on_function=ctx.on_py, feas_timeout_ms=300)
    i = it.int_var('i')
    it.assume(z3.And(i.t >= 36, i.t < bound))
    ppaths = it.explore(lambda it_: it_.call(types.allele_pair_sqrt, [i]))
    pbad = []
    for p in ppaths:
        pc = z3.And(*p.pc) if p.pc else z3.BoolVal(True)
        if p.kind != 'return':
            pbad.append(pc)
            continue
        r = it.it(p.value)
        j, k = r & 0xFFFF, r >> 16
        side = z3.And(*p.side) if p.side else z3.BoolVal(True)
        ok = z3.And(side, j >= 0, j <= k, k <= 0xFFFF, tri64(k) + j == i.t)
        pbad.append(z3.And(pc, z3.Not(ok)))
    its = pyk.Interp(width=32, feas_timeout_ms=300)
    iv = z3.BitVec('i', 32)
    its.assume(z3.And(iv >= 36, iv < bound))
    ev = scalak.Evaluator(ctx.P, its, on_def=ctx.on_scala)
    spaths = its.explore(lambda _: ev.call('Genotype', 'allelePairSqrt', [SInt(iv)]))
    sbad = []
    for p in spaths:
        pc = z3.And(*p.pc) if p.pc else z3.BoolVal(True)
        if p.kind != 'return':
            sbad.append(pc)
            continue
        r = p.value.t
        j, k = r & 0xFFFF, z3.LShR(r, 16)
        ok = z3.And(z3.ULE(j, k), z3.ULE(k, 0xFFFF), z3.UDiv(k * (k + 1), z3.BitVecVal(2, 32)) + j == iv)
        sbad.append(z3.And(pc, z3.Not(ok)))
    to = 240 if R.tier == 'quick' else 700
    for lo, hi in chunks:
        key = ('py', lo, hi)
        jobs[key] = (key, pyk.smt2([i.t >= lo, i.t < hi, z3.Or(*pbad)], 'QF_BVFP'), ('z3old', 'cvc5'), to)
        meta[key] = ('Python allele_pair_sqrt', ppaths)
        key = ('scala', lo, hi)
        jobs[key] = (key, pyk.smt2([iv >= lo, iv < hi, z3.Or(*sbad)], 'QF_BVFP'), ('z3old', 'cvc5'), to)
        meta[key] = ('Scala Genotype.allelePairSqrt', spaths)
    res = {}
    def handle(resx, key):
        who, paths = meta[key]
        r, model, dt, solver = resx
        name = f'{who}(i) = (j,k) with tri(k)+j == i, 0 <= j <= k <= 0xFFFF, no assert fails, for {key[1]} <= i < {key[2]}'
        reach = any(p.kind == 'return' for p in paths)
        if r == 'unsat':
            R.ob(name, 'discharged' if reach else 'not_discharged', dt, {'solver': solver}, nontrivial=reach)
        elif r == 'sat':
            iv = model['i']
            if key[0] == 'py':
                try:
                    p = ctx.types.allele_pair_sqrt(iv)
                    j, k = p & 0xFFFF, p >> 16
                    bad = not (0 <= j <= k <= 0xFFFF and k * (k + 1) // 2 + j == iv)
                    what = f'allele_pair_sqrt({iv}) = (j={j}, k={k})'
                except Exception as e:
                    bad, what = True, f'allele_pair_sqrt({iv}) raises {type(e).__name__}'
                cls = 'python-allele-pair-sqrt-wrong'
            else:
                kind, p = scalak.run_concrete(ctx.P, 'Genotype', 'allelePairSqrt', [iv])
                if kind == 'ok':
                    j, k = p & 0xFFFF, (p >> 16) & 0xFFFF
                    bad = not (0 <= j <= k and k * (k + 1) // 2 + j == iv)
                    what = f'Genotype.allelePairSqrt({iv}) = (j={j}, k={k}) (model-level)'
                else:
                    bad, what = True, f'Genotype.allelePairSqrt({iv}) fails with {p} (model-level)'
                cls = 'engine-allele-pair-sqrt-wrong (model-level)'
            if not bad:
                raise HarnessError(f'{name}: counterexample i={iv} does not reproduce')
            if cls not in ctx.fcache:
                ctx.fcache[cls] = R.finding(cls, what, {'kind': 'sqrt', 'side': key[0], 'i': iv})
            st = ctx.fcache[cls]
            R.ob(name, st, dt, {'i': iv}, nontrivial=True)
        elif r == 'error':
            raise HarnessError(f'{name}: solver error {str(model)[:300]}')
        else:
            R.ob(name, 'not_discharged', dt, {'solver': solver, 'result': r})
    for key in sorted(jobs, key=lambda k: (-k[2], k[0])):
        ctx.defer(key, jobs[key][1], jobs[key][2], jobs[key][3], lambda resx, key=key: handle(resx, key))
    # translator validation of the sqrt kernels on corner inputs of every octave (term evaluated by z3's own FP vs CPython,
    # and the symbolic vs concrete Scala evaluation)
    for lo, hi in chunks:
        for x in (lo, hi - 1):
            p, enc = pyk.eval_on_paths(ppaths, {i.t: x}, lambda p: it.it(p.value) if p.kind == 'return' else None)
            try:
                real = ('ok', ctx.types.allele_pair_sqrt(x))
            except Exception as e:
                real = ('raise', type(e).__name__)
            got = ('none',) if p is None else (('ok', enc) if p.kind == 'return' else ('raise', p.value[0] if p.kind == 'raise' else p.kind))
            R.validation_points += 1
            if got != real:
                raise HarnessError(f'translator validation allele_pair_sqrt({x}): real={real} encoded={got}')
            p, enc = pyk.eval_on_paths(spaths, {iv: x}, lambda p: p.value.t if p.kind == 'return' else None)
            kind, conc = scalak.run_concrete(ctx.P, 'Genotype', 'allelePairSqrt', [x])
            got = ('none',) if p is None else (('ok', enc) if p.kind == 'return' else ('error', p.value[0] if p.kind == 'raise' else p.kind))
            R.validation_points += 1
            if got != (kind, conc):
                raise HarnessError(f'Scala allelePairSqrt({x}): symbolic evaluation {got} != concrete evaluation {kind, conc}')


def scala_bijection(R, ctx, bound):
    """(iii) on the engine: allelePair o diploidGtIndex = id on j <= k, diploidGtIndex o allelePair = id on i < bound
    (allelePairSqrt through its contract), and diploidGtIndex is the VCF formula."""
    P = ctx.P

    def cut(it):
        def handler(args):
            i = args[0].t
            it.fresh += 1
            j = z3.BitVec(f'scut_j!{it.fresh}', 32)
            k = z3.BitVec(f'scut_k!{it.fresh}', 32)
            it.add_side(z3.And(i >= 36, i < bound), 'allelePairSqrt contract domain')
            it.pc.append(z3.And(z3.ULE(j, k), z3.ULE(k, 0xFFFF), z3.UDiv(k * (k + 1), z3.BitVecVal(2, 32)) + j == i))
            return SInt(j | (k << 16))
        return handler

    class CutEval(scalak.Evaluator):
        def call(self, oname, name, args, kwargs=None):
            if (oname, name) == ('Genotype', 'allelePairSqrt'):
                ctx.on_scala(self.p.find_def(oname, name, 1))
                return cut(self.it)(args)
            return super().call(oname, name, args, kwargs)

    # a) pair -> index -> pair
    it = pyk.Interp(width=32, feas_timeout_ms=3000)
    j, k = z3.BitVec('j', 32), z3.BitVec('k', 32)
    it.assume(z3.And(j >= 0, j <= k, k < (1 << 15), z3.UDiv(k * (k + 1), z3.BitVecVal(2, 32)) + j < bound))
    ev = CutEval(P, it, on_def=ctx.on_scala)

    def thunk_a(_):
        idx = ev.call('Genotype', 'diploidGtIndex', [SInt(j), SInt(k)])
        p = ev.call('Genotype', 'allelePair', [idx])
        return idx, p
    pa = it.explore(thunk_a)
    bad_flow, bad_idx, bad_pair = [], [], []
    for p in pa:
        pc = z3.And(*p.pc) if p.pc else z3.BoolVal(True)
        side = z3.And(*p.side) if p.side else z3.BoolVal(True)
        if p.kind != 'return':
            bad_flow.append(pc)
            continue
        idx, pr = p.value
        bad_idx.append(z3.And(pc, idx.t != z3.UDiv(k * (k + 1), z3.BitVecVal(2, 32)) + j))
        bad_pair.append(z3.And(pc, z3.Or(z3.Not(side), pr.t != (j | (k << 16)))))
    # b) index -> pair -> index
    it2 = pyk.Interp(width=32, feas_timeout_ms=3000)
    iv = z3.BitVec('i', 32)
    it2.assume(z3.And(iv >= 0, iv < bound))
    ev2 = CutEval(P, it2, on_def=ctx.on_scala)

    def thunk_b(_):
        p = ev2.call('Genotype', 'allelePair', [SInt(iv)])
        return ev2.call('Genotype', 'diploidGtIndex', [p])
    pb = it2.explore(thunk_b)
    bad_b = []
    for p in pb:
        pc = z3.And(*p.pc) if p.pc else z3.BoolVal(True)
        side = z3.And(*p.side) if p.side else z3.BoolVal(True)
        if p.kind != 'return':
            bad_b.append(pc)
        else:
            bad_b.append(z3.And(pc, z3.Or(z3.Not(side), p.value.t != iv)))
    # c) VCF order: the index enumerates (0,0),(0,1),(1,1),(0,2),... i.e. index(0,0) = 0, index(j+1,k) = index(j,k)+1 for
    #    j < k, and index(0,k+1) = index(k,k)+1  (by induction: index order == VCF order)
    it3 = pyk.Interp(width=32, feas_timeout_ms=3000)
    it3.assume(z3.And(j >= 0, j <= k, k < (1 << 15)))
    ev3 = scalak.Evaluator(P, it3, on_def=ctx.on_scala)
    j2, k2 = z3.If(j < k, j + 1, z3.BitVecVal(0, 32)), z3.If(j < k, k, k + 1)
    pc_ = it3.explore(lambda _: (ev3.call('Genotype', 'diploidGtIndex', [SInt(j), SInt(k)]),
                                 ev3.call('Genotype', 'diploidGtIndex', [SInt(j2), SInt(k2)]),
                                 ev3.call('Genotype', 'diploidGtIndex', [SInt(z3.BitVecVal(0, 32)), SInt(z3.BitVecVal(0, 32))])))
    bad_c = []
    for p in pc_:
        pc = z3.And(*p.pc) if p.pc else z3.BoolVal(True)
        if p.kind != 'return':
            bad_c.append(pc)
        else:
            x, y, z0 = p.value
            bad_c.append(z3.And(pc, z3.Or(y.t != x.t + 1, z0.t != 0)))

    def orr(xs):
        return z3.Or(*xs) if len(xs) > 1 else (xs[0] if xs else z3.BoolVal(False))
    B = f'2^{bound.bit_length() - 1}'
    qs = [
        (f'(iii) engine: diploidGtIndex(j,k) and allelePair of it do not fail for 0<=j<=k, index < {B}', list(it.pre), orr(bad_flow), ('pair',)),
        (f'(iii) engine: diploidGtIndex(j,k) == k(k+1)/2 + j (VCF formula), index < {B}', list(it.pre), orr(bad_idx), ('pair',)),
        (f'(iii) engine: allelePair(diploidGtIndex(j,k)) == (j,k), index < {B} (allelePairSqrt through its contract)', list(it.pre), orr(bad_pair), ('pair',)),
        (f'(iii) engine: diploidGtIndex(allelePair(i)) == i for 0 <= i < {B} (allelePairSqrt through its contract)', list(it2.pre), orr(bad_b), ('index',)),
        ('(iii) engine: index(0,0) = 0 and the VCF successor of (j,k) has index(j,k)+1, k < 2^15 (index order == VCF order)', list(it3.pre), orr(bad_c), ('order',)),
    ]
    for name, pre, vio, kind in qs:
        if z3.is_false(z3.simplify(vio)):
            R.ob(name, 'discharged', 0.0, {'note': 'no such path'}, nontrivial=True)
            continue
        def handle(res, name=name, kind=kind):
            r, model, dt, solver = res
            if r == 'unsat':
                R.ob(name, 'discharged', dt, {'solver': solver}, nontrivial=True)
            elif r == 'sat':
                # model-level replay on the concrete Scala evaluation
                if kind == ('index',):
                    i0 = model['i']
                    k1, p1 = scalak.run_concrete(P, 'Genotype', 'allelePair', [i0])
                    k2_, back = scalak.run_concrete(P, 'Genotype', 'diploidGtIndex', [p1]) if k1 == 'ok' else ('error', None)
                    bad = not (k1 == 'ok' and k2_ == 'ok' and back == i0)
                    what = f'Genotype.allelePair({i0}) = {k1, p1}; diploidGtIndex of it = {k2_, back} (model-level)'
                    rp = {'kind': 'scala-index', 'i': i0}
                elif kind == ('pair',):
                    j0, k0 = model['j'], model['k']
                    k1, idx = scalak.run_concrete(P, 'Genotype', 'diploidGtIndex', [j0, k0])
                    k2_, pr = scalak.run_concrete(P, 'Genotype', 'allelePair', [idx]) if k1 == 'ok' else ('error', None)
                    bad = not (k1 == 'ok' and k2_ == 'ok' and idx == k0 * (k0 + 1) // 2 + j0 and pr == (j0 | (k0 << 16)))
                    what = f'Genotype.diploidGtIndex({j0},{k0}) = {k1, idx}; allelePair of it = {k2_, pr} (model-level)'
                    rp = {'kind': 'scala-pair', 'j': j0, 'k': k0}
                else:
                    j0, k0 = model.get('j', 0), model.get('k', 0)
                    vals = [j0, k0] + ([j0 + 1, k0] if j0 < k0 else [0, k0 + 1])
                    _, x = scalak.run_concrete(P, 'Genotype', 'diploidGtIndex', vals[:2])
                    _, y = scalak.run_concrete(P, 'Genotype', 'diploidGtIndex', vals[2:])
                    _, z0 = scalak.run_concrete(P, 'Genotype', 'diploidGtIndex', [0, 0])
                    bad = (y != x + 1) or z0 != 0
                    what = f'diploidGtIndex{tuple(vals[:2])}={x}, successor diploidGtIndex{tuple(vals[2:])}={y}, index(0,0)={z0}: not VCF order (model-level)'
                    rp = {'kind': 'scala-order', 'vals': vals}
                if not bad:
                    raise HarnessError(f'{name}: counterexample does not reproduce on the concrete Scala evaluation: {what}')
                cls3 = 'engine-genotype-index-not-bijective-or-not-vcf-order (model-level)'
                if cls3 not in ctx.fcache:
                    ctx.fcache[cls3] = R.finding(cls3, what, rp)
                st = ctx.fcache[cls3]
                R.ob(name, st, dt, {'what': what}, nontrivial=True)
            elif r == 'error':
                raise HarnessError(f'{name}: solver error {str(model)[:300]}')
            else:
                R.ob(name, 'not_discharged', dt, {'solver': solver, 'result': r})
        ctx.defer(name, pyk.smt2(pre + [vio], 'QF_BV'), ('z3new', 'cvc5'), 150 if R.tier == 'quick' else 600, handle)


def small_tables(R, ctx):
    """The two 36-entry tables agree entry by entry (concrete data of both files)."""
    py = list(ctx.types.small_allele_pair)
    it = pyk.Interp(width=32)
    ev = scalak.Evaluator(ctx.P, it, on_def=ctx.on_scala)
    sc = it.explore(lambda _: ev.val('Genotype', 'smallAllelePair'))
    vals = [scalak.concrete(x) for x in sc[0].value] if sc and sc[0].kind == 'return' else None
    text = loader.read(TYPES)
    for n in ast.parse(text).body:
        if isinstance(n, ast.Assign) and ast.unparse(n.targets[0]) == 'small_allele_pair':
            R.encode(f'{TYPES}:{n.lineno} small_allele_pair', ast.get_source_segment(text, n))
    ok = vals is not None and vals == py and all(p == (i - (k * (k + 1) // 2)) | (k << 16) for i, p in enumerate(py)
                                                  for k in [max(kk for kk in range(9) if kk * (kk + 1) // 2 <= i)])
    if ok:
        R.ob('small_allele_pair (Python) == smallAllelePair (Scala) == VCF order for indices 0..35', 'discharged', 0.0, nontrivial=True)
    else:
        st = R.finding('small-allele-pair-tables-differ', f'python={py[:40]} scala={vals}', {'kind': 'tables'})
        R.ob('small_allele_pair (Python) == smallAllelePair (Scala) == VCF order for indices 0..35', st, 0.0, nontrivial=True)


def run(R):
    quick = R.tier == 'quick'
    bound = (1 << 20) if quick else MAXREPR
    R.bounds = {'ploidy': '0, 1, 2', 'phased': 'symbolic',
                'allele representation (VCF genotype index / haploid allele), packing / sign wrap / layout / decoder bit handling':
                '< 2^29 (engine maximum), both tiers',
                'allele representation, sqrt contracts / full round trip / engine bijection': f'< 2^{bound.bit_length() - 1}',
                'allele indices': 'symbolic, >= 0, diploid alleles < 2^20 before the representation bound applies'}
    R.assume('Scala semantics are those implemented in vt/scalak.py (JVM Int wrap-around, truncating /, 5-bit shift counts, '
             'Double.toInt saturating, Math.sqrt correctly rounded); no Scala compiler is available, so engine-side '
             'counterexamples are replayed on a concrete evaluation of the parsed Scala AST (model-level)',
             'ByteWriter.write_int32 is struct.pack("=i", v): raises outside [-2^31, 2^31), otherwise writes v; ByteReader.read_int32 '
             'returns the signed value written',
             'math.sqrt is the correctly rounded IEEE-754 square root (fp.sqrt RNE); 8*float(i)+1 and the following /2, -0.5 are RNE',
             'exact integer kernels, if the code uses them, are read exactly: math.isqrt(n) is the r >= 0 with r*r <= n < (r+1)*(r+1), '
             'int.bit_length, divmod, ** / pow with a small constant exponent; any other library call on a symbolic value stops the check '
             '(exit 2, naming the call) instead of being given an arbitrary value',
             'in the round-trip and bijection obligations allele_pair_sqrt / allelePairSqrt are replaced by their contract '
             '(tri(k)+j == i, 0<=j<=k<=0xFFFF), which is proved on the real kernels octave by octave in the same run; an octave that '
             'times out is reported as not discharged and shrinks the range actually covered',
             'calls are built through the real genetics.Call constructor (unphased diploid alleles get sorted there)')
    R.extra['trusted_base'] = ['z3 4.8.12 / cvc5 1.0.3 (Float64 sqrt), z3 5.1 (BV)', 'vt/pyk.py (validated each run against the real '
                               'Python functions on solver-chosen calls)', 'vt/scalak.py Scala semantics (not validated against a JVM)']
    ctx = Ctx(R)
    for f in SCALA:
        R.encode(f'{f} (whole file hashed; defs used are listed individually)', loader.read(f))
    for fn in (small_tables, encode_and_roundtrip, scala_bijection, sqrt_contracts):
        t0 = time.time()
        fn(R, ctx) if fn is small_tables else fn(R, ctx, bound)
        R.log(f'[C34] {fn.__name__} prepared: {time.time() - t0:.1f}s')
    # hardest first: the sqrt octaves and the round trip
    ctx.queue.sort(key=lambda q: 0 if 'decode(encode' in q[0][2] else (1 if q[0][2].startswith("('") else 2))
    ctx.run_queue()


def replay(path):
    d = json.load(open(path))
    rp = d['replay']

    class _R:
        def encode(self, *a):
            pass
    ctx = Ctx(_R())
    if rp['kind'] == 'call':
        cls, what = check_encode_cex(ctx, rp['alleles'], rp['phased'])
        print(what, sorted(cls))
        return 1 if cls else 0
    if rp['kind'] == 'sqrt':
        iv = rp['i']
        if rp['side'] == 'py':
            try:
                p = ctx.types.allele_pair_sqrt(iv)
                j, k = p & 0xFFFF, p >> 16
                bad = not (0 <= j <= k <= 0xFFFF and k * (k + 1) // 2 + j == iv)
            except Exception as e:
                print('raises', type(e).__name__)
                bad = True
        else:
            kind, p = scalak.run_concrete(ctx.P, 'Genotype', 'allelePairSqrt', [iv])
            bad = kind != 'ok' or not ((p & 0xFFFF) <= ((p >> 16) & 0xFFFF) and ((p >> 16) & 0xFFFF) * (((p >> 16) & 0xFFFF) + 1) // 2 + (p & 0xFFFF) == iv)
            print('model-level', kind, p)
        return 1 if bad else 0
    if rp['kind'] == 'scala-index':
        k1, p1 = scalak.run_concrete(ctx.P, 'Genotype', 'allelePair', [rp['i']])
        k2, back = scalak.run_concrete(ctx.P, 'Genotype', 'diploidGtIndex', [p1]) if k1 == 'ok' else ('error', None)
        print('model-level', k1, p1, k2, back)
        return 0 if (k1 == 'ok' and k2 == 'ok' and back == rp['i']) else 1
    if rp['kind'] == 'scala-pair':
        j0, k0 = rp['j'], rp['k']
        k1, idx = scalak.run_concrete(ctx.P, 'Genotype', 'diploidGtIndex', [j0, k0])
        k2, pr = scalak.run_concrete(ctx.P, 'Genotype', 'allelePair', [idx]) if k1 == 'ok' else ('error', None)
        print('model-level', k1, idx, k2, pr)
        return 0 if (k1 == 'ok' and k2 == 'ok' and idx == k0 * (k0 + 1) // 2 + j0 and pr == (j0 | (k0 << 16))) else 1
    print('structural finding:', d['what'])
    return 1
