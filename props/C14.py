"""C14 — batch API access control (glue path exploration over the real decorator stacks + sqlsym)."""
import ast
import inspect
import json
import os
import re
import time

import z3

from props import _sqlcommon as sc_
from vt import glue, loader
from vt.common import HarnessError
from vt.sqlsym import asserts as A
from vt.sqlsym import batchops as bo
from vt.sqlsym import bmc, model, oracle
from vt.sqlsym.interp import GLOBAL_S as S
from vt.sqlsym.interp import NULL, V, b_and, b_not, b_or, i_eq, is_sym

LEVEL = 'other'
EXPLANATION = (
    'For EVERY route registered in batch.front_end.front_end.routes the real decorator stack (gear.auth '
    'authenticated_users_only / authenticated_developers_only, billing_project_users_only with the real _user_can_access '
    'SQL on a symbolic database, authenticated_developers_or_auth_only, web security headers, …) is executed natively with '
    'the innermost handler replaced by a sentinel and `auth._fetch_userdata` replaced by a stub whose outcome is symbolic '
    '(no user / user in state active|inactive, developer bit, username in {owner, other member, auth}); billing-project '
    'membership rows are symbolic. The solver-driven path explorer enumerates every feasible path; for each path reaching '
    'the sentinel z3 must refute "path condition and not (requirement of the route class)", where the route class comes '
    'from the property text (exempt: health, version/cloud, docs, legal, static; batch-scoped: membership in the batch\'s '
    'billing project; billing administration: developer or the auth service; everything else: an authenticated active '
    'user). Owner filters: the real handlers that add jobs/groups/updates or commit/close are run completely (no sentinel) '
    'as a member who is NOT the owner against a batch created by the owner through the real code: every path must end in an '
    'HTTP error and leave every table unchanged.'
)

EXEMPT = [r'^/healthcheck$', r'^/api/v1alpha/version$', r'^/api/v1alpha/cloud$', r'^/swagger$', r'^/openapi\.yaml$', r'^/tos$',
          r'^/privacy$', r'^/batch/static/']
ADMIN = [r'/billing_projects/.*/(users/.*/(add|remove)|users/add|create|close|reopen|delete)$', r'^/billing_projects/create$',
         r'/billing_limits/.*/edit$', r'^/billing_projects$']
OWNER_ONLY = [r'/jobs/create$', r'/job-groups/create$', r'/update-fast$', r'/updates/create$', r'/commit$', r'/close$']


def route_class(path):
    if any(re.search(p, path) for p in EXEMPT):
        return 'exempt'
    if any(re.search(p, path) for p in ADMIN):
        return 'admin'
    if '{batch_id}' in path:
        if any(re.search(p, path) for p in OWNER_ONLY):
            return 'owner'
        return 'member'
    return 'user'


class Sizes2(model.Sizes):
    def dom(self, name):
        if name == 'user':
            return [S.code('user1'), S.code('user2'), S.code('auth')]
        return super().dom(name)


class Reached(Exception):
    pass


def patched_chain(handler, sentinel):
    """Replace the innermost wrapped function by `sentinel` (closure-cell surgery); returns an undo function."""
    f = handler
    last = None
    while hasattr(f, '__wrapped__'):
        inner = f.__wrapped__
        cell = next((c for c in (f.__closure__ or []) if c.cell_contents is inner), None)
        if cell is None:
            raise HarnessError(f'cannot find closure cell for {inner} in {f}')
        last = (cell, inner)
        f = inner
    if last is None:
        return None
    cell, inner = last
    cell.cell_contents = sentinel
    return lambda: setattr(cell, 'cell_contents', inner)


# callers: two ordinary users, the auth service account, and names that are related to it as strings (a proper substring, a
# proper superstring) - string-membership slips in a guard show only for those
# 'User1' / 'AUTH': distinct accounts that differ from a member / the admin account only by case (MySQL's default collation is
# case-insensitive: billing_project_users.`user` would match them, `user_cs` must not)
USERNAMES = ['user1', 'user2', 'auth', 'au', 'author', 'User1', 'AUTH']


def guards(R):
    fe, _ = bo.front_end()
    text = loader.read('batch/batch/front_end/front_end.py')
    gtext = loader.read('gear/gear/auth.py')
    for rel, t, names in (('batch/batch/front_end/front_end.py', text, ['billing_project_users_only', '_user_can_access',
                                                                       'authenticated_developers_or_auth_only']),
                          ('gear/gear/auth.py', gtext, ['authenticated_users_only', 'authenticated_developers_only'])):
        for n in ast.walk(ast.parse(t)):
            if isinstance(n, (ast.FunctionDef, ast.AsyncFunctionDef)) and n.name in names:
                R.encode(f'{rel}:{n.lineno} {n.name}', ast.get_source_segment(t, n))
    sizes = Sizes2(J=1, G=1, U=1, I=1, A=1, T=1, IC=1)
    model.SCHEMA['billing_project_users'] = ([('billing_project', 'bp'), ('user', 'user')], ['user_cs'], {})
    # collations read from the schema: a VARCHAR column of billing_project_users without an explicit *_cs collation compares
    # case-insensitively (database default utf8mb4_0900_ai_ci)
    import re as _re
    from vt.sqlsym import interp as _interp
    ddl = loader.read('batch/sql/estimated-current.sql')
    mt = _re.search(r'CREATE TABLE IF NOT EXISTS `billing_project_users` \((.*?)\) ENGINE', ddl, _re.S)
    if not mt:
        raise HarnessError('billing_project_users definition not found in estimated-current.sql')
    for cm in _re.finditer(r'^\s*`(\w+)`\s+VARCHAR\(\d+\)([^\n]*)$', mt.group(1), _re.M):
        if not _re.search(r'COLLATE\s+\w+_cs', cm.group(2)):
            _interp.CI_COLUMNS[cm.group(1)] = ('billing_project_users',)
    R.assume('collation: `=` on billing_project_users columns without a *_cs collation (read from estimated-current.sql: '
             f'{sorted(_interp.CI_COLUMNS)}) compares case-folded strings when the column is written qualified with the table name; '
             'accent-insensitivity and every other table are not modelled')
    routes = list(fe.routes)
    n_routes = 0
    for rd in routes:
        cls = route_class(rd.path)
        n_routes += 1
        t0 = time.time()
        db = model.empty_db(sizes)
        b = db.t['batches'].rows[(1,)]
        b.present = True
        b.vals['deleted'] = V(z3.If(z3.Bool('batch_deleted'), 1, 0))
        b.vals['state'] = V(S.code('running'))
        b.vals['n_jobs'] = V(0)
        b.vals['format_version'] = V(7)
        member = {}
        for u in ('user1', 'user2', 'auth'):
            r = db.t['billing_project_users'].rows[(S.code('bp1'), S.code(u))]
            member[u] = z3.Bool(f'member_{u}')
            r.present = member[u]
            r.vals['user_cs'] = V(S.code(u))
        reached = []

        async def sentinel(request, *a, **k):
            raise Reached(a)

        handler = rd.handler
        w = bo.World(db)

        def make(app, handler=handler):
            async def run():
                st = glue.choose('ud_kind', ['none', 'active', 'inactive'])
                if st == 'none':
                    ud = None
                else:
                    ud = {'username': glue.choose('ud_user', USERNAMES), 'state': st,
                          'is_developer': glue.choose('ud_dev', [0, 1]), 'hail_credentials_secret_name': 's',
                          'tokens_secret_name': 't', 'login_id': 'l', 'display_name': 'd'}

                async def fetch(request):
                    return ud
                saved = fe.auth.__dict__.get('_fetch_userdata')
                fe.auth._fetch_userdata = fetch
                undo = patched_chain(handler, sentinel)
                req = w.request({'batch_id': '1', 'job_id': '1', 'job_group_id': '0', 'update_id': '1', 'billing_project': 'bp1',
                                 'user': 'user2', 'container': 'main', 'filename': 'x.js'}, None)
                req.app = app
                req.path = rd.path
                req.url = type('U', (), {'path': rd.path})()
                req.headers = {}
                try:
                    if undo is None:
                        return ('unguarded', None)
                    try:
                        await handler(req)
                        return ('returned', None)
                    except Reached:
                        return ('reached', ud)
                finally:
                    if undo is not None:
                        undo()
                    if saved is None:
                        fe.auth.__dict__.pop('_fetch_userdata', None)
                    else:
                        fe.auth._fetch_userdata = saved
            return run()
        outs = w.run(make, 'guard:' + rd.path)
        n_reach = 0
        verdict = 'discharged'
        detail = {'class': cls, 'paths': len(outs)}
        for o in outs:
            if o.exc is not None:
                st = getattr(o.exc, 'status', None) or getattr(o.exc, 'status_code', None)
                if st is None or not isinstance(o.exc, Exception) or type(o.exc).__module__.startswith('vt'):
                    raise HarnessError(f'{rd.path}: guard stack raised {type(o.exc).__name__}: {o.exc}')
                continue
            kind, ud = o.value
            if kind == 'unguarded':
                reached_any, ud = True, None
            elif kind != 'reached':
                continue
            n_reach += 1
            if cls == 'exempt':
                continue
            # requirement as a formula over the symbolic membership; userdata is concrete on this path
            if ud is None or ud['state'] != 'active':
                need = z3.BoolVal(False)
            elif cls == 'admin':
                need = z3.BoolVal(ud['is_developer'] == 1 or ud['username'] == 'auth')
            elif cls in ('member',):
                need = member.get(ud['username'], z3.BoolVal(False))
            else:
                need = z3.BoolVal(True)   # 'user' and 'owner' (owner filter is checked separately on the full handler)
            s = z3.Solver()
            s.add(*o.pc)
            s.add(z3.Not(need))
            if str(s.check()) != 'unsat':
                m = s.model()
                wit = {'route': f'{rd.method} {rd.path}', 'class': cls, 'userdata': ud,
                       'membership': {u: str(m.eval(mv, model_completion=True)) for u, mv in member.items()}}
                verdict = R.finding('route-guard-admits-unauthorised-caller:' + cls, f'{wit}', {'kind': 'guard', 'witness': wit})
                detail['witness'] = wit
        if kind_is_handler_unguarded(outs) and cls != 'exempt':
            wit = {'route': f'{rd.method} {rd.path}', 'class': cls, 'userdata': None}
            verdict = R.finding('route-without-authentication', f'{wit}', {'kind': 'guard', 'witness': wit})
        if n_reach == 0 and not kind_is_handler_unguarded(outs):
            raise HarnessError(f'{rd.path}: sentinel never reached (vacuous)')
        R.ob(f'{rd.method} {rd.path} [{cls}]: handler reached only by an authorised caller', verdict, time.time() - t0, detail,
             nontrivial=True)
    R.sample({'layer': 'guards', 'routes': n_routes,
              'classes': {c: sum(1 for r in routes if route_class(r.path) == c) for c in ('exempt', 'user', 'member', 'owner', 'admin')}})


def kind_is_handler_unguarded(outs):
    return any(o.exc is None and o.value and o.value[0] == 'unguarded' for o in outs)


# ---- owner filters on the full handlers ------------------------------------------------------------------
class Intruder(bmc.Scenario):
    def switch(self, user):
        self.w.userdata = dict(self.w.userdata, username=user)

    def op_as_other(self, tag):
        self.switch('user2')

    def op_close(self, tag):
        self.begin('close')
        outs = self.w.close_batch()
        self.outcomes.append(('close', outs))
        return outs

    OPS = dict(bmc.Scenario.OPS)


Intruder.OPS.update({'as_other': Intruder.op_as_other, 'close': Intruder.op_close})


def owner_asserts(sc):
    if sc.prev is None or sc.last_kind in ('as_other',) or sc.w.userdata['username'] == 'user1':
        return []
    out = [(f'{sc.last_kind} by a non-owner changes no table', A.db_unchanged(sc.prev, sc.db))]
    outs = sc.outcomes[-1][1] if sc.outcomes else []
    ok = all(o.exc is not None and getattr(o.exc, 'status', 0) in (401, 403, 404) for o in outs)
    out.append((f'{sc.last_kind} by a non-owner is refused with 401/403/404 on every path', ok))
    return out


def owners(R):
    import vt.sqlsym.seqcheck as seqcheck
    sizes = model.Sizes(J=3, G=3, U=2, I=1, A=1, T=1, IC=1)
    orig = seqcheck.bmc.Scenario
    seqcheck.bmc.Scenario = Intruder
    try:
        seqs = [('u2_create', 'as_other', x) for x in ('u2_jobs', 'u2_groups', 'u2_commit', 'u2_create', 'commit1', 'dup_jobs1')]
        # PATCH .../close is not driven: its first query names a column (`deleted`) that job_groups does not have, so the
        # real endpoint fails with an SQL error for every caller before any owner filter is reached (noted in DESIGN.md)
        seqs += [('as_other', x) for x in ('u2_create', 'commit1')]
        for commit in (True, False):
            seqcheck.run_bmc_property(R, 'C14', sizes, n1=2, g1=1, alphabet=[], depth=0, asserts=owner_asserts,
                                      classify=lambda bad, vals, sc, known: 'non-owner-can-modify-batch', extra_seqs=seqs,
                                      commit=commit, workers=int(os.environ.get('VERIF_WORKERS', '8')))
    finally:
        seqcheck.bmc.Scenario = orig


def run(R):
    R.assume('`auth._fetch_userdata` (session lookup at the auth service) is a stub returning an arbitrary outcome; what it '
             'returns is taken as the caller\'s identity', 'route classes are derived from the property text by path pattern '
             '(props/C14.py EXEMPT / ADMIN / OWNER_ONLY)', 'one batch owned by user1 in billing project bp1; callers user1, user2, auth',
             'bodies of read handlers (that they return only the addressed batch\'s data) and the auth service itself are outside the claim',
             *sc_.ASSUMPTIONS[:5])
    R.bounds = {'routes': 'every route in front_end.routes', 'callers': 'none | {user1,user2,auth} x {active,inactive} x developer bit',
                'membership': 'symbolic', 'owner-filter scenarios': 'batch created by the owner via the real code, committed or not'}
    R.extra['trusted_base'] = ['z3', 'vt/glue path exploration', 'vt/sqlsym interpreter', 'closure-cell replacement of the innermost handler']
    guards(R)
    owners(R)


def replay(path):
    d = json.load(open(path))
    print(json.dumps(d['replay'], indent=1, default=str)[:3000])
    return 1
