"""C18 - Batch DSL resource plumbing through the service backend (E5 symbolic program builder)."""
import ast
import concurrent.futures as cf
import json
import multiprocessing as mp
import time

from vt import loader
from vt.common import HarnessError

LEVEL = 'other'
EXPLANATION = (
    'The real hailtop.batch front end (Batch.read_input/read_input_group/write_output, BashJob.command/'
    'declare_resource_group/_interpolate_command, JobResourceFile.add_extension, Resource._get_path, Batch._async_run) '
    'builds pipelines of N bash jobs and submits them through the real ServiceBackend._async_run and the real '
    'aioclient.Batch (create_job/_create_job/submit/_create_fast); only HTTP is fake (the POST body is recorded). '
    'The pipeline is chosen by solver integers (vt/shapesym.py: z3 decides which options are feasible under the '
    'stated constraints, partitions the space into regions, and one final query per shard proves that the explored '
    'path conditions cover the whole constrained space): per job an output kind (none, file, file+extension, '
    'resource group written whole or by member), what it reads (input file, second input file with the same '
    'basename, input group whole/member, an earlier job\'s output whole or by group member; a second read for '
    'fan-in), whether its output is written to an external destination; plus one global variant at a time '
    '(reverse creation order, equal/unsanitary/absent job names, literal noise with quotes/$/braces/uid-like text, '
    'external copy of an input, no scratch clean-up, names that need shell quoting, per-member external outputs, a local '
    'input file uploaded by the client, job names of 244/245/246/250/251/300 characters sharing all but their last '
    'character or identical - also with two producers feeding one consumer; what directly follows a reference (end of '
    'statement, ";", "_tmp", a letter, ".bak", "/sub", a closing double quote) as a symbolic choice per mention, at most '
    'one mention deviating, N=3). The oracle is independent: it '
    'EXECUTES the submitted job specs on an abstract remote store + per-job local file system with shell word '
    'parsing (harness/C18_shell.py) and checks that every read finds the content its producer wrote, every upload '
    'finds its file, external destinations end up with the right content, no two different contents ever meet at '
    'one local or remote path, each consumer lists its producer in parent_ids, and the submitted script contains '
    'each command byte-identical except that every reference became ${BATCH_TMPDIR}<shlex.quote(path)>. '
    'Bounded: quick N=3 (1 read/job, all variants, external output free on the last two jobs) and a small N=4 space (file/group outputs, externals on, base '
    'variant); thorough N=3 with every output kind and read kind (external output free on the last two jobs), N=3 with '
    'externals free on every job, N=3 with a second read (fan-in) on the last job, N=4 with file/group outputs and '
    'all variants; variants and defect kinds are explored on a reduced space (other outputs '
    'file/group, externals on).'
)
SRC = {
    'hail/python/hailtop/batch/backend.py': {'ServiceBackend': ['_async_run']},
    'hail/python/hailtop/batch/job.py': {'Job': ['_interpolate_command', '_add_inputs', '_add_internal_outputs', '_get_resource'],
                                         'BashJob': ['command', 'declare_resource_group', '_compile'],
                                         None: ['_add_resource_to_set']},
    'hail/python/hailtop/batch/resource.py': {'ResourceFile': ['_new_uid', '__new__', '_add_output_path'],
                                              'InputResourceFile': ['_get_path'],
                                              'JobResourceFile': ['_get_path', 'add_extension'],
                                              'ResourceGroup': ['__init__', '_get_path', '_add_output_path', '_get_resource']},
    'hail/python/hailtop/batch/batch.py': {'Batch': ['_new_job_resource_file', '_new_input_resource_file', '_new_resource_group',
                                                     'read_input_group', 'write_output', '_async_run']},
    'hail/python/hailtop/batch_client/aioclient.py': {'Batch': ['_create_job', '_create_fast', '_create_bunches']},
}
WORKERS = 8

CLAUSES = {
    'A': ('the location a producer uploads to is the location consumers (and external outputs) read from',
          {'download-of-missing-remote-file', 'upload-of-unwritten-path', 'copy-of-missing-remote-file', 'external-output-wrong'}),
    'B': ('every consumer is submitted exactly once, as a child of each of its producers',
          {'consumer-not-child-of-producer', 'parent-id-not-earlier', 'job-ids-not-contiguous',
           'job-not-submitted-exactly-once', 'nothing-submitted', 'batch-spec-inconsistent'}),
    'C': ('every reference becomes the shell-quoted local path of its resource and the rest of the command is byte-identical',
          {'command-text-altered', 'reference-not-shell-quoted', 'resource-mentioned-under-two-paths',
           'reference-does-not-resolve-to-resource', 'script-does-not-parse', 'exception-after-submission'}),
    'D': ('distinct resources never share a local or remote path', {'distinct-resources-share-path'}),
}


def _configs(tier):
    """-> (configurations, pool budget in seconds).  Shards that do not finish before the deadline are not discharged."""
    common = dict(small_kinds=[1, 3], variants_on_small_space=True, special_fix_x=True, in_reads2=[], two_reads_jobs=[])
    allv = list(range(21))
    allv4 = list(range(20))      # N=4: without the per-mention suffix variant (too many mentions)
    longnames = [0, 12, 13, 14, 15, 16, 17, 18, 19]
    if tier == 'quick':
        return [dict(common, tag='N3', N=3, variants=allv, out_kinds=[1, 2, 3, 4, 5, 6], in_reads1=['inA', 'ig'],
                     x_free_jobs=[1, 2], nfix=['o_0', 'o_1']),
                dict(common, tag='N4', N=4, variants=[0], out_kinds=[1, 3], in_reads1=['inA'], fix_x_all=True,
                     nfix=['o_0', 'o_1']),
                dict(common, tag='N3fanin', N=3, variants=[0, 16, 18], out_kinds=[1, 3], in_reads1=['inA'],
                     two_reads_jobs=[2], variants_keep_second_read=True, fix_x_all=True, nfix=['o_0'])], 170
    return [
        dict(common, tag='N3', N=3, variants=allv, out_kinds=[0, 1, 2, 3, 4, 5, 6],
             in_reads1=['inA', 'inB', 'ig', 'igm'], x_free_jobs=[1, 2], nfix=['o_0', 'o_1']),
        dict(common, tag='N3x', N=3, variants=[0], out_kinds=[1, 2, 3, 4], in_reads1=['inA', 'ig'], nfix=['o_0', 'o_1']),
        dict(common, tag='N3fanin', N=3, variants=longnames, out_kinds=[1, 3], in_reads1=['inA'], two_reads_jobs=[2],
             variants_keep_second_read=True,
             nfix=['o_0', 'o_1']),
        dict(common, tag='N4', N=4, variants=allv4, out_kinds=[1, 3, 5, 6], in_reads1=['inA'], x_free_jobs=[1, 2, 3],
             nfix=['o_0', 'o_1']),
    ], 1300


def _shards(cfg, deadline_at):
    fixes = [{}]
    for nm in cfg['nfix']:
        fixes = [dict(f, **{nm: k}) for f in fixes for k in range(len(cfg['out_kinds']))]
    return [dict({k: v for k, v in cfg.items() if k != 'nfix'}, fix=f, deadline_at=deadline_at) for f in fixes]


def _work(a):
    from harness import C18_service
    return C18_service.explore_shard(a)


def _encode(R):
    for src, owners in SRC.items():
        text = loader.read(src)
        tree = ast.parse(text)
        for owner, names in owners.items():
            bodies = [tree.body] if owner is None else [n.body for n in tree.body if isinstance(n, ast.ClassDef) and n.name == owner]
            for body in bodies:
                for n in body:
                    if isinstance(n, (ast.FunctionDef, ast.AsyncFunctionDef)) and n.name in names:
                        R.encode(f'{src}:{n.lineno} {owner or "module"}.{n.name}', ast.get_source_segment(text, n))


def _clause_of(kind):
    for c, (_, kinds) in CLAUSES.items():
        if kind in kinds:
            return c
    return 'C'


def run(R):
    from harness import C18_service as H
    cfgs, budget = _configs(R.tier)
    R.bounds = {c['tag']: {'N': c['N'], 'out_kinds': {k: H.OUT_KINDS[k] for k in c['out_kinds']},
                           'first_read': ['none'] + c['in_reads1'] + ['output of an earlier job (whole)', 'member of an earlier job\'s group'],
                           'second_read_on_jobs': c['two_reads_jobs'],
                           'external_output': '0/1 per job' if c.get('x_free_jobs') is None else f'0/1 for jobs {c["x_free_jobs"]}, others 0 (1 outside the base space)',
                           'variants': {k: H.VARIANTS[k] for k in c['variants']},
                           'constraints': 'variants != base and defect kinds (5, 6; at most one job) only on the small '
                                          'space: other outputs in {file, group}, no second read, externals on'}
                for c in cfgs}
    R.assume('HTTP is fake: BatchClient._post records the create-fast body and answers ids; everything up to the bytes '
             'posted is the real client code',
             'offline stubs inside hailtop.batch.backend / aioclient namespaces: orjson (json-backed), rich track / '
             'progress bars (identity / null), validate_file (no network), copy_from_dict (no local uploads occur)',
             'bash jobs only, cloud (gs://) inputs only, one bunch (create-fast path)',
             'uid counters of ResourceFile/ResourceGroup are reset to 0 before each pipeline (fresh interpreter)',
             'random tokens (secret_alnum_string, uuid4) are whatever the run draws: collisions of random tokens are '
             'outside the claim',
             'a program the front end refuses (exception before anything is submitted) is counted and logged, not a '
             'violation: C18 constrains what is submitted',
             'the oracle lets the backend strip leading/trailing white space of a command and nothing else',
             'vt/shapesym.py explores natively; exhaustiveness over the constrained space is re-proved by a solver '
             'query over the recorded path conditions')
    R.extra['trusted_base'] = ['z3', 'vt/shapesym.py', 'harness/C18_shell.py (shell word parser + abstract executor)',
                               'harness/C18_service.py (builder, fake HTTP, text oracle)']
    _encode(R)
    shards = [s for c in cfgs for s in _shards(c, time.time() + budget)]
    t0 = time.time()
    results = []
    with cf.ProcessPoolExecutor(max_workers=WORKERS, mp_context=mp.get_context('spawn')) as ex:
        for r, a in zip(ex.map(_work, shards, chunksize=1), shards):
            r['tag'] = a['tag']
            results.append(r)
    wall = time.time() - t0
    totals = {}
    for c in cfgs:
        tag, N = c['tag'], c['N']
        cfg = {k: v for k, v in c.items() if k not in ('nfix',)}
        rs = [r for r in results if r['tag'] == tag]
        paths = sum(r['paths'] for r in rs)
        pipelines = sum(r['pipelines'] for r in rs)
        complete = all(r['complete'] for r in rs)
        unknown = sum(r['unknown'] for r in rs)
        twins = sum(r['twins_sat'] for r in rs)
        secs = sum(r['secs'] for r in rs)
        variants_seen = {}
        for r in rs:
            for k, v in r['variants_seen'].items():
                variants_seen[k] = variants_seen.get(k, 0) + v
        rejections = {}
        for r in rs:
            for k, e in r['rejections'].items():
                f = rejections.setdefault(k, {'count': 0, 'shape': e['shape']})
                f['count'] += e['count']
        submitted = sum(r['submitted'] for r in rs)
        totals[tag] = dict(shards=len(rs), paths=paths, pipelines=pipelines, submitted=submitted,
                           rejected_by_front_end=sum(r['rejected'] for r in rs),
                           rejections={k: v['count'] for k, v in sorted(rejections.items())},
                           shapes_that_are_not_pipelines=sum(r['not_a_pipeline'] for r in rs),
                           violating_paths=sum(r['violating_paths'] for r in rs), per_variant=variants_seen,
                           solver_calls=sum(r['solver_calls'] for r in rs), cpu_seconds=round(secs, 1))
        # classes found, with the first witness of each (smallest shard first = deterministic)
        found = {}
        for r in rs:
            for cls, e in r['classes'].items():
                f = found.setdefault(cls, {'count': 0, 'first': e['first']})
                f['count'] += e['count']
        hit_clauses = set()
        for cls, f in sorted(found.items()):
            w = f['first']
            classes_now, obs = H.replay_concrete(cfg, N, w['inputs'])
            if cls not in classes_now:
                raise HarnessError(f'C18 counterexample does not reproduce concretely: {cls} {w} -> {sorted(classes_now)}')
            errs = classes_now[cls]
            what = (f'N={N} shape={json.dumps(obs["shape"])}: ' + ' | '.join(f'{k}: {m[:260]}' for k, m in errs[:2]))
            st = R.finding(cls, what, {'N': N, 'cfg': cfg, 'inputs': w['inputs'], 'class': cls})
            clause = _clause_of(errs[0][0])
            if st != 'known':
                hit_clauses.add(clause)
            R.ob(f'{tag}: finding class {cls}', st, 0.0, {'paths_in_class': f['count'], 'clause': clause,
                                                         'first': w['errors'][:2]}, nontrivial=True)
        for cl, (text, _) in CLAUSES.items():
            name = f'{tag}: {text}'
            detail = {'pipelines_checked': submitted, 'shards': len(rs)}
            if cl in hit_clauses:
                continue      # reported above as a violation of this clause
            if complete and unknown == 0 and submitted > 0:
                detail['outside_listed_finding_classes'] = True
                R.ob(name, 'discharged', secs / 4, detail, nontrivial=(twins == pipelines))
            else:
                R.ob(name, 'not_discharged', secs / 4, dict(detail, complete=complete, solver_unknown=unknown))
        for k, v in sorted(rejections.items()):
            R.log(f'[C18] NOTE {tag}: front end refused {v["count"]} programs before submitting anything (not a C18 '
                  f'violation): {k} e.g. shape={json.dumps(v["shape"])}')
        R.ob(f'{tag}: non-vacuity - pipelines are accepted and submitted', 'discharged' if submitted > 0 else 'not_discharged',
             0.0, {'submitted': submitted, 'rejected_by_front_end': totals[tag]['rejected_by_front_end']}, nontrivial=submitted > 0)
        exh = [r['exhaustive'] for r in rs]
        name = f'{tag}: explored path conditions cover the whole constrained input space'
        if all(e == 'unsat' for e in exh):
            R.ob(name, 'discharged', 0.0, {'shards': len(rs), 'paths': paths}, nontrivial=paths > 0)
        elif any(e == 'sat' for e in exh):
            raise HarnessError(f'C18 {tag}: exploration is not exhaustive (shapesym lost a region)')
        else:
            R.ob(name, 'not_discharged', 0.0, {'verdicts': sorted(set(exh))})
        for r in rs[:6]:
            for s in r['samples'][:1]:
                R.sample(dict(s, N=N))
    R.extra['exploration'] = totals
    R.extra['pool_wall_s'] = round(wall, 1)
    R.log(f'[C18] {json.dumps(totals)} pool_wall={wall:.1f}s')


def replay(path):
    from harness import C18_service as H
    d = json.load(open(path))['replay']
    classes, obs = H.replay_concrete(d['cfg'], d['N'], d['inputs'])
    for c, es in classes.items():
        print(c, es[:3])
    print('shape', obs['shape'])
    return 1 if d['class'] in classes else 0
