"""Shared run() scaffolding for the BMC-based SQL-protocol properties."""
import os

from vt.sqlsym import model
from vt.sqlsym.seqcheck import replay_file, run_bmc_property

ALPHABET = ['schedule', 'creating', 'started', 'complete', 'unschedule', 'deactivate', 'cancel_group', 'u2_create',
            'u2_jobs', 'u2_commit']
CORE = [a for a in ALPHABET if not a.startswith('u2_')]
DEEP = [
    ('u2_create', 'u2_jobs', 'schedule', 'complete'),       # child inserted, parent completes, commit never
    ('u2_create', 'u2_jobs', 'schedule', 'complete', 'u2_commit'),   # ... commit late
    ('u2_create', 'u2_jobs', 'cancel_group', 'u2_commit'),  # cancel between insert and commit
    ('schedule', 'started', 'cancel_group', 'complete'),
    ('schedule', 'deactivate', 'schedule', 'complete'),
    ('creating', 'schedule', 'unschedule', 'cancel_group'),
    ('schedule', 'complete', 'complete', 'schedule'),       # duplicate completion, then the child
    ('creating', 'u2_create', 'u2_jobs', 'u2_commit'),      # update committed while a parent is Creating
    ('creating', 'u2_create', 'u2_jobs', 'u2_commit', 'complete'),
    ('schedule', 'u2_create', 'u2_jobs', 'u2_commit'),      # ... while a parent is Running
    ('schedule', 'u2_create', 'u2_jobs', 'complete', 'u2_commit'),
    ('schedule', 'complete', 'u2_create', 'u2_jobs', 'u2_commit'),   # parent already terminal (failed or succeeded)
]
# an attempt that was withdrawn stays in the attempts table; the job's next attempt may run on another instance
STALE = [
    ('schedule', 'unschedule', 'schedule', 'deactivate'),
    ('schedule', 'unschedule', 'schedule', 'deactivate', 'complete'),
    ('schedule', 'unschedule', 'schedule', 'started', 'deactivate'),
]
# the worker's report overtakes the driver's CALL schedule_job for the same attempt
EARLY = [
    ('early_complete', 'schedule'),
    ('early_started', 'schedule', 'complete'),
    ('early_complete', 'schedule', 'deactivate'),
]
KNOWN = 'uncommitted-child-readied-by-parent-completion'

ASSUMPTIONS = [
    'each stored-procedure call and each @transaction body executes atomically and serially (InnoDB locking, isolation '
    'anomalies and deadlocks are outside the claim)',
    'MySQL semantics are those of the vt/sqlsym interpreter (S1-S8 in DESIGN.md 3.1); no server in the sandbox',
    'INT/BIGINT overflow is not modelled (mathematical integers)',
    'one batch, one user; identifiers (instances, attempts, inst_colls) range over the bounded key spaces stated in bounds',
    'authentication is bypassed and inst_coll selection, JSON, file store, clock and token randomness are stubs returning '
    'arbitrary values of their type (vt/sqlsym/batchops.py lists them)',
    'schedule_job/mark_job_creating are only issued for jobs the scheduler query selected at the current or ANY EARLIER '
    'state of the history (stale selection: group running, job Ready, always_run or not cancelled) with a fresh attempt id; '
    'started/complete/unschedule name an existing attempt and its instance',
    'parents of a job are earlier jobs (documented precondition; C08 examines its enforcement)',
    'instances are created directly as rows (Instance.create is two plain INSERTs) with arbitrary state/cores and all cores free',
]


def standard_run(R, pid, asserts, default_class, deep=DEEP, quick_alphabet=CORE, thorough_alphabet=ALPHABET, commit=True,
                 known=KNOWN):
    R.assume(*ASSUMPTIONS)
    R.extra['trusted_base'] = ['z3', 'vt/sqlsym interpreter (MySQL subset semantics)', 'vt/glue path exploration',
                               'environment stubs of vt/sqlsym/batchops.py']
    known_class = known
    quick = R.tier == 'quick'
    sizes = model.Sizes(J=3, G=2, U=2, I=1, A=2, T=2, IC=1) if quick else model.Sizes(J=3, G=3, U=2, I=2, A=2, T=2, IC=1)

    def classify(bad, vals, sc, known):
        return known_class if known else default_class
    run_bmc_property(R, pid, sizes, n1=sizes.J - 1, g1=sizes.G - 1, alphabet=quick_alphabet if quick else thorough_alphabet,
                     depth=2, asserts=asserts, classify=classify, extra_seqs=deep, commit=commit,
                     workers=int(os.environ.get('VERIF_WORKERS', '12')))
    if quick and 'schedule' in quick_alphabet:
        # second pass: the same alphabet from a prefix in which one job has already been scheduled (so that reports
        # about an existing attempt — duplicate, stale, late — are within depth 2)
        run_bmc_property(R, pid, sizes, n1=sizes.J - 1, g1=sizes.G - 1, alphabet=[a for a in quick_alphabet if not a.startswith('u2_')],
                         depth=2, asserts=asserts, classify=classify, extra_seqs=(), commit=commit, prefix_ops=('schedule',),
                         workers=int(os.environ.get('VERIF_WORKERS', '12')))
    stale_pass(R, pid, asserts, classify, commit)
    stale_pass(R, pid, asserts, classify, commit, seqs=EARLY, instances=1)
    if not quick:
        # second pass: every sequence of THREE operation kinds over the core alphabet on the smaller world
        small = model.Sizes(J=3, G=2, U=2, I=1, A=2, T=2, IC=1)
        run_bmc_property(R, pid, small, n1=2, g1=1, alphabet=quick_alphabet, depth=3, asserts=asserts, classify=classify,
                         extra_seqs=(), commit=commit, workers=int(os.environ.get('VERIF_WORKERS', '14')), timeout_ms=300000)
        R.bounds['second_pass'] = {'sizes': small.as_dict(), 'bmc_depth': 3, 'alphabet': quick_alphabet}


def stale_pass(R, pid, asserts, classify, commit=True, seqs=STALE, instances=2):
    """named scenarios on TWO instances: an attempt is withdrawn, the job runs again elsewhere, then something happens to
    the first instance (reports and deactivations that concern a stale attempt of a job whose current attempt is elsewhere)"""
    two = model.Sizes(J=2, G=2, U=2, I=instances, A=2, T=2, IC=1)
    run_bmc_property(R, pid, two, n1=2, g1=1, alphabet=[], depth=0, asserts=asserts, classify=classify, extra_seqs=seqs,
                     commit=commit, workers=int(os.environ.get('VERIF_WORKERS', '12')))


BMC_TEXT = (' Decided by z3: bounded model checking from the EMPTY database with the real front-end Python (create_batch, '
            'create_job_groups, _create_jobs, commit_update, create_update, cancel_job_group_in_db — run natively through a '
            'path-exploring glue layer) and the real stored procedures/triggers parsed from the migrations; the batch shape '
            '(group tree, job->group, parents, always_run, cores, tokens, times) is symbolic; every sequence of 2 operation '
            'kinds with symbolic arguments plus named deeper scenarios (up to 5 operations) is one query; counterexamples '
            'are replayed concretely on the real Python and the concrete MySQL emulator before being reported.')
