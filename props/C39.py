"""C39 — job lifecycle protocol terminates and never double-runs (REDUCED claim; E1 sqlsym BMC)."""
import os

import z3

from props import _sqlcommon as sc_
from vt.sqlsym import asserts as A
from vt.sqlsym import model, oracle
from vt.sqlsym.interp import GLOBAL_S as S
from vt.sqlsym.interp import b_and, b_not, b_or, i_eq, is_sym, ite, truth
from vt.sqlsym.seqcheck import run_bmc_property

LEVEL = 'model_checking'
EXPLANATION = (
    'REDUCED CLAIM (real concurrency of driver loops, workers and preemption is not encodable; the database serialises them '
    'into atomic procedure calls, and the claim is made at that level, fairness assumed): bounded safety and deadlock-freedom '
    'of the DB-level protocol. After every operation: (i) a job that is Creating/Running points at exactly one existing attempt '
    'and a Pending/Ready job points at none, and a job returns from Creating/Running to Ready only when the operation ended its current attempt (else two attempts run at once); (ii) no stuck state — a batch in state running has a committed job that is Ready, '
    'Creating or Running; every committed Ready job sits in a group whose state is running and the loop that must handle it is '
    'gated open: runnable => the scheduler\'s gate (sum of n_ready_jobs > 0) and its candidate query select it; cancelled => the '
    'canceller\'s gate (sum of n_cancelled_ready_jobs > 0) and candidate query select it; cancelled Creating/Running jobs open '
    'the corresponding canceller gates; (iii) progress — an enabled action strictly advances: schedule_job on a currently '
    'selected, still runnable job and an active instance makes it Running (in particular always-run jobs of a cancelled group), '
    'mark_job_complete for the current attempt (or for a job without attempt: the canceller) makes the job terminal, '
    'unschedule_job of the current attempt returns the job to Ready. (ii)+(iii) give termination under fairness for batches '
    'within the bounds.' + sc_.BMC_TEXT)

ALPH = ['schedule', 'creating', 'started', 'complete', 'unschedule', 'deactivate', 'cancel_group', 'cancel_ready']
DEEP = [
    ('cancel_group', 'cancel_ready', 'cancel_ready', 'schedule'),
    ('schedule', 'cancel_group', 'unschedule', 'cancel_ready'),
    ('schedule', 'complete', 'schedule', 'complete'),
    ('creating', 'cancel_group', 'unschedule', 'cancel_ready'),
    ('schedule', 'deactivate', 'schedule', 'complete', 'cancel_ready'),
    ('creating', 'u2_create', 'u2_jobs', 'u2_commit', 'complete'),      # a later update commits while a parent is Creating
    ('schedule', 'u2_create', 'u2_jobs', 'u2_commit', 'complete'),
    ('schedule', 'complete', 'u2_create', 'u2_jobs', 'u2_commit'),
]


def sel_job(j, js, f):
    """value of f(jobfacts) for symbolic job id j"""
    out = False
    for x in js:
        out = b_or(out, b_and(i_eq(j, x.j), f(x)))
    return out


def asserts(sc):
    db, prev = sc.db, sc.prev
    out = []
    js = oracle.jobs(db)
    ics = [k[0] for k in db.t['inst_colls'].rows]
    sums = {c: oracle.sum_(oracle.user_counter_sums(db, ic)[c] for ic in ics) for c in
            ('n_ready_jobs', 'n_cancelled_ready_jobs', 'n_cancelled_creating_jobs', 'n_cancelled_running_jobs')}
    for f in js:
        live = b_or(f.in_state('Creating'), f.in_state('Running'))
        att_exists = b_or(*[b_and(a.present, i_eq(f.attempt_id.v, k[2])) for k, a in db.t['attempts'].rows.items() if k[1] == f.j])
        out.append((f'job {f.j}: Creating/Running => points at an existing attempt',
                    A.imp(b_and(f.present, live), b_and(b_not(f.attempt_id.n), att_exists))))
        out.append((f'job {f.j}: Pending/Ready => no current attempt',
                    A.imp(b_and(f.present, b_or(f.in_state('Pending'), f.in_state('Ready'))), f.attempt_id.n)))
        # a committed Pending job must be waiting for something that can still happen
        jsd = {x.j: x for x in js}
        waiting = b_or(*[b_and(p, jsd[pid].present, b_not(jsd[pid].terminal())) for pid, p in A.parents_of(db, f.j)])
        out.append((f'job {f.j}: committed Pending => some parent is not terminal yet (else it is stuck forever)',
                    A.imp(b_and(f.present, f.committed, f.in_state('Pending')), waiting)))
        ready = b_and(f.present, f.committed, f.in_state('Ready'))
        grp_running = b_or(*[b_and(i_eq(f.group, g), i_eq(db.t['job_groups'].rows[(1, g)].vals['state'].v, S.code('running')))
                             for g in oracle.groups(db)])
        out.append((f'job {f.j}: committed Ready => its group is in state running', A.imp(ready, grp_running)))
        out.append((f'job {f.j}: Ready and runnable => scheduler gate open and candidate query selects it',
                    # (a job of the job-private collection that still has an attempt on a live instance is waiting for that
                    # instance: the `HAVING live_attempts = 0` of its candidate query is not part of this gate)
                    A.imp(b_and(ready, b_not(f.cancelled)), b_and(sums['n_ready_jobs'] > 0, sc.scheduler_selects(f.j, having=False)))))
        out.append((f'job {f.j}: Ready and cancelled => canceller gate open and candidate query selects it',
                    A.imp(b_and(ready, f.cancelled), b_and(sums['n_cancelled_ready_jobs'] > 0, sc.canceller_selects(f.j)))))
        out.append((f'job {f.j}: Creating and cancelled => canceller gate open',
                    A.imp(b_and(f.present, f.committed, f.in_state('Creating'), f.cancelled), sums['n_cancelled_creating_jobs'] > 0)))
        out.append((f'job {f.j}: Running and cancelled => canceller gate open',
                    A.imp(b_and(f.present, f.committed, f.in_state('Running'), f.cancelled), sums['n_cancelled_running_jobs'] > 0)))
    b = db.t['batches'].rows[(1,)]
    running = b_and(b.present, i_eq(b.vals['state'].v, S.code('running')))
    active = b_or(*[b_and(f.present, f.committed, b_or(f.in_state('Ready'), f.in_state('Creating'), f.in_state('Running'))) for f in js])
    out.append(('no stuck state: batch running => some committed job is Ready/Creating/Running', A.imp(running, active)))
    if prev is not None:
        # never double-runs: a job leaves Creating/Running for Ready only when the operation ended its current attempt
        out += A.fallback_only_when_withdrawn(prev, db)
    # progress
    if prev is not None and sc.last_kind in ('schedule', 'complete', 'unschedule', 'cancel_ready'):
        pj = oracle.jobs(prev)
        j = sc.last_args['job']
        if sc.last_kind == 'schedule':
            i = sc.last_args['inst']
            inst_active = b_or(*[b_and(i_eq(i, k[0]), i_eq(r.vals['state'].v, S.code('active'))) for k, r in prev.t['instances'].rows.items()])
            cond = b_and(sc.scheduler_selects(j, prev), inst_active)
            out.append(('progress: schedule_job of a currently selected job on an active instance makes it Running',
                        A.imp(cond, sel_job(j, js, lambda x: x.in_state('Running')))))
        elif sc.last_kind in ('complete', 'cancel_ready'):
            a = sc.last_args.get('att')
            cur = sel_job(j, pj, lambda x: b_and(b_or(x.in_state('Ready'), x.in_state('Creating'), x.in_state('Running')),
                                                b_or(x.attempt_id.n, i_eq(x.attempt_id.v, a) if a is not None else False)))
            out.append((f'progress: {sc.last_kind} for the current attempt (or a job without attempt) makes the job terminal',
                        A.imp(cond_present(j, pj, cur), sel_job(j, js, lambda x: x.terminal()))))
        elif sc.last_kind == 'unschedule':
            a = sc.last_args['att']
            cur = sel_job(j, pj, lambda x: b_and(b_or(x.in_state('Creating'), x.in_state('Running')), b_not(x.attempt_id.n),
                                                i_eq(x.attempt_id.v, a)))
            out.append(('progress: unschedule_job of the current attempt returns the job to Ready',
                        A.imp(cur, sel_job(j, js, lambda x: x.in_state('Ready')))))
    return out


def cond_present(j, pj, cur):
    return b_and(cur, sel_job(j, pj, lambda x: x.present))


def run(R):
    R.assume(*sc_.ASSUMPTIONS)
    R.assume('fairness of the driver loops, workers eventually reporting, instance preemption and real concurrency are outside '
             'the claim (reduced claim, see EXPLANATION)', 'the canceller\'s ready loop is driven for jobs its candidate query '
             'selects at the current or an earlier state (group running, job Ready, not always_run, group cancelled or job marked)')
    R.extra['trusted_base'] = ['z3', 'vt/sqlsym interpreter', 'vt/glue', 'environment stubs of vt/sqlsym/batchops.py',
                               'gates and candidate queries of pool.py / canceller.py are hand-transcribed']
    quick = R.tier == 'quick'
    sizes = model.Sizes(J=3, G=2, U=2, I=1, A=2, T=2, IC=1) if quick else model.Sizes(J=3, G=3, U=2, I=2, A=2, T=2, IC=1)
    run_bmc_property(R, 'C39', sizes, n1=sizes.J - 1, g1=sizes.G - 1, alphabet=ALPH, depth=2, asserts=asserts,
                     classify=lambda bad, vals, sc, known: 'lifecycle-protocol-stuck-or-double-run', extra_seqs=DEEP,
                     workers=int(os.environ.get('VERIF_WORKERS', '12')))
    sc_.stale_pass(R, 'C39', asserts, lambda bad, vals, sc, known: 'lifecycle-protocol-stuck-or-double-run')


def replay(path):
    return sc_.replay_file(path, asserts)
