"""C19 — client spec bunching preserves order and limits (E2: CrossHair on the real method)."""
import importlib
import json

from vt import chrun, loader
from vt.common import HarnessError

LEVEL = 'other'
EXPLANATION = (
    'CrossHair (symbolic execution with z3) runs the real Batch._create_bunches on N specs whose byte sizes, the '
    'group/job split, max_bunch_bytesize and max_bunch_size are symbolic integers; only "Confirmed over all paths" '
    'counts. Bounded: N specs (quick 2..4, thorough 2..7), sizes < max_bunch_bytesize <= 64, max_bunch_size <= N+1; '
    'longer lists / larger limits are outside the claim.'
)
SRC = 'hail/python/hailtop/batch_client/aioclient.py'


def run(R):
    ns = [2, 3, 4] if R.tier == 'quick' else [2, 3, 4, 5, 6, 7]
    pct = 90 if R.tier == 'quick' else 900
    R.bounds = {'specs': ns, 'max_bunch_bytesize': '2..64', 'max_bunch_size': '1..N+1', 'spec_bytes': '1..maxb-1'}
    R.assume('orjson.dumps(spec) is replaced by an object whose len() is a symbolic integer (the method uses only len)',
             "the method's own precondition n_bytes < max_bunch_bytesize is assumed (it asserts it)",
             'CrossHair 0.0.110 path exploration is exhaustive when it reports "Confirmed over all paths"')
    R.extra['trusted_base'] = ['CrossHair/z3', 'harness/C19_bunch.py oracle']
    import ast
    text = loader.read(SRC)
    for n in ast.walk(ast.parse(text)):
        if isinstance(n, ast.FunctionDef) and n.name == '_create_bunches':
            R.encode(f'{SRC}:{n.lineno} Batch._create_bunches', ast.get_source_segment(text, n))
    from harness import C19_template
    gm = chrun.gen_module('C19_conditions', C19_template.source(ns))
    targets = [f'{gm}.check{n}' for n in ns] + [f'{gm}.reach{n}' for n in ns]
    res = chrun.run(targets, per_condition_timeout=pct)
    mod = None
    for n in ns:
        rv, rmsg, rdt = res[f'{gm}.reach{n}']
        reach = rv == 'refuted'
        v, msg, dt = res[f'{gm}.check{n}']
        name = f'_create_bunches N={n}: concat=input, groups first, limits'
        if v == 'confirmed':
            R.ob(name, 'discharged' if reach else 'not_discharged', dt, {'twin': rmsg}, nontrivial=reach)
        elif v == 'refuted':
            args = chrun.parse_counterexample(msg, [f'n{i}' for i in range(n)] + ['g', 'maxb', 'maxs'])
            if args is None:
                raise HarnessError(f'cannot parse CrossHair counterexample: {msg}')
            if mod is None:
                mod = importlib.import_module('harness.C19_bunch')
            lst = [args[f'n{i}'] for i in range(n)]
            try:
                ok = mod.property_holds(lst, args['g'], args['maxb'], args['maxs'])
            except Exception as e:
                ok = False
                msg += f' [{type(e).__name__}: {e}]'
            if ok:
                raise HarnessError(f'CrossHair counterexample does not reproduce concretely: {msg}')
            st = R.finding('bunching-violates-order-or-limits', f'_create_bunches sizes={lst} g={args["g"]} '
                           f'max_bytes={args["maxb"]} max_size={args["maxs"]}',
                           {'sizes': lst, 'g': args['g'], 'maxb': args['maxb'], 'maxs': args['maxs']})
            R.ob(name, st, dt, {'cex': args}, nontrivial=True)
        else:
            R.ob(name, 'not_discharged', dt, {'crosshair': msg[-300:]})
        R.sample({'N': n, 'verdict': v, 'secs': round(dt, 1), 'twin': rv})
    # job-group specs carrying the real parent fields (in_update_parent_id / absolute_parent_id), parents not monotone
    pns = [3] if R.tier == 'quick' else [3, 4]
    R.bounds['specs_with_parent_fields'] = pns
    gp = chrun.gen_module('C19_conditions_parents', C19_template.source_parents(pns))
    resp = chrun.run([f'{gp}.checkp{n}' for n in pns] + [f'{gp}.reachp{n}' for n in pns], per_condition_timeout=pct)
    for n in pns:
        rv, rmsg, rdt = resp[f'{gp}.reachp{n}']
        reach = rv == 'refuted'
        v, msg, dt = resp[f'{gp}.checkp{n}']
        name = f'_create_bunches N={n}, job-group specs with parent fields (in-update parent ids 0..i, any order): concat=input'
        if v == 'confirmed':
            R.ob(name, 'discharged' if reach else 'not_discharged', dt, {'twin': rmsg}, nontrivial=reach)
        elif v == 'refuted':
            names = [f'n{i}' for i in range(n)] + [f'p{i}' for i in range(n)] + ['g', 'maxb', 'maxs']
            args = chrun.parse_counterexample(msg, names)
            if args is None:
                raise HarnessError(f'cannot parse CrossHair counterexample: {msg}')
            if mod is None:
                mod = importlib.import_module('harness.C19_bunch')
            lst, ps = [args[f'n{i}'] for i in range(n)], [args[f'p{i}'] for i in range(n)]
            try:
                ok = mod.property_holds_parents(lst, ps, args['g'], args['maxb'], args['maxs'])
            except Exception as e:
                ok = False
                msg += f' [{type(e).__name__}: {e}]'
            if ok:
                raise HarnessError(f'CrossHair counterexample does not reproduce concretely: {msg}')
            st = R.finding('bunching-violates-order-or-limits', f'_create_bunches sizes={lst} parents={ps} g={args["g"]} '
                           f'max_bytes={args["maxb"]} max_size={args["maxs"]}',
                           {'sizes': lst, 'parents': ps, 'g': args['g'], 'maxb': args['maxb'], 'maxs': args['maxs']})
            R.ob(name, st, dt, {'cex': args}, nontrivial=True)
        else:
            R.ob(name, 'not_discharged', dt, {'crosshair': msg[-300:]})
        R.sample({'N': n, 'family': 'parent fields', 'verdict': v, 'secs': round(dt, 1), 'twin': rv})
    # submission level: what the real Batch.submit actually SENDS (fast path / multi-bunch path, bunches cut by the count
    # or by the byte limit) reaches the real handlers completely and in order - explored by the z3-driven shape explorer
    from props import C09 as c09
    R.assume('submission level: the real aioclient.Batch.submit is run against the real front-end handlers on the sqlsym '
             'emulator (harness/C09_client.py); two submits, 0-2 job groups and 1 job each, bunch count limit 1 or 1000, byte '
             'limit default or just above the largest spec (every spec alone in its bunch)')
    c09.client_end_to_end(R, bunching=True, pid='C19', cls='submitted-bunches-differ-from-created-specs')


def replay(path):
    d = json.load(open(path))['replay']
    if d.get('kind') == 'client':
        from props import C09 as c09
        return c09.replay(path)
    mod = importlib.import_module('harness.C19_bunch')
    try:
        if 'parents' in d:
            ok = mod.property_holds_parents(d['sizes'], d['parents'], d['g'], d['maxb'], d['maxs'])
        else:
            ok = mod.property_holds(d['sizes'], d['g'], d['maxb'], d['maxs'])
    except Exception as e:
        print('raised', type(e).__name__, e)
        ok = False
    print('property holds' if ok else 'property violated', d)
    return 0 if ok else 1
