"""C26 - service cache is bounded, fresh, single-flight and fails only its own caller (symbolic scheduler harness)."""
import ast
import importlib
import json

from vt import loader, sched

LEVEL = 'other'
EXPLANATION = (
    'CrossHair (symbolic execution, z3) runs the real gear.time_limited_max_size_cache.TimeLimitedMaxSizeCache.lookup for '
    'up to 3 (quick: 2) concurrent lookup tasks on the real asyncio scheduler under a director that controls the load coroutine '
    '(completes it with a value or LoadError), the monotonic clock, and task cancellation. num_slots, lifetime, the action '
    'of each step (lookup key / complete or fail the oldest or newest pending load / advance clock / cancel task i), keys, '
    'clock increments and per-step drain bits are symbolic. Asserted: never more than num_slots entries; returned values '
    'younger than lifetime and of the right key; at most one load per key in flight; a lookup raises only LoadError of a '
    'load of its key or CancelledError if itself was cancelled; every lookup finishes once loads complete. Two sub-families '
    '(cancels hitting only load leaders / only followers) are run separately so each mechanism is its own obligation; counterexamples are re-run on the stock '
    'asyncio loop against the real class. Only "Confirmed over all paths" discharges a shard. Bounded: 2 keys, 1..2 slots; '
    'quick 2 tasks k=4 steps; thorough 3 tasks k=4 and 2 tasks k=5. A sequential family (no overlap between lookups: each load is '
    'completed or failed at once; keys, clock increments, failures symbolic) goes deeper: 5 steps quick, 6 thorough.'
)
SRC = 'gear/gear/time_limited_max_size_cache.py'
HM = 'harness.C26_cache'
MODES = {3: 'bounded / fresh / right key / errors over sequential histories (each lookup finished before the next step)',
         4: 'bounded / fresh / single-flight / fails-only-own-caller / live over schedules in which no cancel hits a load leader or follower',
         0: 'bounded / fresh / single-flight / fails-only-own-caller / live over all schedules',
         1: 'cancelling the leader of a shared load does not fail the other callers (cancels hit load leaders only)',
         2: 'cancelling a follower of a shared load does not fail the other callers (cancels hit followers only)'}


def params(k, NT):
    H = importlib.import_module(HM)
    n = range(1, k)
    return ([('slots', 'int', 1, 2), ('lifetime', 'int', 1, H.LMAX)] + [(f'a{i}', 'int', 0, 5 + min(i, NT)) for i in n]
            + [(f'key{i}', 'int', 0, H.NK - 1) for i in n] + [(f'dt{i}', 'int', 0, H.DTMAX) for i in n]
            + [(f'd{i}', 'bool') for i in range(k - 1)] + [('mode', 'int', 0, 4)])


def describe(a, meta):
    if meta.get('seq'):
        return describe_seq(a, meta)
    k = meta['k']
    names = {1: 'complete-oldest', 2: 'complete-newest', 3: 'fail-oldest', 4: 'fail-newest'}
    steps = ['lookup(key0)']
    for i in range(1, k):
        x = a[f'a{i}']
        steps.append(f'lookup(key{a[f"key{i}"]})' if x == 0 else names[x] if x <= 4 else f'advance+{a[f"dt{i}"]}' if x == 5
                     else f'cancel-task{x - 6}')
    dr = [a[f'd{i}'] for i in range(k - 1)] + [True]
    return (f'TimeLimitedMaxSizeCache(num_slots={a["slots"]}, lifetime={a["lifetime"]}) schedule: '
            + '; '.join(s + ('+drain' if d else '') for s, d in zip(steps, dr)))


def params_seq(k):
    H = importlib.import_module(HM)
    n = range(1, k)
    return ([('slots', 'int', 1, 2), ('lifetime', 'int', 1, H.LMAX)] + [(f'a{i}', 'bool') for i in n]
            + [(f'key{i}', 'int', 0, H.NK - 1) for i in n] + [(f'dt{i}', 'int', 0, H.DTMAX) for i in n]
            + [(f'f{i}', 'bool') for i in range(k)])


def group_seq(k, shard_on):
    """sequential family: every lookup is finished (load completed or failed at once) before the next step"""
    return (3, sched.gen_shards(f'C26_seqk{k}', HM, params_seq(k), shard_on, entry=(f'checkseq_{k}', f'reachseq_{k}'),
                                prefix=f'seqk{k}_', meta={'nt': k, 'k': k, 'mode': 0, 'seq': True})[1])


def describe_seq(a, meta):
    k = meta['k']
    steps = []
    for i in range(k):
        if i > 0 and a[f'a{i}']:
            steps.append(f'advance+{a[f"dt{i}"]}')
        else:
            steps.append(f'lookup(key{a[f"key{i}"] if i else 0})' + ('!load-fails' if a[f'f{i}'] else ''))
    return (f'TimeLimitedMaxSizeCache(num_slots={a["slots"]}, lifetime={a["lifetime"]}) sequential history: ' + '; '.join(steps))


def group(NT, k, mode, shard_on):
    return (mode, sched.gen_shards(f'C26_n{NT}k{k}m{mode}', HM, params(k, NT), shard_on, entry=(f'check_{NT}_{k}', f'reach_{NT}_{k}'),
                                   const={'mode': mode}, prefix=f'n{NT}k{k}m{mode}_', meta={'nt': NT, 'k': k, 'mode': mode})[1])


def run(R):
    text = loader.read(SRC)
    for n in ast.walk(ast.parse(text)):
        if isinstance(n, ast.ClassDef) and n.name == 'TimeLimitedMaxSizeCache':
            for f in n.body:
                if isinstance(f, (ast.FunctionDef, ast.AsyncFunctionDef)) and f.name != 'shutdown':
                    R.encode(f'{SRC}:{f.lineno} {n.name}.{f.name}', ast.get_source_segment(text, f))
    B = [False, True]
    A1 = list(range(0, 7))
    A2 = list(range(0, 8))
    if R.tier == 'quick':
        pct = 240
        groups = [group(2, 4, 4, {'a1': A1, 'd0': B, 'd1': B}), group(2, 4, 0, {'a1': A1, 'd0': B, 'd1': B}), group(2, 3, 1, {'d0': B}), group(2, 3, 2, {'d0': B}),
                  group_seq(5, {'a1': B, 'a2': B, 'slots': [1, 2]})]
        R.bounds = {'keys': 2, 'num_slots': '1..2', 'lifetime': '1..4', 'tasks': 2, 'steps': 'k=4', 'clock increment': '0..6',
                    'sequential family': '5 steps (lookups finished one after another, loads succeed or fail, clock advances 0..6)'}
    else:
        pct = 1300
        groups = [group(3, 4, 4, {'a1': A1, 'd0': B, 'd1': B, 'slots': [1, 2]}), group(3, 4, 0, {'a1': A1, 'd0': B, 'd1': B, 'slots': [1, 2]}), group(2, 5, 0, {'a1': A1, 'a2': A2, 'd0': B, 'd1': B}),
                  group(3, 3, 1, {'d0': B}), group(3, 3, 2, {'d0': B}), group(2, 4, 1, {'d0': B, 'd1': B}), group(2, 4, 2, {'d0': B, 'd1': B}),
                  group_seq(6, {'a1': B, 'a2': B, 'a3': B, 'slots': [1, 2], 'key1': [0, 1]})]
        R.bounds = {'keys': 2, 'num_slots': '1..2', 'lifetime': '1..4', 'shapes': '(3 tasks, k=4), (2 tasks, k=5)', 'clock increment': '0..6',
                    'sequential family': '6 steps'}
    R.assume('prometheus_client metrics are inert; prometheus_async.aio.time(metric, future) (package absent from the sandbox) is '
             'modelled as a coroutine that awaits the future and observes in a finally block',
             'time.monotonic_ns is the director clock (integers); it advances only at quiescent points (callback latency = 0 '
             'ticks), otherwise "older than lifetime" would count scheduling latency between load completion and _put',
             'a value\'s age is measured from the instant its load coroutine returned',
             'load(k) suspends once and ends when the director completes it (value or LoadError); it does not swallow CancelledError',
             'step 0 looks up key 0 (keys are interchangeable); shutdown() is not exercised',
             'mode 0 is the whole claim; the sub-families 1 and 2 use Task._fut_waiter to tell whether a task has started (never '
             'used by the oracle)',
             'event loop = asyncio.BaseEventLoop scheduler with a fixed clock and a null I/O selector (vt/sched.py DetLoop); '
             'counterexamples are replayed on the stock loop',
             'CrossHair 0.0.110 path exploration is exhaustive when it reports "Confirmed over all paths"')
    R.extra['trusted_base'] = ['CrossHair/z3', 'CPython asyncio', 'sortedcontainers', 'vt/sched.py',
                               'harness/C26_cache.py stubs (clock, load, metrics, prom_async_time model) and oracle']
    H = importlib.import_module(HM)
    shards = [s for _m, g in groups for s in g]
    sched.run_shards(shards, pct, workers=8)
    seen = {}
    for mode, g in groups:
        sched.discharge(R, g, MODES[mode], H.replay, describe, seen)


def replay(path):
    d = json.load(open(path))['replay']
    H = importlib.import_module(HM)
    ok, cls, why = H.replay(d['args'], d['meta'])
    print('property holds' if ok else f'property violated ({cls})', describe(d['args'], d['meta']), why)
    return 0 if ok else 1
