"""C20 — bounded gather respects its bound and its error contract (symbolic scheduler harness, CrossHair)."""
import ast
import concurrent.futures as cf
import json
import math
import threading

from vt import chrun, loader
from vt.common import HarnessError

LEVEL = 'other'
EXPLANATION = (
    'CrossHair (symbolic execution, z3) runs the real bounded_gather2_return_exceptions, '
    'bounded_gather2_raise_exceptions (cancel_on_error False/True), WithoutSemaphore, OnlineBoundedGather2 and '
    'bounded_gather on the real asyncio scheduling core (BaseEventLoop without the selector layer, constant clock) with '
    'N workers that await director-owned futures. Symbolic integers: the order in which the futures are resolved (index '
    'into N!); per resolution its outcome (value / exception / the future is cancelled so that the worker ends with a '
    'CancelledError of its own); per resolution how far the loop is drained before the next one (none / until '
    'quiescent / one tick in thorough); the point at which the director cancels the CALLER task (before any '
    'resolution, after the last one, or never) and the drain depth right after that; the number of extra loop turns '
    '(0..2) every worker needs to unwind once cancelled; the result values. Concrete per condition: mode, parallelism '
    'P in {1,2}, whether the caller holds a permit and calls bounded_gather2_* / OnlineBoundedGather2 (the nested use '
    'they are written for) or is a top-level caller going through bounded_gather(parallelism=P). Two families per '
    'configuration: S (no outer cancellation, three-valued outcomes) and C (outer cancellation at a symbolic point). '
    'Bounds: N=3 (thorough also N=4 for permit-holding P=2 without outer cancellation); see bounds. Oracle, from '
    'instrumentation inside the workers: at most P workers inside their body at once, during the call and among '
    'workers that go on after it (and the weaker P+1); results in submission order, return_exceptions puts every '
    'exception object (a worker\'s own CancelledError included) in place, otherwise the first exception that left a '
    'worker is the one propagated (own CancelledError: the call ends cancelled; OnlineBoundedGather2 counts it as '
    'completion); no task created by the call pending at return and no uncancelled worker body active at or after '
    'return where clean-up is promised - without outer cancellation: normal return, return_exceptions, '
    'cancel_on_error=True, OnlineBoundedGather2 exit; when the caller is cancelled: cancel_on_error=True and '
    'OnlineBoundedGather2 only (return_exceptions / plain raise leave the children to asyncio.gather\'s own '
    'cancellation and are not held to it); the call returns once all futures are resolved; the semaphore holds '
    'afterwards what it held before. A refuted shard is replayed concretely, classified by aspect and scenario (no '
    'outer cancel / caller cancelled / caller cancelled after a worker error), reported, and re-run with exactly '
    'those aspect-scenario pairs excused for that configuration until CrossHair reports "Confirmed over all paths".'
)
SRC = 'hail/python/hailtop/utils/utils.py'
FUNCS = ('bounded_gather2_return_exceptions', 'bounded_gather2_raise_exceptions', 'bounded_gather2', 'bounded_gather')
CLASSES = ('WithoutSemaphore', 'OnlineBoundedGather2')


def finding_class(H, bit, mode, holder):
    """stable names; KNOWN_FINDINGS.jsonl is keyed by them.  `bit` is a mask bit (aspect x scenario tag)."""
    abit, t = H.tag_of(bit)
    suffix = f'; {H.TAGS[t]}' if t else ''
    if t and abit in (H.A_PERMITS, H.A_PERMITS1, H.A_BOUND_AFTER, H.A_BOUND1):
        suffix = f'; {H.TAGS[1]}'      # permit accounting: one class for both caller-cancelled scenarios
    if abit == H.A_BOUND:
        return ('parallelism-bound-exceeded-during-call[permit-holding caller' if holder
                else 'parallelism-bound-exceeded[top-level caller') + suffix + ']'
    if abit == H.A_BOUND_AFTER:
        # workers that keep running after a failed raise-mode gather: the caller (bounded_gather itself in the
        # top-level configurations) holds a permit, releases it on the way out, and WithoutSemaphore left one extra
        return 'parallelism-bound-exceeded[permit-holding caller' + suffix + ']'
    return f'{H.ASPECTS[abit]}[{mode}{suffix}]'


def configs(tier):
    """condition tuples without the perm range: (mode, holder, P, n, fam, omax, dmax, umax) — see C20_template"""
    out = []
    if tier == 'quick':
        for mode in ('ret', 'raise', 'cancel'):
            out.append((mode, True, 1, 3, 'S', 1, 1, 1))
            out.append((mode, True, 2, 3, 'S', 2, 1, 1))
        for mode in ('ret', 'raise', 'cancel'):
            out.append((mode, False, 1, 3, 'S', 1, 1, 1))
        for mode in ('raise', 'cancel', 'online'):
            out.append((mode, True, 2, 3, 'C', 1, -1, 1))
        # OnlineBoundedGather2 driven by a symbolic program of 4 steps after the first call
        out.append(('online', True, 2, 3, 'O4', 1, -1, 1))
        # a small program shape with Task.cancel() on a returned task (cancel before the task's first step needs the
        # one-tick drain): call(w0) + 2 steps, P=1
        out.append(('online', True, 1, 3, 'O2c', 1, -2, 0))
        return out
    for mode in ('ret', 'raise', 'cancel', 'online'):
        for P in (1, 2):
            if mode != 'online':
                # return_exceptions at P=1 is fully serialised: two-valued outcomes keep thorough within budget
                out.append((mode, True, P, 3, 'S', 1 if (mode == 'ret' and P == 1) else 2, 2, 2))
            if not (mode == 'ret' and P == 1):      # return_exceptions promises nothing on caller cancellation
                out.append((mode, True, P, 3, 'C', 2 if P == 2 else 1, -1, 2))
    for mode in ('ret', 'raise', 'cancel'):
        for P in (1, 2):
            out.append((mode, False, P, 3, 'S', 2, 1, 2))
            out.append((mode, False, P, 3, 'C', 1, -1, 2))
    out.append(('cancel', True, 2, 4, 'S', 1, 1, 1))
    for P in (1, 2):
        out.append(('online', True, P, 3, 'O4c', 2, -2, 1))     # with Task.cancel() steps and own CancelledError
    out.append(('online', True, 2, 3, 'O5', 1, -1, 1))
    # external contention: another client of the same semaphore + pool.call issued from outside the body (values only)
    out.append(('online', True, 1, 3, 'O5x', 0, -1, 0))
    return out


def first_steps(n, fam, omax):
    """valid codes for the first symbolic step of an online program (one shard each)"""
    if 'x' in fam:
        return [0, 2, 4, 4 + 4 * n + 1, 4 + 4 * n + 3, 4 + 4 * n]
    out = [0, 1, 2, 3] + [4 + o for o in range(omax + 1)]
    if 'c' in fam:
        out.append(4 + 3 * n)
    out.append(4 + 4 * n)
    return out


def run(R):
    from harness import C20_gather as H
    from harness import C20_template as T
    quick = R.tier == 'quick'
    pct = 400 if quick else 1300
    max_rounds = 10
    cfgs = configs(R.tier)
    R.bounds = {'workers': '3' if quick else '3 (all configurations), 4 (permit-holding caller, P=2, cancel_on_error, '
                                              'no outer cancellation, two-valued outcomes)',
                'parallelism_P': '1..2',
                'online_program': ('call(w0) then 4 symbolic steps from {call next, wait(first unfinished), leave, raise in '
                                   'the block, resolve w_i with value/exception, end}; one symbolic drain mode (none / '
                                   'quiescent) for the schedule; P=2; plus call(w0) then 2 steps incl. Task.cancel() on a returned '
                                   'task, drain mode none / quiescent / one tick, P=1' if quick else
                                   'call(w0) then 4 symbolic steps incl. resolve with own CancelledError and Task.cancel() on '
                                   'a returned task, drain mode none / quiescent / one tick, P=1..2, unwind 0..1; and 5 symbolic '
                                   'steps (value / exception) without Task.cancel(), drain mode none / quiescent, P=2; and P=1 with 5 steps from {call, '
                                   'leave, resolve with value, an external client of the same semaphore acquires / releases, '
                                   'pool.call issued from outside the body while the exit has not returned}') +
                                  '; afterwards the body leaves (if it has not) and every remaining future gets its value', 'resolutions': 'each worker future resolved exactly once, any order',
                'outcomes': 'value / exception / worker ends with its own CancelledError (family S; family C: value / '
                            'exception' + ('' if quick else ', three-valued for permit-holding P=2') + ')',
                'drain_choices': 'family S: none / until quiescent' + ('' if quick else ' / exactly one tick') +
                                 '; family C: until quiescent between resolutions, none / quiescent / one tick after '
                                 'the outer cancel',
                'outer_cancel_point': 'before resolution 0..N-1, after the last one, or never (family S)',
                'worker_unwind_turns': '0..1' if quick else '0..2',
                'modes': 'return_exceptions, raise, raise+cancel_on_error, OnlineBoundedGather2 (fixed script call x N, wait first, '
                         'exit in the caller-cancel family; symbolic program otherwise)',
                'caller': 'holds one permit and calls bounded_gather2_* / OnlineBoundedGather2; or top-level via '
                          'bounded_gather(parallelism=P)',
                'configurations': [list(c) for c in cfgs]}
    R.assume(
        'the event loop is asyncio.BaseEventLoop (real call_soon/_run_once/Task/Future machinery) with a null selector, '
        'a constant clock and a task factory that keeps tasks alive; the code under test uses neither timers nor I/O',
        'workers are harness coroutines that count themselves in and out, await a director-owned future, need a symbolic '
        'number of extra loop turns inside their CancelledError handler, and record cancellation / the order in which '
        'exceptions leave them; "first exception raised" is taken from that record',
        'bounded_gather2_* and OnlineBoundedGather2 are only called by a coroutine that holds one permit of the semaphore '
        '(their WithoutSemaphore releases one); a direct call from a coroutine that holds none (e.g. '
        'hailtop/fs/router_fs.py _async_ls) admits P+1 workers and is outside the claim',
        'OnlineBoundedGather2 in the caller-cancel family: fixed script call() for every worker, wait() for the first '
        'task only, then leave the context; without outer cancellation: symbolic programs in which the body holds one '
        'permit, receives its steps through a gate future (so it can be blocked in wait/exit while the director goes '
        'on), worker 0 is always submitted first, and after the last step the body leaves normally and the remaining '
        'futures are resolved with their values one by one',
        'clean-up promises used by the oracle when the caller is cancelled: cancel_on_error=True (its finally block runs '
        'for every exception) and OnlineBoundedGather2 (__aexit__ shuts the pool down for any exception) must leave no '
        'task pending and no uncancelled work; return_exceptions and plain raise mode promise nothing there (children are '
        'cancelled by asyncio.gather itself, not awaited) and are only checked for bound, permits and termination',
        'at most one outer cancellation per run; a second cancel while the clean-up itself is waiting, '
        'PoolShutdownError on late OnlineBoundedGather2.call, and more than 4 workers are outside the explored space',
        'a shard refuted by CrossHair is re-run with the violated (aspect, scenario) pairs excused for that '
        'configuration, so a second, different defect within an already-violated pair of the same configuration would '
        'be masked',
        'CrossHair 0.0.110 path exploration is exhaustive when it reports "Confirmed over all paths"',
    )
    R.extra['trusted_base'] = ['CrossHair/z3', 'harness/C20_gather.py oracle and instrumentation',
                               'asyncio.BaseEventLoop/Task/Future/Semaphore (real, CPython 3.12)']
    text = loader.read(SRC)
    for n in ast.parse(text).body:
        if isinstance(n, (ast.FunctionDef, ast.AsyncFunctionDef)) and n.name in FUNCS:
            R.encode(f'{SRC}:{n.lineno} {n.name}', ast.get_source_segment(text, n))
        if isinstance(n, ast.ClassDef) and n.name in CLASSES:
            R.encode(f'{SRC}:{n.lineno} class {n.name}', ast.get_source_segment(text, n))

    # shards: full condition tuples (mode, holder, P, n, lo, hi, fam, omax, dmax, umax)
    shards = []
    for mode, holder, P, n, fam, omax, dmax, umax in cfgs:
        if fam.startswith('O'):
            kk = int(fam[1:].rstrip('cx'))
            end = 4 + 4 * n
            for a0 in first_steps(n, fam, omax):
                if a0 == 0 and kk >= 3:
                    # the "call(next)" branch is the biggest: one shard per valid second step (hi = 1000 + its code)
                    for a1 in range(end + (4 if 'x' in fam else 1)):
                        if H.program_ok(n, [a0, a1] + [end] * (kk - 2), omax, 'c' in fam, 'x' in fam):
                            shards.append((mode, holder, P, n, a0, 1000 + a1, fam, omax, dmax, umax))
                else:
                    shards.append((mode, holder, P, n, a0, a0 + 1, fam, omax, dmax, umax))
            continue
        nperm = math.factorial(n)
        step = (2 if quick else 1) if n == 3 else 1
        for lo in range(0, nperm, step):
            shards.append((mode, holder, P, n, lo, min(lo + step, nperm), fam, omax, dmax, umax))

    def key(s):   # findings are excused per (mode, holder, P, n), across both families
        return s[:4]

    excused = {key(s): 0 for s in shards}
    settled = {}          # shard -> (verdict, mask it was run with, message)
    spent = {s: 0.0 for s in shards}
    reported = set()
    twin_res = {}
    lock = threading.Lock()
    errors = []

    # one reachability twin per (configuration, family), over all resolve orders
    twin_of = {}
    for s in shards:
        mode, holder, P, n, lo, hi, fam, omax, dmax, umax = s
        twin_of[s] = ((mode, holder, P, n, -1, 0, fam, omax, dmax, umax) if fam.startswith('O')
                      else (mode, holder, P, n, 0, math.factorial(n), fam, omax, dmax, umax))

    def run_twin(t):
        gm = chrun.gen_module(f'C20_{R.tier}_{T.twin_name(t)}', T.source([], [t]))
        r = chrun.run([f'{gm}.{T.twin_name(t)}'], per_condition_timeout=pct, workers=1)
        with lock:
            twin_res[t] = r[f'{gm}.{T.twin_name(t)}'][0]

    def run_shard(s):
        """refute -> replay -> classify -> report -> excuse -> re-run, until confirmed (no barrier between shards)"""
        mode, holder, P, n, lo, hi, fam, omax, dmax, umax = s
        for rnd in range(max_rounds):
            with lock:
                m = excused[key(s)]
            gm = chrun.gen_module(f'C20_{R.tier}_{T.cond_name(s, m)}', T.source([(s, m)], []))
            tgt = f'{gm}.{T.cond_name(s, m)}'
            v, msg, dt = chrun.run([tgt], per_condition_timeout=pct, workers=1)[tgt]
            with lock:
                spent[s] += dt
                if v != 'refuted':
                    settled[s] = (v, m, msg)
                    return
                args = chrun.parse_counterexample(msg, T.argnames(s))
                if args is None:
                    raise HarnessError(f'cannot parse CrossHair counterexample: {msg}')
                if fam.startswith('O'):
                    k = int(fam[1:].rstrip('cx'))
                    rep = {'family': 'O', 'mode': mode, 'holder': holder, 'P': P, 'n': n,
                           'steps': ([lo, hi - 1000] + [args[f'a{j}'] for j in range(2, k)]) if hi >= 1000
                           else [lo] + [args[f'a{j}'] for j in range(1, k)],
                           'drains': [args['dm']] * k if dmax < 0 else [args[f'd{j}'] for j in range(k)],
                           'vals': [args[f'v{i}'] for i in range(n)], 'unwind': args['uw']}
                else:
                    rep = {'mode': mode, 'holder': holder, 'P': P, 'n': n, 'perm': args['perm'],
                           'outs': [args[f'o{i}'] for i in range(n)],
                           'drains': [args[f'd{i}'] for i in range(n - 1)] if dmax >= 0 else [1] * (n - 1),
                           'vals': [args[f'v{i}'] for i in range(n)],
                           'cpoint': args['cp'] if fam == 'C' else H.NEVER, 'cdrain': args['cd'] if fam == 'C' else 0,
                           'unwind': args['uw']}
                mask, info = _run(H, rep)
                new = mask & ~m
                if not new:
                    raise HarnessError(f'CrossHair counterexample does not reproduce concretely: {s} {msg}')
                for bit in H.all_bits():
                    if new & bit and (finding_class(H, bit, mode, holder), key(s)) not in reported:
                        cls = finding_class(H, bit, mode, holder)
                        if fam.startswith('O'):
                            what = (f'OnlineBoundedGather2 P={P} N={n} program {H.describe_program(n, rep["steps"])} '
                                    f'drain after each step {rep["drains"]} (0 none, 1 quiescent, 2 one tick) worker '
                                    f'unwind turns {rep["unwind"]}: {info}')
                        else:
                            cp = rep['cpoint']
                            what = (f'{mode} caller_holds_permit={holder} P={P} N={n} resolve order '
                                    f'{list(H.decode_perm(n, rep["perm"]))} outcomes {rep["outs"]} (0 value, 1 exception, '
                                    f'2 own CancelledError) drains {rep["drains"]} '
                                    + (f'caller cancelled before resolution #{cp} then drain {rep["cdrain"]} '
                                       if cp != H.NEVER else '') + f'worker unwind turns {rep["unwind"]}: {info}')
                        st = R.finding(cls, what, dict(rep, aspect=bit))
                        reported.add((cls, key(s)))
                        R.ob(f'{cls}: caller_holds_permit={holder}, P={P}, N={n}', st, dt,
                             {'cex': rep, 'info': info}, nontrivial=True)
                excused[key(s)] |= new

    def guarded(f, x):
        try:
            f(x)
        except Exception as e:   # re-raised in the main thread
            errors.append(e)

    jobs = [(run_shard, s) for s in shards] + [(run_twin, t) for t in sorted(set(twin_of.values()))]
    with cf.ThreadPoolExecutor(max_workers=8) as ex:
        for f, x in jobs:
            ex.submit(guarded, f, x)
    if errors:
        raise errors[0]
    for s in shards:
        twin_res[s] = twin_res.get(twin_of[s])
    for s in shards:
        mode, holder, P, n, lo, hi, fam, omax, dmax, umax = s
        famtxt = 'no outer cancel' if fam == 'S' else 'caller cancelled at a symbolic point'
        if fam.startswith('O'):
            kk = int(fam[1:].rstrip('cx'))
            name0 = (f'online program, P={P}, N={n}, call(w0) then {kk} symbolic steps starting with '
                     f'"{", ".join(H.describe_program(n, [lo] + ([hi - 1000] if hi >= 1000 else []))[1:]) if lo != 4 + 4 * n else "end"}"'
                     f'{" (incl. Task.cancel steps)" if "c" in fam else ""}{" (external semaphore client + outside pool.call)" if "x" in fam else ""}, outcomes 0..{omax}: all aspects')
        name = name0 + (f' except {H.names(settled[s][1])}' if s in settled and settled[s][1] else '') if fam.startswith('O') else (f'{mode}, caller_holds_permit={holder}, P={P}, N={n}, {famtxt}, outcomes 0..{omax}, resolve orders '
                f'{lo}..{hi - 1}: all aspects'
                + (f' except {H.names(settled[s][1])}' if s in settled and settled[s][1] else ''))
        reach = twin_res.get(s) == 'refuted'
        if s in settled and settled[s][0] == 'confirmed':
            R.ob(name, 'discharged' if reach else 'not_discharged', spent[s], {'twin': twin_res.get(s),
                 'excused_mask': settled[s][1]}, nontrivial=reach)
        else:
            R.ob(name, 'not_discharged', spent[s], {'crosshair': (settled.get(s) or ('', 0, 'rounds exhausted'))[2][-200:]})
        R.sample({'shard': list(s), 'verdict': settled.get(s, ('unsettled',))[0],
                  'excused': H.names(settled[s][1]) if s in settled else None, 'secs': round(spent[s], 1)})
    R.extra['excused_per_configuration'] = {str(c): H.names(m) for c, m in excused.items() if m}


def _run(H, d):
    if d.get('family') == 'O':
        return H.run_program(d['P'], d['n'], d['steps'], d['drains'], d['vals'], d.get('unwind', 0))
    return H.run_schedule(d['mode'], d['holder'], d['P'], d['n'], d['perm'], d['outs'], d['drains'], d['vals'],
                          d.get('cpoint', H.NEVER), d.get('cdrain', 0), d.get('unwind', 0))


def replay(path):
    from harness import C20_gather as H
    d = json.load(open(path))['replay']
    mask, info = _run(H, d)
    bad = bool(mask & d['aspect'])
    print(('property violated: ' if bad else 'property holds: ') + str(H.names(d['aspect'])), d, info)
    return 1 if bad else 0
