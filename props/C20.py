"""C20 — bounded gather respects its bound and its error contract (symbolic scheduler harness, CrossHair)."""
import ast
import json
import math

from vt import chrun, loader
from vt.common import HarnessError

LEVEL = 'other'
EXPLANATION = (
    'CrossHair (symbolic execution, z3) runs the real bounded_gather2_return_exceptions, '
    'bounded_gather2_raise_exceptions (cancel_on_error False/True), WithoutSemaphore and OnlineBoundedGather2 on the '
    'real asyncio scheduling core (BaseEventLoop without the selector layer, constant clock) with N workers that await '
    'director-owned futures. Symbolic integers: the order in which the futures are resolved (index into N!), per '
    'resolution value-or-exception, per resolution how far the loop is drained before the next one (none / until '
    'quiescent / one tick in thorough), and the workers\' result values. Concrete per condition: mode, parallelism P in '
    '{1,2}, whether the caller holds a permit of the semaphore and calls bounded_gather2_* / '
    'OnlineBoundedGather2 (the nested use they are written for) or is a top-level caller going through '
    'bounded_gather(parallelism=P). Bounds: quick N=3; thorough N=3 with one-tick drains and N=4 for the '
    'permit-holding P=2 configurations. Each future is resolved exactly once; outer cancellation of the gather call is '
    'not explored. Oracle, from instrumentation inside the workers: at most P workers inside their body at once, both '
    'while the call runs and among the workers that go on after a raise-mode call has raised (and the weaker P+1), results in submission order, return_exceptions puts every exception object in place, otherwise '
    'the first exception a worker raised is the one propagated, no task created by the call pending when it returns and '
    'no uncancelled worker body active at or after that moment (normal return, return_exceptions, cancel_on_error=True, '
    'OnlineBoundedGather2 exit), the call returns once all futures '
    'are resolved, and the semaphore holds afterwards what it held before. A refuted condition is replayed on plain '
    'asyncio semantics of the same harness, classified by violated aspect, and re-run with those aspects excused until '
    'CrossHair reports "Confirmed over all paths" for the rest.'
)
SRC = 'hail/python/hailtop/utils/utils.py'
FUNCS = ('bounded_gather2_return_exceptions', 'bounded_gather2_raise_exceptions', 'bounded_gather2', 'bounded_gather')  # all reached by the harness
CLASSES = ('WithoutSemaphore', 'OnlineBoundedGather2')


def finding_class(H, bit, mode, holder):
    """stable names; KNOWN_FINDINGS.jsonl is keyed by them"""
    if bit == H.A_BOUND:
        return ('parallelism-bound-exceeded-during-call[permit-holding caller]' if holder
                else 'parallelism-bound-exceeded[top-level caller]')
    if bit == H.A_BOUND_AFTER:
        # workers that keep running after a failed raise-mode gather: the caller (bounded_gather itself in the
        # top-level configurations) holds a permit, releases it on the way out, and WithoutSemaphore left one extra
        return 'parallelism-bound-exceeded[permit-holding caller]'
    return f'{H.ASPECTS[bit]}[{mode}]'


def configs(tier):
    """(mode, holder, P, n)"""
    out = []
    for mode in ('ret', 'raise', 'cancel', 'online'):
        for P in (1, 2):
            out.append((mode, True, P, 3))
    for mode in ('ret', 'raise', 'cancel'):
        out.append((mode, False, 1, 3))
    if tier == 'thorough':
        for mode in ('ret', 'raise', 'cancel'):
            out.append((mode, False, 2, 3))
        for mode in ('ret', 'raise', 'cancel', 'online'):
            out.append((mode, True, 2, 4))
    return out


def run(R):
    from harness import C20_gather as H
    from harness import C20_template as T
    quick = R.tier == 'quick'
    dmax = 1 if quick else 2
    pct = 400 if quick else 1300
    max_rounds = 8
    cfgs = configs(R.tier)
    R.bounds = {'workers': '3' if quick else '3 (all configurations), 4 (permit-holding caller, P=2; drains none/full)',
                'parallelism_P': '1..2', 'resolutions': 'each worker future resolved exactly once, any order',
                'drain_choices': 'none / until quiescent' + ('' if quick else ' / exactly one tick (N=3)'),
                'modes': 'return_exceptions, raise, raise+cancel_on_error, OnlineBoundedGather2(call x N, wait, exit)',
                'caller': 'holds one permit and calls bounded_gather2_* / OnlineBoundedGather2; or top-level via bounded_gather(parallelism=P)'}
    R.assume(
        'the event loop is asyncio.BaseEventLoop (real call_soon/_run_once/Task/Future machinery) with a null selector '
        'and a constant clock; the code under test uses neither timers nor I/O',
        'workers are harness coroutines that count themselves in and out, await a director-owned future and record '
        'cancellation / the order in which they raise; "first exception raised" is taken from that record',
        'bounded_gather2_* and OnlineBoundedGather2 are only called by a coroutine that holds one permit of the semaphore '
        '(their WithoutSemaphore releases one); a direct call from a coroutine that holds none (e.g. '
        'hailtop/fs/router_fs.py _async_ls) admits P+1 workers and is outside the claim',
        'OnlineBoundedGather2 script: call() for every worker, wait() for the first task only, then leave the context',
        'outer cancellation of the gather call, PoolShutdownError on late OnlineBoundedGather2.call, and more than 4 '
        'workers are outside the explored space',
        'a condition refuted by CrossHair is re-run with the violated aspects excused for that configuration, so a '
        'second, different defect within an already-violated aspect of the same configuration would be masked',
        'CrossHair 0.0.110 path exploration is exhaustive when it reports "Confirmed over all paths"',
    )
    R.extra['trusted_base'] = ['CrossHair/z3', 'harness/C20_gather.py oracle and instrumentation',
                               'asyncio.BaseEventLoop/Task/Future/Semaphore (real, CPython 3.12)']
    text = loader.read(SRC)
    for n in ast.parse(text).body:
        if isinstance(n, (ast.FunctionDef, ast.AsyncFunctionDef)) and n.name in FUNCS:
            R.encode(f'{SRC}:{n.lineno} {n.name}', ast.get_source_segment(text, n))
        if isinstance(n, ast.ClassDef) and n.name in CLASSES:
            R.encode(f'{SRC}:{n.lineno} class {n.name}', ast.get_source_segment(text, n))

    # shards: (cfg, lo, hi) perm ranges
    shards = []
    for cfg in cfgs:
        n = cfg[3]
        nperm = math.factorial(n)
        step = 3 if n == 3 else 1
        if not quick and n == 3:
            step = 2
        for lo in range(0, nperm, step):
            shards.append((cfg, lo, min(lo + step, nperm)))

    def dm(cfg):
        return 1 if cfg[3] == 4 else dmax

    excused = {cfg: 0 for cfg in cfgs}
    settled = {}          # shard -> (verdict, mask it was run with, secs)
    spent = {s: 0.0 for s in shards}
    reported = set()
    # twins first round only
    twin_res = {}
    for rnd in range(max_rounds):
        todo = [s for s in shards if s not in settled]
        if not todo:
            break
        run_mask = {s: excused[s[0]] for s in todo}
        by_dm = {}
        for s in todo:
            by_dm.setdefault(dm(s[0]), []).append(s)
        res = {}
        for d, ss in by_dm.items():
            conds = [s[0] + (s[1], s[2], run_mask[s]) for s in ss]
            twins = [s[0] + (s[1], s[2]) for s in ss] if rnd == 0 else []
            gm = chrun.gen_module(f'C20_conditions_{R.tier}_r{rnd}_d{d}', T.source(conds, twins, d))
            targets = [f'{gm}.{T.cond_name(*c)}' for c in conds] + [f'{gm}.{T.twin_name(*t)}' for t in twins]
            r = chrun.run(targets, per_condition_timeout=pct, workers=8)
            for s, c in zip(ss, conds):
                res[s] = r[f'{gm}.{T.cond_name(*c)}']
                if rnd == 0:
                    twin_res[s] = r[f'{gm}.{T.twin_name(*(s[0] + (s[1], s[2])))}'][0]
        for s in todo:
            cfg = s[0]
            mode, holder, P, n = cfg
            v, msg, dt = res[s]
            spent[s] += dt
            if v == 'refuted':
                args = chrun.parse_counterexample(msg, T.argnames(n))
                if args is None:
                    raise HarnessError(f'cannot parse CrossHair counterexample: {msg}')
                rep = {'mode': mode, 'holder': holder, 'P': P, 'n': n, 'perm': args['perm'],
                       'outs': [args[f'o{i}'] for i in range(n)], 'drains': [args[f'd{i}'] for i in range(n - 1)],
                       'vals': [args[f'v{i}'] for i in range(n)]}
                mask, info = H.run_schedule(mode, holder, P, n, rep['perm'], rep['outs'], rep['drains'], rep['vals'])
                new = mask & ~run_mask[s]
                if not new:
                    raise HarnessError(f'CrossHair counterexample does not reproduce concretely: {cfg} {msg}')
                for bit in H.ASPECTS:
                    if new & bit and (finding_class(H, bit, mode, holder), cfg) not in reported:
                        cls = finding_class(H, bit, mode, holder)
                        what = (f'{mode} caller_holds_permit={holder} P={P} N={n} resolve order '
                                f'{list(H.decode_perm(n, rep["perm"]))} outcomes {rep["outs"]} drains {rep["drains"]}: '
                                f'{info}')
                        st = R.finding(cls, what, dict(rep, aspect=bit))
                        reported.add((cls, cfg))
                        R.ob(f'{H.ASPECTS[bit]}: {mode}, caller_holds_permit={holder}, P={P}, N={n}', st, dt,
                             {'cex': rep, 'info': info}, nontrivial=True)
                excused[cfg] |= new
            else:
                settled[s] = (v, run_mask[s], msg)
    for s in shards:
        cfg = s[0]
        mode, holder, P, n = cfg
        name = (f'{mode}, caller_holds_permit={holder}, P={P}, N={n}, resolve orders {s[1]}..{s[2] - 1}: all aspects'
                + (f' except {H.names(settled[s][1])}' if s in settled and settled[s][1] else ''))
        reach = twin_res.get(s) == 'refuted'
        if s in settled and settled[s][0] == 'confirmed':
            R.ob(name, 'discharged' if reach else 'not_discharged', spent[s], {'twin': twin_res.get(s),
                 'excused_mask': settled[s][1]}, nontrivial=reach)
        else:
            R.ob(name, 'not_discharged', spent[s], {'crosshair': (settled.get(s) or ('', 0, 'rounds exhausted'))[2][-200:]})
        R.sample({'config': list(cfg), 'perms': [s[1], s[2]], 'verdict': settled.get(s, ('unsettled',))[0],
                  'excused': H.names(settled[s][1]) if s in settled else None, 'secs': round(spent[s], 1)})
    R.extra['excused_aspects_per_configuration'] = {str(c): H.names(m) for c, m in excused.items() if m}


def replay(path):
    from harness import C20_gather as H
    d = json.load(open(path))['replay']
    mask, info = H.run_schedule(d['mode'], d['holder'], d['P'], d['n'], d['perm'], d['outs'], d['drains'], d['vals'])
    bad = bool(mask & d['aspect'])
    print(('property violated: ' if bad else 'property holds: ') + H.ASPECTS[d['aspect']], d, info)
    return 1 if bad else 0
