"""C41 — uncommitted updates have no effect on a batch (E1 sqlsym BMC)."""
import os

import z3

from props import _sqlcommon as sc_
from props import C01
from vt.sqlsym import asserts as A
from vt.sqlsym import model, oracle
from vt.sqlsym.interp import GLOBAL_S as S
from vt.sqlsym.interp import b_and, b_not, b_or, i_eq, is_sym, truth
from vt.sqlsym.seqcheck import run_bmc_property

LEVEL = 'model_checking'
EXPLANATION = ('After every operation: a job of an uncommitted update is never selectable by the scheduler (the WHERE clauses of '
               'the scheduler queries: group running, job Ready, runnable), stays in its inserted state (Pending, or Ready only '
               'as inserted in update 1; n_pending_parents = number of parents; not cancelled; no attempt), is not counted in '
               'user_inst_coll_resources (recount over committed updates), and batch / job-group n_jobs, completion state and '
               'tallies are functions of the committed jobs only — so an update that is never committed leaves everything the '
               'API reports as if it had not been started. Histories: update 2 inserted and committed late or never while '
               'update-1 parents run, complete or are cancelled; and update 1 itself left uncommitted.' + sc_.BMC_TEXT)

DEEP = [
    ('u2_create', 'u2_jobs', 'schedule', 'complete'),
    ('u2_create', 'u2_jobs', 'schedule', 'complete', 'u2_commit'),
    ('u2_create', 'u2_jobs', 'cancel_group', 'schedule', 'complete'),
    ('u2_create', 'u2_jobs', 'schedule', 'complete', 'schedule'),
    ('schedule', 'u2_create', 'u2_jobs', 'unschedule', 'complete'),
]
ALPH = ['schedule', 'complete', 'unschedule', 'cancel_group', 'u2_create', 'u2_jobs', 'u2_commit']


KNOWN2 = 'uncommitted-initial-update-runnable-after-later-commit'


def initial_uncommitted_after_later_commit(db, f):
    """Finding class KNOWN2 as a predicate: a job of the still-uncommitted update 1 while a later update is committed
    (its parentless jobs were inserted Ready and become schedulable; their children follow once they complete)."""
    later = b_or(*[oracle.update_committed(db, k[1]) for k in db.t['batch_updates'].rows if k[1] != 1])
    return b_and(f.present, b_not(f.committed), i_eq(f.update, 1), later)


def asserts(sc):
    db = sc.db
    out = []
    js = oracle.jobs(db)
    any2 = b_or(*[initial_uncommitted_after_later_commit(db, f) for f in js])
    for f in js:
        unc = b_and(f.present, b_not(f.committed))
        known = b_or(A.uncommitted_child(db, f), initial_uncommitted_after_later_commit(db, f))
        sel = sc.scheduler_selects(f.j)
        out.append((f'job {f.j}: uncommitted => not selectable by the scheduler queries', A.imp(unc, b_not(sel)),
                    A.imp(b_and(unc, b_not(known)), b_not(sel))))
        nparents = oracle.sum_(oracle.cnt(p) for _, p in A.parents_of(db, f.j))
        inserted = b_and(
            b_or(f.in_state('Pending'), b_and(f.in_state('Ready'), i_eq(f.update, 1), oracle.eq(nparents, 0))),
            oracle.eq(f.npp, nparents), b_not(f.marked_cancelled), f.attempt_id.n)
        out.append((f'job {f.j}: uncommitted => still in its inserted state', A.imp(unc, inserted),
                    A.imp(b_and(unc, b_not(known)), inserted)))
    for a in C01.asserts(sc):
        if a[0].startswith('user_inst_coll_resources'):
            out.append((a[0], a[1], A.imp(b_not(any2), a[2])))
    for a in A.completion(db):
        out.append((a[0], a[1], A.imp(b_not(any2), a[1])))
    # tallies over committed jobs only
    t = db.t['job_groups_n_jobs_in_complete_states']
    for g in oracle.groups(db):
        r = t.rows[(1, g)]
        n = oracle.sum_(oracle.cnt(b_and(f.present, f.committed, f.in_subtree(db, g), f.terminal())) for f in js)
        e = A.imp(r.present, oracle.eq(r.vals['n_completed'].v, n))
        out.append((f'tally[g{g}].n_completed counts committed jobs only', e, A.imp(b_not(any2), e)))
    return out


def run(R):
    R.assume(*sc_.ASSUMPTIONS)
    R.extra['trusted_base'] = ['z3', 'vt/sqlsym interpreter', 'vt/glue', 'environment stubs of vt/sqlsym/batchops.py']
    quick = R.tier == 'quick'
    sizes = model.Sizes(J=3, G=2, U=2, I=1, A=2, T=2, IC=1) if quick else model.Sizes(J=4, G=2, U=2, I=1, A=2, T=2, IC=1)
    w = int(os.environ.get('VERIF_WORKERS', '12'))

    def classify(bad, vals, sc, known):
        if not known:
            return 'uncommitted-update-has-effect'
        js = oracle.jobs(sc.db)
        return KNOWN2 if any(initial_uncommitted_after_later_commit(sc.db, f) is True or
                             (f.present and not f.committed and f.update == 1) for f in js) else sc_.KNOWN
    # (1) update 1 committed, update 2 late / never
    run_bmc_property(R, 'C41', sizes, n1=sizes.J - 1 if quick else 2, g1=1, alphabet=ALPH, depth=2, asserts=asserts, classify=classify,
                     extra_seqs=DEEP, workers=w)
    # (1b) three updates: update 3 inserted while update 2 is committed, update 3 late or never
    sizes3 = model.Sizes(J=4, G=2, U=3, I=1, A=2, T=2, IC=1)
    run_bmc_property(R, 'C41', sizes3, n1=2, g1=1, alphabet=[], depth=0, asserts=asserts, classify=classify,
                     extra_seqs=[('u2_create', 'u3_create', 'u3_jobs', 'u2_jobs', 'u2_commit'),
                                 ('u2_create', 'u2_jobs', 'u3_create', 'u3_jobs', 'u2_commit', 'schedule'),
                                 ('u2_create', 'u3_create', 'u2_jobs', 'u3_jobs', 'u3_commit', 'u2_commit')], workers=w)
    # (1c) update 1 reserves job groups only (no jobs), so the jobs of update 2 start at id 1; update 2 late or never
    sizes0 = model.Sizes(J=2, G=2, U=3, I=1, A=2, T=2, IC=1)
    run_bmc_property(R, 'C41', sizes0, n1=0, g1=1, alphabet=[], depth=0, asserts=asserts, classify=classify,
                     extra_seqs=[('u2_create', 'u2_jobs', 'schedule'),
                                 ('u2_create', 'u2_jobs', 'u3_create', 'u3_jobs', 'u3_commit', 'schedule'),
                                 ('u2_create', 'u2_jobs', 'u3_create', 'u3_jobs', 'u3_commit', 'schedule', 'complete'),
                                 ('u2_create', 'u2_jobs', 'cancel_group', 'u2_commit')], workers=w)
    # (2) update 1 itself never committed: driver operations and a second client's update
    run_bmc_property(R, 'C41', sizes, n1=sizes.J - 1 if quick else 2, g1=1, alphabet=['cancel_group', 'u2_create', 'u2_jobs', 'u2_commit', 'schedule'],
                     depth=2, asserts=asserts, classify=classify, commit=False,
                     extra_seqs=[('u2_create', 'u2_jobs', 'u2_commit', 'schedule'), ('u2_create', 'u2_jobs', 'u2_commit', 'schedule', 'complete')],
                     workers=w)


def replay(path):
    return sc_.replay_file(path, asserts)
