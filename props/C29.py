"""C29 — post-login redirects stay on Hail hosts (E4 strlang: regular languages in z3)."""
import ast
import importlib
import json
import os
import time
import urllib.parse

import z3

from vt import loader, strlang
from vt import strlang_ext as sx
from vt.common import HarnessError

LEVEL = 'other'
EXPLANATION = (
    'Regular-language inclusion decided by z3 (sequence/regex theory), strings of ANY length over all of Unicode: the '
    'set of strings accepted by the real validate_next_page_url (translated from its AST: if/raise tests over the parameter, '
    '.netloc/.hostname/.scheme/.path/.port of urlsplit/urlparse, intermediate variables, and the regular transductions '
    'lower/upper/casefold, partition/rpartition/split/rsplit with constant index, strip, removeprefix/suffix, constant slices — '
    'each as an exact pre-image; urllib.parse.urlsplit '
    'modelled as a regular language incl. C0/space lstrip, TAB/CR/LF removal, scheme rule, // rule, /?# delimiters) '
    'is included in the set of strings for which a WHATWG-conformant browser, resolving against the auth service URL, '
    'lands on one of the hosts the real deploy_config.external_url yields for batch/auth/ci/monitoring. Two concrete '
    'deployments (default namespace with sub-domains; non-default namespace with internal.<domain> + path prefix). '
    'Both language models are validated each run on solver-generated members and non-members: the accept language '
    'against the real function (hence the real urlsplit), the browser language against an independent state-machine '
    'transcription of the WHATWG parser. No browser exists here: the WHATWG model is the trusted base.'
)
AUTH = 'auth/auth/auth.py'
DEPLOY = 'hail/python/hailtop/config/deploy_config.py'
FN = 'validate_next_page_url'
SERVICES = ['batch', 'auth', 'ci', 'monitoring']


def deployments():
    """Two real DeployConfig objects built by the real from_config."""
    from hailtop.config.deploy_config import DeployConfig
    out = []
    saved = {k: os.environ.get(k) for k in ('HAIL_DOMAIN', 'HAIL_DEFAULT_NAMESPACE', 'HAIL_LOCATION', 'HAIL_BASE_PATH')}
    try:
        for k in saved:
            os.environ.pop(k, None)
        out.append(('default-namespace', DeployConfig.from_config(
            {'location': 'external', 'default_namespace': 'default', 'domain': 'hail.is'})))
        out.append(('dev-namespace', DeployConfig.from_config(
            {'location': 'k8s', 'default_namespace': 'pr-1234', 'domain': 'hail.populationgenomics.org.au'})))
    finally:
        for k, v in saved.items():
            if v is not None:
                os.environ[k] = v
    return out


def real_accepts(dc, s):
    """Run the real validator with the deployment installed in auth.auth's namespace."""
    from aiohttp import web
    mod = importlib.import_module('auth.auth')
    old = mod.deploy_config
    mod.deploy_config = dc
    try:
        getattr(mod, FN)(s)
        return True
    except web.HTTPBadRequest:
        return False
    except ValueError:
        return False     # urlsplit refused the string: request fails, nothing is accepted
    finally:
        mod.deploy_config = old


def member(z, extra=None, timeout_ms=120000):
    return strlang.member(z, extra=extra, timeout_ms=timeout_ms)


def gen_points(langs, n):
    """Solver-chosen members: one query per (language, exact length); exact lengths are what z3's sequence
    solver answers in milliseconds here (open-ended length constraints took seconds)."""
    lengths = [2, 30, 16, 44, 23, 12, 7, 33, 19, 47, 26, 9, 11, 38, 14, 52, 21, 57, 29, 41, 1, 4, 17, 24][:n]
    # (no `s != previous` constraints: string disequalities made each query take seconds)
    pts = []
    s = z3.String('s')
    for z in langs:
        for ln in lengths:
            sol = z3.Solver()
            sol.set('timeout', 1000)
            sol.add(z3.InRe(s, z), z3.Length(s) == ln)
            if str(sol.check()) == 'sat':
                w = strlang.model_string(sol.model(), s)
                if w not in pts:
                    pts.append(w)
    return pts


def check_deployment(R, label, dc, fn_node, modglobals):
    from harness import C29_model as M
    n_pts = 10 if R.tier == 'quick' else 24
    env = dict(modglobals)
    env['deploy_config'] = dc
    vt_ = M.ValidatorTranslator(fn_node, env)
    acc_rx = vt_.accepted()
    hosts = None
    for k, v in vt_.concrete.items():
        if isinstance(v, list) and v and all(isinstance(x, str) for x in v) and k != 'valid_next_services':
            hosts = v
    # the hosts the property names, from the real external_url (independent of the validator's own list)
    own = sorted({urllib.parse.urlsplit(dc.external_url(s, '/')).netloc for s in SERVICES})
    base = urllib.parse.urlsplit(dc.external_url('auth', '/login'))
    bscheme, bhost = base.scheme, base.netloc
    for h in own + [bhost]:
        k = M.browser_target(f'{bscheme}://{h}/', bscheme, bhost)
        if k != ('host', bscheme, h):
            raise HarnessError(f'{label}: own host {h!r} is not a plain lower-case DNS name for the browser model: {k}')
    R.sample({'deployment': label, 'own_hosts': own, 'validator_domain_list': hosts, 'base': f'{bscheme}://{bhost}'})

    from vt.strlang_ext import ALL as A_, cat as c_, cset as s_, lit as l_, alt as a_, opt as o_, star as st_
    evil = 'evil.example'
    rx = {'acc': acc_rx, 'nonspecial': M.nonspecial_scheme_lang(), 'lands_evil': M.browser_lands_lang(evil, bscheme, bhost),
          'ascii_print': st_(s_([(0x21, 0x7e)])), 'lower_start': c_(s_([(97, 122)]), A_()),
          'canon': a_(*[c_(l_(f'https://{h}'), o_(c_(s_('/?#'), A_()))) for h in own])}
    rx['nshost_evil'] = M.nonspecial_host_lang(evil)
    for h in own:
        rx['lands:' + h] = M.browser_lands_lang(h, bscheme, bhost)
        rx['nshost:' + h] = M.nonspecial_host_lang(h)
    hard_rx = [A_(), c_(A_(), l_('\t'), A_()), c_(A_(), l_('\\'), A_()), c_(A_(), l_('@'), A_()), c_(A_(), l_(':'), A_()),
               c_(s_([(0, 0x20)]), A_()), c_(A_(), l_('//'), A_()), c_(A_(), l_(own[0]), A_())]
    charsets = []
    for x in list(rx.values()) + hard_rx:
        sx.to_z3(x, charsets)
    red = sx.Reducer(charsets)
    Z = {k: sx.to_z3(x, None, red) for k, x in rx.items()}
    REPS = red.repstar()

    def RP(z):
        return z3.Intersect(z, REPS)

    acc = Z['acc']
    lands = {h: Z['lands:' + h] for h in own}
    lands_any = strlang.re_union(list(lands.values()))
    nonspecial = Z['nonspecial']
    ns_host_any = strlang.re_union([Z['nshost:' + h] for h in own])
    lands_evil = Z['lands_evil']
    R.ob(f'{label}: alphabet compressed to one representative per character-class signature (all of Unicode incl. planes above U+2FFFF)',
         'discharged', 0.0, {'charsets': len(charsets), 'classes': len(red.reps)}, nontrivial=True)

    # ---- translator validation 1: accept language vs the real validator (hence the real urlsplit) -----
    t = time.time()
    hard = [sx.to_z3(x, None, red) for x in hard_rx]
    pts = gen_points([RP(z3.Intersect(acc, hz)) for hz in hard], n_pts)
    npts = gen_points([RP(z3.Intersect(z3.Complement(acc), hz)) for hz in hard], n_pts)
    h0 = own[0]
    handmade = ['', ' ', '/', '//', f'//{h0}', f'https://{h0}', f'https://{h0}/', f' https://{h0}/x', f'https://{h0} ',
                f'ht\ttps:/\n/{h0[:3]}\r{h0[3:]}/p', f'https://{h0}:443/', f'https://u@{h0}/', f'https://{h0}@evil.example/',
                f'https://evil.example/{h0}', f'https://evil.example\\@{h0}/', f'https://{h0}\\@evil.example/',
                f'https:\\\\{h0}', f'/\\{h0}', f'///{h0}', f'https:///{h0}', f'https:{h0}', f'//{h0}?x', f'//{h0}#x',
                f'//{h0.upper()}/', f'javascript://{h0}/%0aalert(1)', f'1a://{h0}/', f'a b://{h0}/', f'a+-.9://{h0}',
                f'//{h0}\\evil.example', f'//evil.example#//{h0}', f'//[{h0}]/', f'//{h0}[', f'//{h0}\u2100', f'//\uff0f{h0}',
                f'\x00\x1f //{h0}/', f'é://{h0}', f'//{h0}é', f'x:y://{h0}', f'://{h0}', f'//{h0}/\U0001f600', 'http://[::1]/',
                f'//evil{h0}', f'//{h0}.evil.example/', f'//evil.example/@{h0}', f'https://evil.example:80@{h0}/']
    n_in = n_out = 0
    for p in pts + npts + handmade:
        if not sx.zstr_ok(p):
            continue
        want = real_accepts(dc, p)
        got = red.in_lang(acc, p)
        R.validation_points += 1
        n_in += want
        n_out += not want
        if want != got:
            raise HarnessError(f'{label}: accept-language model disagrees with the real {FN} on {p!r}: '
                               f'real={want} model={got}')
    R.ob(f'{label}: accept-language model == real {FN} on solver-chosen points', 'discharged', time.time() - t,
         {'accepted_points': n_in, 'rejected_points': n_out}, nontrivial=True)
    if n_in < 20 or n_out < 20:
        raise HarnessError(f'{label}: too few validation points ({n_in} in / {n_out} out)')

    # ---- translator validation 2: browser language vs the state-machine transcription ------------------
    t = time.time()
    b_in = b_out = 0
    all_lands = dict(lands)
    all_lands[evil] = lands_evil
    for h, z in all_lands.items():
        for p in gen_points([RP(z3.Intersect(z, hz)) for hz in hard[:5]], max(4, n_pts // 2)):
            k = M.browser_target(p, bscheme, bhost)
            R.validation_points += 1
            b_in += 1
            if not (k[0] == 'host' and k[2] == h and k[1] in M.SPECIAL):
                raise HarnessError(f'{label}: browser regex says {p!r} lands on {h} but the state machine says {k}')
    union_all = z3.Union(lands_any, lands_evil)
    for p in gen_points([RP(z3.Intersect(z3.Complement(union_all), hz)) for hz in hard], n_pts) + handmade:
        if not sx.zstr_ok(p):
            continue
        k = M.browser_target(p, bscheme, bhost)
        R.validation_points += 1
        b_out += 1
        in_any = [h for h, z in all_lands.items() if red.in_lang(z, p)]
        if k[0] == 'host' and k[1] in M.SPECIAL and k[2] in all_lands:
            # the regex is an under-approximation only for ports of 5 digits and non-ASCII / %-encoded host spellings
            if k[2] not in in_any and not _underapprox_hole(p):
                raise HarnessError(f'{label}: state machine says {p!r} lands on {k[2]} but the browser regex excludes it')
        elif in_any:
            raise HarnessError(f'{label}: browser regex says {p!r} lands on {in_any} but the state machine says {k}')
    R.ob(f'{label}: browser-language model == WHATWG state machine on solver-chosen points', 'discharged',
         time.time() - t, {'member_points': b_in, 'other_points': b_out}, nontrivial=True)

    # ---- reachability twins ------------------------------------------------------------------------------
    for nm, z in (('accepted', acc), ('rejected', z3.Complement(acc)), ('foreign-landing', z3.Intersect(
            lands_evil, z3.Complement(lands_any))), ('accepted-with-scheme', z3.Intersect(acc, Z['lower_start']))):
        r, w, dt = member(RP(z))
        if r != 'sat':
            raise HarnessError(f'{label}: {nm} language is empty — vacuous encoding')
        R.sample({'deployment': label, nm: w})

    # ---- the property ------------------------------------------------------------------------------------
    ascii_print = Z['ascii_print']

    def decide(name, z, cls, describe, prefer=None):
        # prefer a printable-ASCII witness (the state machine decides those completely); then any string.
        # A witness on which the browser's parse fails (no navigation) or is outside the state machine is not a
        # counterexample: it is excluded and the query repeated a few times; if nothing definite turns up the
        # obligation is left not discharged.
        total = 0.0
        seen = []
        if prefer is not None:
            # first look for a counterexample that certainly lands on a fixed foreign host: the state machine decides it
            r, w, dt = member(RP(z3.Intersect(z, prefer, ascii_print)))
            total += dt
            if r == 'sat':
                st = describe(w)
                if st is not None:
                    R.ob(name, st, total, {'witness': w}, nontrivial=True)
                    return
                seen.append(w)
        for _ in range(6):
            zz = z
            for x in seen:
                zz = z3.Intersect(zz, z3.Complement(z3.Re(sx.sval(x))))
            r, w, dt = member(RP(z3.Intersect(zz, ascii_print)))
            total += dt
            if r != 'sat':
                r2, w, dt2 = member(RP(zz))
                total += dt2
                r = r2 if r == 'unsat' or r2 == 'sat' else r
            if r == 'unsat':
                R.ob(name, 'discharged' if not seen else 'not_discharged', total,
                     {'indefinite_witnesses': seen} if seen else None, nontrivial=True)
                return
            if r != 'sat':
                break
            st = describe(w)
            if st is not None:
                R.ob(name, st, total, {'witness': w}, nontrivial=True)
                return
            seen.append(w)
        R.ob(name, 'not_discharged', total, {'indefinite_witnesses': seen})

    def foreign(cls):
        def f(w):
            k = M.browser_target(w, bscheme, bhost)
            if not real_accepts(dc, w):
                raise HarnessError(f'{label}: counterexample {w!r} is not accepted by the real {FN}')
            if k[0] == 'host' and k[2] in own:
                raise HarnessError(f'{label}: counterexample {w!r}: state machine lands on own host {k}')
            if k[0] in ('unknown', 'fail', 'nohost'):
                # parse failure / no authority (no navigation), or outside the part of the WHATWG parser the state
                # machine decides (IDNA, %-encoding, IP literals): not a definite counterexample
                return None
            return R.finding(cls, f'{FN}({w!r}) accepted under {label} (own hosts {own}); WHATWG parse: {k}',
                             {'deployment': label, 'arg': w, 'own': own, 'base': [bscheme, bhost]})
        return f

    decide(f'{label}: accepted ∧ special-or-relative ⇒ browser lands on an own host',
           z3.Intersect(acc, z3.Complement(nonspecial), z3.Complement(lands_any)), 'redirect-to-foreign-host',
           foreign('redirect-to-foreign-host'), prefer=lands_evil)
    decide(f'{label}: accepted ∧ non-special scheme ⇒ URL authority is an own host',
           z3.Intersect(acc, nonspecial, z3.Complement(ns_host_any)), 'nonspecial-scheme-foreign-authority',
           foreign('nonspecial-scheme-foreign-authority'), prefer=Z['nshost_evil'])

    def rejected_canonical(w):
        if real_accepts(dc, w):
            raise HarnessError(f'{label}: {w!r} is accepted by the real function, model says rejected')
        return R.finding('rejects-own-url', f'{FN}({w!r}) rejected under {label} although it is an own https URL',
                         {'deployment': label, 'arg': w, 'own': own, 'base': [bscheme, bhost], 'expect_accept': True})

    canon = Z['canon']
    decide(f'{label}: every https://<own host>[/?#…] is accepted', z3.Intersect(canon, z3.Complement(acc)),
           'rejects-own-url', rejected_canonical)

    # information, not a violation (DESIGN §6/C29): accepted strings with a scheme no browser navigates to on a redirect
    r, w, dt = member(RP(z3.Intersect(acc, nonspecial)))
    R.extra.setdefault('information', []).append(
        {'deployment': label, 'accepted_non_navigable_scheme_example': w,
         'note': 'accepted although the scheme is not http(s)/ftp/ws(s)/file; a Location redirect to it does not navigate'})

    # supplementary (concrete, not deciding): aiohttp's HTTPFound passes the string through yarl.URL before it
    # reaches the browser; on the solver-chosen accepted points the rewritten string must still land on an own host
    try:
        from yarl import URL
    except Exception:  # noqa: BLE001
        URL = None
    if URL is not None:
        bad = []
        for p in pts:
            if not real_accepts(dc, p):
                continue
            try:
                loc = str(URL(p))
            except Exception:  # noqa: BLE001
                continue
            k = M.browser_target(loc, bscheme, bhost)
            if k[1] in M.SPECIAL and not (k[0] == 'host' and k[2] in own):
                bad.append((p, loc, k))
        R.extra.setdefault('yarl_passthrough', []).append({'deployment': label, 'points': len(pts), 'foreign': bad[:3]})
        if bad and not R.violations:
            raise HarnessError(f'{label}: yarl rewrites accepted {bad[0][0]!r} to {bad[0][1]!r} which lands on {bad[0][2]}')


def _underapprox_hole(p):
    import re
    return bool(re.search(r':\d{5,}', p)) or '%' in p or not p.isascii()


def run(R):
    loader.install()
    mod = importlib.import_module('auth.auth')
    node, text, _ = strlang.load_function(loader.src(AUTH), FN)
    R.encode(f'{AUTH}:{node.lineno} {FN}', text)
    dnode, dtext, _ = strlang.load_function(loader.src(DEPLOY), 'external_url')
    R.encode(f'{DEPLOY}:{dnode.lineno} DeployConfig.external_url (evaluated concretely)', dtext)
    import inspect
    R.encode('urllib.parse.urlsplit (CPython, modelled)', inspect.getsource(urllib.parse.urlsplit))
    R.bounds = {'string_length': 'unbounded', 'alphabet': 'all Unicode scalar values (compressed to one representative per character-class '
                'signature, exact for languages built from those classes; lone surrogates excluded)',
                'deployments': '2 concrete (default namespace / hail.is; namespace pr-1234 / internal.<domain> + base path)'}
    R.assume('the browser is WHATWG-URL conformant and resolves the Location value against the auth service URL '
             '(https, own host); the browser model under-approximates "lands on h" (ASCII spellings of h, ports of '
             'at most 4 digits), which is the safe direction for the inclusion',
             'aiohttp HTTPFound re-serialises the string with yarl.URL; only checked concretely on the solver-chosen '
             'accepted points (supplementary), not symbolically',
             'schemes other than http/https/ftp/ws/wss/file are not navigated to by a redirect; accepted strings with '
             'such schemes are reported as information and only required to carry an own host as authority',
             'own hosts are those the real deploy_config.external_url gives for two concrete deployments; other '
             'domain names are outside the bound',
             'netlocs containing "[" or "]" are modelled as rejected by urlsplit (exact for bracket-free host lists)',
             'z3 5.1 sequence/regex theory decides the inclusion queries (unknown => not discharged)',
             'lone surrogate code points are excluded from the alphabet')
    R.extra['trusted_base'] = ['z3 regex solver', 'WHATWG URL model (harness/C29_model.py: regex + state machine, '
                               'hand-written from the spec; no browser in the sandbox)',
                               'vt/strlang_ext.py language transformers',
                               'urlsplit model (validated each run against the real function)']
    for label, dc in deployments():
        check_deployment(R, label, dc, node, vars(mod))
    check_sites(R)


def site_results():
    """(sinks, stores, store_ok): every redirect sink / session store of auth.py with its path condition and ok-formula"""
    from harness import C29_sites as S
    walkers, store_ok = S.analyse(loader.read(AUTH))
    from z3 import z3util
    sinks, stores, reads = [], [], set()
    names = {str(v): k for k, v in store_ok.items()}
    for w in walkers:
        for node, tgt, pc, ok in w.sinks:
            sinks.append((w.fn.name, node, tgt, pc, ok))
            if ok is not None:
                # session keys whose stored values flow into this redirect target
                reads |= {names[str(v)] for v in z3util.get_vars(ok) if str(v) in names}
        for node, key, val, pc, ok in w.stores:
            stores.append((w.fn.name, node, key, val, pc, ok))
    return sinks, stores, store_ok, reads


def check_sites(R):
    """call-site obligations: every redirect of the service has a trusted or validated target"""
    import ast as _ast
    from harness import C29_sites as S
    text = loader.read(AUTH)
    R.encode(f'{AUTH} (all functions: redirect sinks, session stores)', text)
    sinks, stores, store_ok, reads = site_results()
    if not sinks:
        raise HarnessError('no redirect found in auth.py — vacuous call-site analysis')
    if not any(str(ok) not in ('True',) and ok is not None for _, _, _, _, ok in sinks):
        raise HarnessError('no redirect with a request-derived target found in auth.py — vacuous call-site analysis')
    assume = list(store_ok.values())
    R.assume('call sites: the aiohttp session is an encrypted, signed cookie — its contents are what the service stored; a value '
             'read from session[k] is trusted iff every store session[k] = v in auth.py is dominated by validation of v',
             'call sites: trusted redirect targets are constants, deploy_config.external_url/url/base_url of trusted arguments, '
             'request.app[...] values and the OAuth flow client\'s initiate_flow() result; everything else rooted at `request` is '
             'tainted; any other target expression stops the check (exit 2)',
             'call-site findings are structural (the path exists in the source); replay re-runs the analysis on the current tree')
    n_tainted = 0
    for fn, node, tgt, pc, ok in sinks:
        ttext = _ast.unparse(tgt)
        name = f'site {fn}:{node.lineno}: redirect to `{ttext}` is trusted or dominated by {S.VALIDATOR}'
        if ok is None:
            raise HarnessError(f'{fn}:{node.lineno}: redirect target `{ttext}` is not a recognised expression '
                               '(neither trusted, request-derived nor session-derived)')
        if not S.sat(pc):
            R.ob(name, 'not_discharged', 0.0, {'reason': 'redirect unreachable in the path model'})
            continue
        t0 = time.time()
        r = S.valid(pc, ok, assume)
        trivial = str(z3.simplify(ok)) == 'True'
        n_tainted += not trivial
        if r == 'unsat':
            R.ob(name, 'discharged', time.time() - t0, {'target': ttext, 'request_or_session_derived': not trivial}, nontrivial=True)
        elif r == 'sat':
            st = R.finding('redirect-target-not-validated', f'{AUTH} {fn}() line {node.lineno}: web redirect to `{ttext}` is reachable '
                           f'without {S.VALIDATOR}({ttext}) having returned on the path', {'kind': 'site', 'function': fn, 'target': ttext})
            R.ob(name, st, time.time() - t0, {'target': ttext}, nontrivial=True)
        else:
            R.ob(name, 'not_discharged', time.time() - t0, {'solver': r})
    for fn, node, key, val, pc, ok in stores:
        if key not in reads:
            continue
        vtext = _ast.unparse(val)
        name = f'site {fn}:{node.lineno}: session[{key!r}] = `{vtext}` stores a trusted or validated value'
        if ok is None:
            raise HarnessError(f'{fn}:{node.lineno}: value stored in session[{key!r}] (`{vtext}`) is not a recognised expression')
        t0 = time.time()
        r = S.valid(pc, ok, assume)
        if r == 'unsat':
            R.ob(name, 'discharged', time.time() - t0, nontrivial=S.sat(pc))
        elif r == 'sat':
            st = R.finding('session-redirect-target-stored-unvalidated', f'{AUTH} {fn}() line {node.lineno}: session[{key!r}] = {vtext} '
                           f'is reachable without {S.VALIDATOR}({vtext}); the value is later used as a redirect target',
                           {'kind': 'store', 'function': fn, 'key': key, 'value': vtext})
            R.ob(name, st, time.time() - t0, nontrivial=True)
        else:
            R.ob(name, 'not_discharged', time.time() - t0, {'solver': r})
    R.sample({'call_sites': {'redirects': len(sinks), 'with_request_or_session_target': n_tainted,
                             'session_keys_read_as_targets': sorted(reads)}})


def replay(path):
    d = json.load(open(path))['replay']
    if d.get('kind') in ('site', 'store'):
        import ast as _ast
        from harness import C29_sites as S
        sinks, stores, store_ok, reads = site_results()
        assume = list(store_ok.values())
        if d['kind'] == 'site':
            hits = [(fn, node) for fn, node, tgt, pc, ok in sinks if fn == d['function'] and _ast.unparse(tgt) == d['target']
                    and (ok is None or S.valid(pc, ok, assume) != 'unsat')]
        else:
            hits = [(fn, node) for fn, node, key, val, pc, ok in stores if fn == d['function'] and key == d['key']
                    and _ast.unparse(val) == d['value'] and (ok is None or S.valid(pc, ok, assume) != 'unsat')]
        for fn, node in hits:
            print(f'{AUTH} {fn}() line {node.lineno}: still reachable without validation')
        if not hits:
            print('no such unvalidated redirect / store in the current tree')
        return 1 if hits else 0
    loader.install()
    from harness import C29_model as M
    dc = dict(deployments())[d['deployment']]
    acc = real_accepts(dc, d['arg'])
    k = M.browser_target(d['arg'], d['base'][0], d['base'][1])
    print(f"{FN}({d['arg']!r}) accepted={acc}; WHATWG parse -> {k}; own hosts {d['own']}")
    if d.get('expect_accept'):
        return 0 if acc else 1
    return 1 if acc and not (k[0] == 'host' and k[2] in d['own']) else 0
