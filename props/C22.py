"""C22 — copy tool (PARTIAL claim): part arithmetic tiles the file exactly; destination / error decision code
follows the documented rule.  No end-to-end byte identity through real file I/O is claimed."""
import itertools
import json
import time

import z3

from vt import loader, natsym, smt
from vt.common import HarnessError

LEVEL = 'other'
EXPLANATION = (
    'PARTIAL: byte identity of real files through file-system and thread-pool I/O is NOT decided here. Decided: '
    '(a) the integer expressions of SourceCopier._copy_file_multi_part_main / _copy_part and '
    'LocalAsyncFS.multi_part_create / LocalMultiPartCreate.create_part are lifted from the AST to z3 terms on every '
    'run; z3 proves for ALL size > part_size >= 1, BUFFER_SIZE >= 1 (nonlinear integer arithmetic with one div/mod, '
    'no bound) that the parts [i*P, i*P+size_i) tile [0,size) exactly (first starts at 0, each non-empty, '
    'consecutive parts contiguous, last ends at size, count = ceil(size/P) = the count handed to multi_part_create), '
    'that the read loop of a part issues contiguous ranged reads covering exactly that part, and that the local '
    'part writer seeks to the same offset the bytes were read from. (b) the real Transfer / Copier / SourceCopier '
    'decision code runs under vt/natsym.py against a router FS oracle with symbolic source type '
    '(file/dir/both/none), destination type (file/dir/none), type of dest/basename, trailing slashes, '
    'treat_dest_as and list-vs-single source; z3 decides per configuration group that every path ends in the '
    'outcome of the documented rule (destination path or exactly the documented error).'
)
SLUG = ['file-not-found', 'file-and-directory', 'is-a-directory', 'not-a-directory', 'file-into-dir', 'file-to-target',
        'dir-into-dir', 'dir-to-target']


# ---- (a) ----------------------------------------------------------------------------------------------------
def _check(pre, claim, timeout=60000):
    s = z3.Solver()
    s.set('timeout', timeout)
    s.add(*pre)
    s.add(z3.Not(claim))
    t = time.time()
    r = str(s.check())
    return r, (s.model() if r == 'sat' else None), time.time() - t, s


def _sat(pre, timeout=60000):
    s = z3.Solver()
    s.set('timeout', timeout)
    s.add(*pre)
    return str(s.check())


def part_obligations(R, L):
    v = L['vars']
    size, P, BUF, i, n = v['size'], v['P'], v['BUF'], v['i'], v['n']
    N, start = L['range_n'], L['create_part_start']

    def at(t, **kw):
        return z3.substitute(t, *[(v[k], val) for k, val in kw.items()])
    base = [size >= 0, P >= 1, BUF >= 1] + L['side_conditions']
    pre = base + [L['multi'], i >= 0, i < N]
    off, ln, nxt, guard, c0 = L['read_offset'], L['read_length'], L['loop_next'], L['loop_guard'], L['loop_init']
    gnext = at(guard, n=nxt)

    def loop_claims(T):
        """The read loop of part i covers exactly [start_i, start_i + T): shape-agnostic induction over the loop state.
        Inv(n) := guard(n) and start_i <= offset(n) < start_i + T."""
        inv = [guard, off >= start, off < start + T]
        init = z3.And(z3.Implies(T >= 1, at(guard, n=c0)), z3.Implies(at(guard, n=c0), at(off, n=c0) == start),
                      z3.Implies(T <= 0, z3.Not(at(guard, n=c0))))
        step = z3.And(ln >= 1, ln <= BUF, L['readexactly_n'] == ln, off + ln <= start + T,
                      z3.Implies(gnext, z3.And(at(off, n=nxt) == off + ln, off + ln < start + T)),
                      z3.Implies(z3.Not(gnext), off + ln == start + T))
        return inv, init, step

    # which of the sizes the code passes around is the extent the read loop really covers?
    tps = None
    for T in L['size_candidates']:
        inv, init, step = loop_claims(T)
        if _check(pre, init)[0] == 'unsat' and _check(pre + inv, step)[0] == 'unsat':
            tps = T
            break
    loop_ok = tps is not None
    if tps is None:
        tps = L['size_candidates'][0]
    inv, init, step = loop_claims(tps)
    lpre = pre + inv
    L['this_part_size'] = tps
    lv = L['local_vars']
    local_bind = [(lv['number'], L['create_part_number']), (lv['start'], start), (lv['num_parts'], L['create_num_parts'])]
    inexact = [size % P != 0]
    exact = [size % P == 0]
    obs = [
        ('parts: count N = ceil(size/P) >= 2 in the multi-part branch', pre, z3.And(N >= 2, (N - 1) * P < size, size <= N * P),
         inexact),
        ('parts: every multi_part_create call is handed the number of parts that are copied', pre,
         z3.And(*[t == N for t in L['create_num_parts_all']]), []),
        ('parts: part i is created with number i', pre, L['create_part_number'] == i, []),
        ('parts: the first part starts at 0', pre, z3.Implies(i == 0, start == 0), [i == 0]),
        ('parts: every part is non-empty and at most P long (also when size is a multiple of P)', pre,
         z3.And(tps >= 1, tps <= P), exact + [i == N - 1]),
        ('parts: part i+1 starts where part i ends', pre, z3.Implies(i + 1 < N, start + tps == at(start, i=i + 1)),
         [i + 1 < N]),
        ('parts: the last part ends at size (size a multiple of P or not)', pre, z3.Implies(i == N - 1, start + tps == size),
         [i == N - 1] + exact),
        ('parts: the size hint given to create_part is the part size', pre,
         (L['size_hint'] == tps) if L['size_hint'] is not None else z3.BoolVal(True), []),
        ('read loop: starts reading at the start of the part and runs iff the part is non-empty', pre, init, []),
        ('read loop: each round reads 1..BUFFER_SIZE bytes with readexactly(the same count), stays inside the part, the next '
         'round continues where this one ended and the loop stops exactly at the end of the part', lpre, step, [BUF < tps]),
        ('single-part branch: size <= P and the whole size is handed to _copy_file', base + [L['single_guard']],
         z3.And(size <= P, *[t == size for t in L['single_copy_size']]), []),
        ('branches: every size takes the single-part or the multi-part branch', base,
         z3.Or(L['single_guard'], L['multi']), []),
        ('local part writer: 0 <= number < num_parts holds for every part', pre,
         z3.substitute(L['local_assert'], *local_bind), []),
        ('local part writer: seeks to the offset the part is read from', pre,
         z3.substitute(L['local_seek'], *local_bind) == at(off, n=c0), []),
    ]
    for name, p, claim, twin in obs:
        r, m, dt, s = _check(p, claim)
        reach = _sat(p + twin) == 'sat'
        if r == 'unsat':
            st = 'discharged' if reach else 'not_discharged'
            det = {'twin': 'sat' if reach else 'unsat'}
            if R.tier == 'thorough':
                txt = '(set-logic ALL)\n' + s.to_smt2()
                r2, _, dt2, _ = smt.solve(txt, 'cvc5', 120)
                det['cvc5'] = r2
                if r2 == 'sat':
                    raise HarnessError(f'{name}: z3 says unsat, cvc5 says sat')
            R.ob(name, st, dt, det, nontrivial=reach)
        elif r == 'sat':
            # prefer a model small enough to execute on the real coroutine
            s2 = z3.Solver()
            s2.set('timeout', 60000)
            s2.add(*p)
            s2.add(z3.Not(claim), size <= 300, P <= 40, BUF <= 40)
            if str(s2.check()) == 'sat':
                m = s2.model()
            vals = {k: m.eval(x, model_completion=True).as_long() for k, x in v.items()}
            rep = _replay_parts(vals)
            if not rep['bad']:
                raise HarnessError(f'{name}: counterexample {vals} does not reproduce on the real coroutine: {rep}')
            st = R.finding('multi-part-copy-does-not-tile-the-file', f'{name} fails for {vals}: {rep["why"]}',
                           {'kind': 'parts', 'vals': vals})
            R.ob(name, st, dt, {'witness': vals}, nontrivial=True)
        else:
            R.ob(name, 'not_discharged', dt, {'solver': r})
    if not L['single_copy_size']:
        raise HarnessError('single-part branch no longer passes the size to _copy_file')
    dest_state_obligations(R, L)
    return pre


def _apply(effs, exists, length, err):
    """Sequential effect of file-opening steps on (exists, length); err collects 'this step raises'."""
    for e in effs:
        err = z3.Or(err, z3.And(z3.BoolVal(e['exclusive']), exists), z3.And(z3.BoolVal(not e['creates']), z3.Not(exists)))
        length = z3.If(z3.BoolVal(e['truncates']), 0, z3.If(exists, length, 0))
        exists = z3.Or(exists, z3.BoolVal(e['creates']))
    return exists, length, err


def dest_state_obligations(R, L):
    """The destination's prior state is part of the space: old_len = -1 (absent) or the length of an existing file
    (shorter, equal, longer than the source).  After the copy the file must be exactly `size` bytes long (the bytes
    below `size` are the source's by the tiling obligations), so whatever creates the file has to truncate it and
    the per-part opens must neither truncate nor append."""
    v = L['vars']
    size, P = v['size'], v['P']
    old = z3.Int('old_len')
    exists0, len0 = old >= 0, z3.If(old >= 0, old, 0)
    mx = lambda a, b: z3.If(a >= b, a, b)
    cases = [
        ('multi-part copy', [size >= 0, P >= 1, L['multi'], old >= -1], L['open_multi_create'], L['open_part']),
        ('single-part copy', [size >= 0, P >= 1, z3.Not(L['multi']), old >= -1], L['open_single'], None),
    ]
    for what, pre, create_effs, part_effs in cases:
        ex, ln, err = _apply(create_effs, exists0, len0, z3.BoolVal(False))
        # a plain create in append mode writes after the old content: identical only if nothing was left
        ok_writer = z3.Implies(z3.BoolVal(create_effs[-1]['append']), ln == 0) if part_effs is None else z3.BoolVal(True)
        if part_effs is not None:
            # every part re-opens the file: the same effect N >= 2 times, interleaved with writes that end at <= size
            ex2, ln2, err = _apply(part_effs, ex, ln, err)
            ok_writer = z3.And(*[z3.BoolVal(not e['truncates'] and not e['append']) for e in part_effs])
            ex = ex2
        final_len = mx(ln, size)
        claim = z3.And(z3.Not(err), ex, ok_writer, final_len == size)
        name = (f'destination state, {what}: for an absent or existing (shorter / equal / longer) destination the file ends '
                f'up exactly size bytes long and no open step fails or discards earlier parts')
        r, m, dt, s = _check(pre, claim)
        reach = _sat(pre + [old > size]) == 'sat' and _sat(pre + [old == -1]) == 'sat'
        det = {'create_step': [e['how'] for e in create_effs], 'part_step': [e['how'] for e in part_effs or []]}
        if r == 'unsat':
            R.ob(name, 'discharged' if reach else 'not_discharged', dt, det, nontrivial=reach)
        elif r == 'sat':
            for extra in ([old > size, size >= 1], [size >= 1], []):
                s2 = z3.Solver()
                s2.add(*pre)
                s2.add(z3.Not(claim), size <= 60, P <= 12, old <= 90, *extra)
                if str(s2.check()) == 'sat':
                    m = s2.model()
                    break
            vals = {'size': m.eval(size, model_completion=True).as_long(), 'P': m.eval(P, model_completion=True).as_long(),
                    'BUF': 4, 'old_len': m.eval(old, model_completion=True).as_long()}
            rep = _replay_parts(vals)
            if not rep['bad']:
                raise HarnessError(f'{name}: counterexample {vals} does not reproduce on the real code: {rep}')
            st = R.finding('copy-onto-existing-destination-not-identical',
                           f'{what} with size={vals["size"]} part_size={vals["P"]} onto a destination of length '
                           f'{vals["old_len"]} ({det}): {rep["why"]}', {'kind': 'parts', 'vals': vals})
            R.ob(name, st, dt, {'witness': vals, **det}, nontrivial=True)
        else:
            R.ob(name, 'not_discharged', dt, {'solver': r})


def _small(vals):
    """Shrink a solver model to something the concrete run can execute (keeps the arithmetic relations)."""
    return vals['size'] <= 4000 and vals['P'] >= 1 and vals['size'] // max(vals['P'], 1) <= 400


def _replay_parts(vals):
    from harness import C22_parts as PP
    if not _small(vals):
        # same residues, smaller numbers: keep P and size mod P, cap the number of parts
        return {'bad': False, 'why': 'model too large to execute'}
    try:
        old = vals.get('old_len')
        rec = PP.concrete_run(vals['size'], vals['P'], max(1, min(vals.get('BUF', 8), 1 << 20)),
                              None if old is None or old < 0 else old)
    except HarnessError as e:
        return {'bad': True, 'why': str(e)}
    except Exception as e:
        return {'bad': True, 'why': f'{type(e).__name__}: {e}'}
    return {'bad': not rec['identical'], 'why': (f'destination differs from source (destination length {rec["dest_len"]}, '
                                                 f'source {vals["size"]})') if not rec['identical'] else 'identical',
            'rec': {'num_parts': rec['num_parts'], 'parts': rec['parts'][:6], 'opens': rec['opens'][:3]}}


def validate_lift(R, L, pre):
    """Translator validation: solver-chosen small points of several regions through the real coroutine."""
    from harness import C22_parts as PP
    v = L['vars']
    size, P, BUF, i, n = v['size'], v['P'], v['BUF'], v['i'], v['n']
    rem = size % P
    regions = {
        'rem=0': [L['multi'], rem == 0], 'rem>0': [L['multi'], rem != 0],
        'BUF<P': [L['multi'], BUF < P], 'BUF>=P': [L['multi'], BUF >= P], 'single': [z3.Not(L['multi'])],
        'rem=1': [L['multi'], rem == 1], 'rem=P-1': [L['multi'], rem == P - 1, P >= 3],
    }
    per = 3 if R.tier == 'quick' else 8
    for rname, cons in regions.items():
        s = z3.Solver()
        s.add(size >= 0, size <= 60, P >= 1, P <= 12, BUF >= 1, BUF <= 14, *cons)
        for _ in range(per):
            if str(s.check()) != 'sat':
                break
            m = s.model()
            sz, p, b = (m.eval(x, model_completion=True).as_long() for x in (size, P, BUF))
            s.add(z3.Or(size != sz, P != p, BUF != b))
            try:
                rec = PP.concrete_run(sz, p, b)
            except HarnessError:
                raise
            except Exception as e:
                raise HarnessError(f'the real multi-part coroutine failed at size={sz} P={p} BUF={b}: '
                                   f'{type(e).__name__}: {e}')
            sub = [(size, z3.IntVal(sz)), (P, z3.IntVal(p)), (BUF, z3.IntVal(b))]

            def ev(t, **kw):
                t = z3.substitute(t, *sub, *[(v[k], z3.IntVal(x)) for k, x in kw.items()])
                r = z3.simplify(t)
                return z3.is_true(r) if z3.is_bool(r) else r.as_long()
            if not ev(L['multi']):
                ok = rec['single'] == sz and rec['num_parts'] is None
            else:
                N = ev(L['range_n'])
                ok = rec['num_parts'] == ev(L['create_num_parts']) and len(rec['parts']) == N
                for k in range(N):
                    want = (ev(L['create_part_number'], i=k), ev(L['create_part_start'], i=k))
                    hint = ev(L['size_hint'], i=k) if L['size_hint'] is not None else None
                    ok = ok and any(pp[:2] == want and (hint is None or pp[2] == hint) for pp in rec['parts'])
                    reads, cnt = [], ev(L['loop_init'], i=k)
                    while ev(L['loop_guard'], i=k, n=cnt):
                        reads.append((ev(L['read_offset'], i=k, n=cnt), ev(L['read_length'], i=k, n=cnt)))
                        cnt = ev(L['loop_next'], i=k, n=cnt)
                    ok = ok and rec['reads'].get(k, []) == reads
            if not ok:
                raise HarnessError(f'lifted terms disagree with the real coroutine at size={sz} P={p} BUF={b}: '
                                   f'{str(rec)[:600]}')
            if not rec['identical']:
                if R.violations:
                    continue      # the defect is already reported by an obligation above
                raise HarnessError(f'all obligations discharged but the real copy is not identical at size={sz} P={p} '
                                   f'BUF={b}: {str(rec)[:400]}')
            R.validation_points += 1
            # the same point onto pre-existing destinations: shorter, equal, longer than the source
            effs = L['open_multi_create'] if ev(L['multi']) else L['open_single']
            lifted_trunc = any(e['truncates'] for e in effs)
            for old in sorted({max(0, sz - 3), sz, sz + 1, sz + 17}):
                try:
                    rec2 = PP.concrete_run(sz, p, b, old)
                except HarnessError:
                    raise
                except Exception as e:
                    raise HarnessError(f'copy onto an existing destination of length {old} failed at size={sz} P={p}: '
                                       f'{type(e).__name__}: {e}')
                seen_trunc = rec2['len_after_first_open'] == 0
                if old > 0 and seen_trunc != lifted_trunc:
                    raise HarnessError(f'lifted open effects say truncates={lifted_trunc}, the instrumented open saw '
                                       f'length {rec2["len_after_first_open"]} after the first open ({rec2["opens"][:2]})')
                if rec2['identical'] != (lifted_trunc or old <= sz) or (not rec2['identical'] and lifted_trunc):
                    raise HarnessError(f'destination-state model disagrees with the real code: size={sz} P={p} old={old} '
                                       f'identical={rec2["identical"]} truncates={lifted_trunc}')
                R.validation_points += 1
            R.sample({'region': rname, 'size': sz, 'part_size': p, 'buffer': b, 'parts': rec['parts'][:4],
                      'bytes_identical_in_concrete_run': rec['identical']})


# ---- (b) ----------------------------------------------------------------------------------------------------
def decision_obligations(R):
    from harness import C22_copy as H
    tab = H.load_repo_table()
    for e in tab:
        ok, code = H.rule_vs_table_entry(e)
        if not ok:
            raise HarnessError(f'the documented rule (harness/C22_copy.rule) disagrees with the repository table entry {e}: '
                               f'rule says {H.CODES[code]}')
        R.validation_points += 1
    lags = (0, 2) if R.tier == 'quick' else (0, 1, 3)
    v, cons, outs, ex = H.explore(lags)
    t0 = time.time()
    cov = ex.covers(outs)
    R.ob('decision code: explored paths cover every oracle valuation and configuration', 'discharged' if cov == 'unsat'
         else 'not_discharged', time.time() - t0, {'paths': len(outs), 'feasibility_queries': ex.solver_calls}, nontrivial=True)
    groups = {}
    for o in outs:
        if o.exc is not None:
            raise HarnessError(f'decision harness raised {type(o.exc).__name__}: {o.exc}')
        r = o.value
        groups.setdefault((r['src_slash'], r['dest_slash'], r['tda'], r['is_list']), []).append(o)
    seen_codes = set()
    for key in itertools.product([False, True], [False, True], H.TDA, [False, True]):
        paths = groups.get(key, [])
        name = (f'decision: src{"/" if key[0] else ""} -> dest{"/" if key[1] else ""}, {key[2]}, '
                f'{"[src]" if key[3] else "src"}: outcome = documented rule for all source/destination types')
        if not paths:
            R.ob(name, 'not_discharged', 0.0, {'why': 'no path'})
            continue
        exp = H.rule(v['tsrc'], v['tdest'], v['tchild'], *key)
        bad = []
        for o in paths:
            obs = H.observed_code(o.value)
            seen_codes.add(obs)
            bad.append(z3.And(o.cond, (exp != obs) if not isinstance(exp, int) else z3.BoolVal(exp != obs)))
        s = z3.Solver()
        s.set('timeout', 60000)
        s.add(*cons)
        s.add(z3.Or(*bad))
        t = time.time()
        r = str(s.check())
        dt = time.time() - t
        if r == 'unsat':
            R.ob(name, 'discharged', dt, {'paths': len(paths)}, nontrivial=True)
        elif r == 'sat':
            m = s.model()
            vals = {k: m.eval(x, model_completion=True).as_long() for k, x in v.items()}
            path = next(o for o, f in zip(paths, bad) if z3.is_true(m.eval(f, model_completion=True)))
            delays = path.value['delays']
            out = H.concrete(vals['tsrc'], vals['tdest'], vals['tchild'], *key, delays=delays)
            got, want = H.observed_code(out), H.rule(vals['tsrc'], vals['tdest'], vals['tchild'], *key)
            if got == want:
                raise HarnessError(f'{name}: counterexample {vals} does not reproduce')
            gs = SLUG[got] if got < 8 else ('other-exception' if got == 98 else 'wrong-files')
            st = R.finding(f'copy-decision-{SLUG[want]}-expected-got-{gs}',
                           f'src type {H.SRC_T[vals["tsrc"]]}, dest type {H.DST_T[vals["tdest"]]}, dest/basename type '
                           f'{H.DST_T[vals["tchild"]]}, src_slash={key[0]} dest_slash={key[1]} {key[2]} list={key[3]}: '
                           f'documented {H.CODES[want]}, got {H.CODES[got] if got < 8 else (out["exc"] or out["files"])}',
                           {'kind': 'decision', 'vals': vals, 'key': list(key), 'delays': delays})
            R.ob(name, st, dt, {'witness': vals}, nontrivial=True)
        else:
            R.ob(name, 'not_discharged', dt, {'solver': r})
    missing = set(range(8)) - seen_codes
    R.ob('decision: each documented error and each destination form is reached by some explored path',
         'discharged' if not missing else 'not_discharged', 0.0, {'unreached': [H.CODES[c] for c in missing]},
         nontrivial=not missing)
    for o in outs[:3]:
        r = o.value
        R.sample({'src_slash': r['src_slash'], 'dest_slash': r['dest_slash'], 'treat_dest_as': r['tda'], 'list': r['is_list'],
                  'outcome': r['exc'] or r['files'], 'fs_calls': [c[0] for c in r['fs'].calls][:8]})
    R.states = len(outs)


def run(R):
    from harness import C22_parts as PP
    R.bounds = {'(a) part arithmetic': 'all integers size > part_size >= 1, BUFFER_SIZE >= 1, 0 <= i < n_parts, 1 <= n <= size_i; '
                                       'destination absent or existing with any length old_len >= 0 (no bound)',
                '(b) decision code': 'source type file/dir/both/none x dest type file/dir/none x dest/basename type x trailing '
                                     'slashes x treat_dest_as x single/list source x answer delays of the three FS '
                                     'queries; fixed 2-file source tree; one transfer'}
    R.assume(
        'PARTIAL CLAIM: no end-to-end byte identity through real file I/O; file contents in (b) are labels naming the '
        'source file, in (a) only offsets and lengths are reasoned about (plus concrete byte-identical runs of the real '
        'coroutine at the translator-validation points)',
        '(a) tiling follows from: first start 0, every part non-empty, consecutive parts contiguous, last ends at size '
        '(induction over i); read-loop coverage likewise by induction over the counter',
        '(a) destination prior state: the open steps of LocalAsyncFS.create / multi_part_create / create_part are read '
        'from the AST (builtin open mode or os.open flags, also when handed to blocking_to_async) and given POSIX '
        'semantics (w: create+truncate, r+: neither, a: append, x/O_EXCL: fail if present); checked each run against an '
        'instrumented in-memory open/os.open on pre-existing shorter, equal and longer destinations',
        '(a) stream semantics assumed: destf.write appends at the current position starting from the seek offset; '
        'open_from(off, length=k) + readexactly(k) yields bytes [off, off+k) (that is property C23)',
        '(b) router FS replaced by an oracle answering statfile / listfiles / staturl / create / makedirs from the '
        'symbolic types; create() raises IsADirectoryError / NotADirectoryError / FileNotFoundError like a POSIX FS for '
        'the two destination levels modelled (dest, dest/basename)',
        '(b) the documented rule is harness/C22_copy.rule, checked on every run against all 324 entries of the '
        'repository table hail/python/test/hailtop/inter_cloud/copy_test_specs.py; "source is both file and directory" '
        'and list sources are not in that table and come from the property statement',
        'task interleavings: the answers of statfile / listfiles / staturl are each delayed by a solver-chosen number of '
        'event-loop rounds (quick 0 or 2, thorough 0, 1 or 3), which permutes the order in which copy_as_file, copy_as_dir '
        'and the destination-type task make progress; other schedules are not varied',
    )
    R.extra['trusted_base'] = ['z3 (NIA with div/mod)', 'harness/C22_parts.py AST lifter (validated against the real '
                               'coroutine at solver-chosen points each run)', 'vt/natsym.py', 'oracle FS and rule in '
                               'harness/C22_copy.py']
    L = PP.lift()
    for key, (lineno, text) in L['nodes'].items():
        f = PP.COPIER if key in ('main', 'part') else PP.LOCAL
        R.encode(f'{f}:{lineno} {key}', text)
    pre = part_obligations(R, L)
    validate_lift(R, L, pre)
    import ast
    ctext = loader.read(PP.COPIER)
    for nme in ('Transfer', 'SourceCopier', 'Copier'):
        for nd in ast.walk(ast.parse(ctext)):
            if isinstance(nd, ast.ClassDef) and nd.name == nme:
                R.encode(f'{PP.COPIER}:{nd.lineno} {nme}', ast.get_source_segment(ctext, nd))
    decision_obligations(R)


def replay(path):
    rp = json.load(open(path))['replay']
    if rp['kind'] == 'parts':
        rep = _replay_parts(rp['vals'])
        print(rp['vals'], rep)
        return 1 if rep['bad'] else 0
    from harness import C22_copy as H
    vals, key = rp['vals'], rp['key']
    out = H.concrete(vals['tsrc'], vals['tdest'], vals['tchild'], *key, delays=rp.get('delays'))
    got, want = H.observed_code(out), H.rule(vals['tsrc'], vals['tdest'], vals['tchild'], *key)
    print(f'documented {H.CODES[want]}; real code: {H.CODES[got] if got < 8 else out["files"]} ({out["exc"]})')
    return 1 if got != want else 0
