"""C36 — front-end types agree with the IR it emits (literals: pyk AST->z3; programs: E5 builder with shapex)."""
import concurrent.futures as cf
import inspect
import json
import multiprocessing
import time

import z3

from vt import loader
from vt.common import HarnessError

LEVEL = 'other'
EXPLANATION = (
    'Part A (literals): the REAL impute_type, HailType.typecheck and hl.literal are interpreted from their AST by '
    'vt/pyk.py (SMT Int mode) on Python value skeletons (ints, bools, nested lists, tuples, str-keyed dicts) whose '
    'integer and boolean leaves are z3 variables over ALL integers; every feasible path gives a path condition and an '
    'outcome; z3 validity queries decide, per path, pc => (the outcome is the type an independent oracle demands for '
    'the int32 / int64-only / out-of-range region of every leaf), that typecheck never raises on an accepted value '
    '(impute_type(v)._typecheck(v)), that the paths cover all inputs, and for hl.literal(int) that the IR node (I32/I64), '
    'its payload and the reported dtype agree. Each path is validated against the real functions on solver-chosen '
    'points. Part B (programs): a symbolic program builder over the real expression / Table / MatrixTable API, shapes '
    'chosen by z3 integers explored with vt/shapex.py (fork on c_k == i, z3 feasibility, DFS); after EVERY accepted API '
    'call the reported types are compared with (1) the cached IR type, (2) a deep recomputation by the real '
    '_compute_type(deep_typecheck=True) of every IR node, (3) a type inferred from the IR TEXT by an independent '
    'engine-side rule table (operator result types read from BinaryOp.scala / UnaryOp.scala, join-node result types '
    'from TableIR.scala / MatrixIR.scala at run time), including table / matrix-table lookups (joins). Part B is a '
    'bounded exhaustive exploration of call sequences (<= 4 calls); no value-level solver claim is made there.'
)
BE = 'hail/python/hail/expr/expressions/base_expression.py'
TYPES = 'hail/python/hail/expr/types.py'
FUNCS = 'hail/python/hail/expr/functions.py'

INT = lambda n: ('i', n)  # noqa: E731
BOOL = lambda n: ('b', n)  # noqa: E731
X, Y, Z, B1, B2 = INT('x'), INT('y'), INT('z'), BOOL('b'), BOOL('c')
CASES = {
    'quick': [X, B1, [X], [X, Y], [B1], [B1, X], [B1, B2], [], [[X], [Y]], [[X, Y]], [[X], []], [[], []], [[B1], [X]],
              ('T', [X, B1]), ('T', [X, [Y]]), {'a': X, 'b': Y}, {'a': X, 'b': [Y]}, {'a': X, 'b': B1},
              ('T', [X, B1, {'a': X, 'b': [Y]}])],
    'thorough': [[X, Y, Z], [[X], [Y], []], [[[X]], [[Y]]], [[X], [B1, Y]], ('T', [X, [Y, Z]]), [[X, Y], [Z]],
                 {'a': [X], 'b': [Y, Z]}, [{'a': X}, {'a': Y}], [{'a': X, 'b': [Y]}, {'a': Y, 'c': [X]}], ('T', [[X], ('T', [Y, B1])]), [[[X], []], [[Y]]]],
}
# (kind, calls, profile, shard depth)
PLAN = {
    'quick': [('expr', 1, 'wide', 1), ('expr', 2, 'core', 2), ('table', 2, 'wide', 2), ('matrix', 2, 'wide', 2),
              ('table', 4, 'mini', 3), ('matrix', 4, 'mini', 2), ('expr', 3, 'mini', 2),
              ('table', 1, 'join', 2), ('matrix', 1, 'join', 2), ('table', 2, 'joincore', 3),
              ('table', 2, 'rekey', 2), ('matrix', 2, 'rekey', 2)],
    'thorough': [('expr', 2, 'wide', 2), ('expr', 3, 'core', 3), ('expr', 4, 'mini', 3), ('table', 2, 'wide', 2),
                 ('table', 3, 'core', 3), ('table', 4, 'mini', 3), ('matrix', 2, 'wide', 2), ('matrix', 3, 'core', 3),
                 ('matrix', 4, 'mini', 2), ('table', 1, 'join', 2), ('matrix', 1, 'join', 2), ('table', 2, 'joincore', 3),
                 ('matrix', 2, 'joincore', 4), ('table', 3, 'rekey', 3), ('matrix', 3, 'rekey', 3)],
}
WORKERS = 8


# ---------------------------------------------------------------------------------------------------------
_PER_CLASS = {}


def _report(R, cls, what, replay_d):
    """R.finding with at most 3 printed witnesses per class (further ones keep the class's status)"""
    _PER_CLASS[cls] = _PER_CLASS.get(cls, 0) + 1
    if _PER_CLASS[cls] <= 3:
        return R.finding(cls, what, replay_d)
    R.extra.setdefault('further_witnesses_not_printed', {})[cls] = _PER_CLASS[cls] - 3
    return 'known' if cls in R.known else 'violated'


def _valid(f, timeout_ms=60000):
    s = z3.Solver()
    s.set('timeout', timeout_ms)
    s.add(z3.Not(f))
    r = str(s.check())
    return r, (s.model() if r == 'sat' else None)


def _model_values(m, sk, L):
    vals = {}
    for kind, name in L.leaves(sk):
        if kind == 'i':
            vals[name] = m.eval(z3.Int(name), model_completion=True).as_long()
        else:
            vals[name] = z3.is_true(m.eval(z3.Bool(name), model_completion=True))
    return vals


def _concrete_outcome(L, sk, vals):
    """the real functions on a concrete value -> ('ok', type) | ('reject', exc name) | ('typecheck-raised', ...)"""
    from hail.expr.expressions.base_expression import ExpressionException, impute_type
    v = L.concrete_value(sk, vals)
    try:
        t = impute_type(v)
    except (ValueError, ExpressionException) as e:
        return ('reject', type(e).__name__)
    except Exception as e:
        return ('crash', type(e).__name__, str(e)[:200])
    try:
        t.typecheck(v)
    except TypeError as e:
        return ('typecheck-raised', t, str(e))
    return ('ok', t)


def _regions(L, sk):
    import itertools
    ints = [n for k, n in L.leaves(sk) if k == 'i']
    for combo in itertools.product(('i32', 'i64', 'out'), repeat=len(ints)):
        yield dict(zip(ints, combo))


def literal_case(R, L, sk):
    """One skeleton: pyk paths of impute_type + typecheck, decided against the oracle."""
    t0 = time.time()
    name = f'literal {sk!r}'.replace("('i', ", '(').replace("('b', ", '(')
    enc = {}

    def on_fn(f, node, src):
        enc[getattr(f, '__qualname__', str(f))] = (inspect.getsourcefile(f) or '', node.lineno, src)
    it, paths = L.impute_and_check(sk, on_function=on_fn)
    for q, (fn, ln, src) in enc.items():
        R.encode(f'{fn.split("/python/")[-1]}:{ln} {q}', src)
    if not paths:
        raise HarnessError(f'{name}: no feasible path')
    regions = list(_regions(L, sk))
    rc = {i: z3.And([L.region_constraint(n, r) for n, r in reg.items()] or [z3.BoolVal(True)])
          for i, reg in enumerate(regions)}
    wants = {i: L.final_want(sk, reg) for i, reg in enumerate(regions)}
    # coverage: the explored path conditions cover every input
    cov, _ = _valid(z3.Or([z3.And(p.pc) if p.pc else z3.BoolVal(True) for p in paths]))
    if cov != 'unsat':
        R.ob(f'{name}: paths cover all inputs', 'not_discharged' if cov == 'unknown' else 'violated', time.time() - t0,
             {'verdict': cov})
        if cov == 'sat':
            raise HarnessError(f'{name}: pyk paths do not cover the input space (translator problem)')
    n_ok = 0
    for p in paths:
        pc = z3.And(p.pc) if p.pc else z3.BoolVal(True)
        if p.side:
            raise HarnessError(f'{name}: unexpected encoding side conditions in Int mode')
        if p.kind == 'unwind':
            raise HarnessError(f'{name}: loop unwinding bound hit')
        if p.kind == 'raise':
            out = ('reject', p.value[0])
            if p.value[0] not in ('ValueError', 'ExpressionException'):
                out = ('crash', p.value[0], p.value[1])
        else:
            out = p.value
        if out[0] == 'ok':
            match = [i for i in rc if wants[i] is not L.REJECT and L.same_type(wants[i], out[1])]
        elif out[0] == 'reject':
            match = [i for i in rc if wants[i] is L.REJECT]
        else:
            match = []
        claim = z3.Implies(pc, z3.Or([rc[i] for i in match] or [z3.BoolVal(False)]))
        verdict, m = _valid(claim)
        # translator validation: a model of this path's condition through the real functions
        s = z3.Solver()
        s.add(pc)
        if str(s.check()) != 'sat':
            raise HarnessError(f'{name}: path condition of an explored path is unsatisfiable')
        vals = _model_values(s.model(), sk, L)
        real = _concrete_outcome(L, sk, vals)
        same = (real[0] == out[0]) and (real[0] != 'ok' or real[1] == out[1]) and (real[0] != 'crash' or real[1] == out[1])
        if not same:
            raise HarnessError(f'{name}: translator validation failed at {vals}: pyk says {out}, real code says {real}')
        R.validation_points += 1
        oname = f'{name}: path -> {out[0]} {out[1] if out[0] == "ok" else out[1:]}'
        if verdict == 'unsat':
            n_ok += 1
            R.ob(oname, 'discharged', time.time() - t0, {'pc': str(z3.simplify(pc))[:200], 'validated_at': vals},
                 nontrivial=True)
        elif verdict == 'sat':
            vals = _model_values(m, sk, L)
            real = _concrete_outcome(L, sk, vals)
            reg = {n: ('i32' if -(1 << 31) <= v < (1 << 31) else 'i64' if -(1 << 63) <= v < (1 << 63) else 'out')
                   for n, v in vals.items() if not isinstance(v, bool)}
            want = L.final_want(sk, reg)
            bad = (real[0] == 'typecheck-raised' or real[0] == 'crash' or (real[0] == 'reject') != (want is L.REJECT)
                   or (real[0] == 'ok' and not L.same_type(real[1], want)))
            if not bad:
                raise HarnessError(f'{name}: counterexample {vals} does not reproduce on the real functions ({real} vs {want})')
            cls = {'typecheck-raised': 'literal-value-fails-its-imputed-type', 'reject': 'literal-rejected-but-representable',
                   'ok': 'literal-imputed-type-differs', 'crash': 'literal-impute-crash'}[real[0]]
            st = _report(R, cls, f'impute_type({L.concrete_value(sk, vals)!r}) -> {real}; the property demands {want}',
                           {'part': 'literal', 'skeleton': repr(sk), 'values': vals})
            R.ob(oname, st, time.time() - t0, {'cex': vals}, nontrivial=True)
        else:
            R.ob(oname, 'not_discharged', time.time() - t0, {'verdict': verdict})
    R.sample({'literal_skeleton': repr(sk), 'paths': len(paths), 'discharged': n_ok})


def literal_int_case(R, L):
    """hl.literal(x) for a symbolic int: node kind, payload and reported dtype."""
    from hail import ir
    from hail.expr.types import tint32, tint64
    t0 = time.time()
    enc = {}

    def on_fn(f, node, src):
        enc[getattr(f, '__qualname__', str(f))] = (inspect.getsourcefile(f) or '', node.lineno, src)
    it, paths, fn = L.literal_int(on_function=on_fn)
    for q, (fnm, ln, src) in enc.items():
        R.encode(f'{fnm.split("/python/")[-1]}:{ln} {q}', src)
    x = z3.Int('x')
    in32 = z3.And(x >= -(1 << 31), x <= (1 << 31) - 1)
    in64 = z3.And(x >= -(1 << 63), x <= (1 << 63) - 1)
    node_typ = {'I32': ir.I32(0).typ, 'I64': ir.I64(0).typ}       # the real IR classes' own types
    if node_typ != {'I32': tint32, 'I64': tint64}:
        raise HarnessError('ir.I32 / ir.I64 no longer have types int32 / int64')
    cov, _ = _valid(z3.Or([z3.And(p.pc) for p in paths]))
    if cov != 'unsat':
        raise HarnessError('hl.literal(int): paths do not cover all integers')
    for p in paths:
        pc = z3.And(p.pc)
        if p.kind == 'return':
            tag, rec, dt = p.value
            if tag != 'construct_expr' or not isinstance(rec, L._Rec) or not z3.eq(rec.arg.t, x):
                raise HarnessError(f'hl.literal(int): unexpected outcome {p.value!r}')
            rng = in32 if rec.kind == 'I32' else z3.And(in64, z3.Not(in32))
            claim = z3.And(z3.Implies(pc, rng), z3.BoolVal(dt == node_typ[rec.kind]))
            what = f'hl.literal(x) -> {rec.kind}(x) reported as {dt}'
        elif p.value[0] == 'ValueError':
            claim = z3.Implies(pc, z3.Not(in64))
            what = f'hl.literal(x) raises {p.value[0]}'
        else:
            claim = z3.BoolVal(False)
            what = f'hl.literal(x) raises {p.value[0]}: {p.value[1][:120]}'
        verdict, m = _valid(claim)
        s = z3.Solver()
        s.add(pc)
        s.check()
        xv = s.model().eval(x, model_completion=True).as_long()
        try:
            import hail as hl
            e = hl.literal(xv)
            real = (type(e._ir).__name__, e._ir.x, e.dtype, e._ir.typ)
        except Exception as ex:
            real = ('raise', type(ex).__name__)
        expect = (rec.kind, xv, dt, dt) if p.kind == 'return' else ('raise', p.value[0])
        if real != expect:
            raise HarnessError(f'hl.literal translator validation failed at x={xv}: {real} vs {expect}')
        R.validation_points += 1
        if verdict == 'unsat':
            R.ob(what, 'discharged', time.time() - t0, {'pc': str(z3.simplify(pc))[:200], 'validated_at': xv}, nontrivial=True)
        elif verdict == 'sat':
            xv = m.eval(x, model_completion=True).as_long()
            st = _report(R, 'literal-int-node-disagrees-with-value', f'hl.literal({xv}): {what}',
                           {'part': 'literal_int', 'x': xv})
            R.ob(what, st, time.time() - t0, {'cex': xv}, nontrivial=True)
        else:
            R.ob(what, 'not_discharged', time.time() - t0, {})


def _encode_sources(R):
    import ast
    want = {
        BE: {'impute_type', '_impute_type', 'raise_for_holes', 'to_expr', 'cast_expr', '_to_expr', 'unify_all',
             'unify_types_limited', 'unify_types', 'super_unify_types', 'unify_exprs', 'Expression'},
        FUNCS: {'literal', 'if_else', 'array', 'struct', 'tuple', 'len', 'map', 'filter', 'fold', 'int32', 'int64', 'float64',
                'str', 'coalesce', 'bind'},
        'hail/python/hail/expr/expressions/typed_expressions.py': {'construct_expr', 'ArrayExpression', 'StructExpression',
                                                                    'NumericExpression', 'TupleExpression'},
        'hail/python/hail/ir/base_ir.py': {'IR', 'TableIR', 'MatrixIR'},
        'hail/python/hail/ir/ir.py': {'ApplyBinaryPrimOp', 'ApplyComparisonOp', 'ApplyUnaryPrimOp', 'If', 'MakeArray', 'MakeStruct',
                                      'MakeTuple', 'InsertFields', 'SelectFields', 'GetField', 'GetTupleElement', 'StreamMap',
                                      'StreamFilter', 'StreamFold', 'ToArray', 'ToStream', 'ArrayRef', 'ArrayLen', 'Apply',
                                      'Literal', 'EncodedLiteral', 'Coalesce', 'Let', 'Cast', 'Join', 'TableGetGlobals',
                                      'TopLevelReference', 'ProjectedTopLevelReference', 'SelectedTopLevelReference'},
        'hail/python/hail/ir/table_ir.py': {'TableRange', 'TableMapRows', 'TableMapGlobals', 'TableKeyBy', 'TableFilter',
                                            'TableLeftJoinRightDistinct', 'TableIntervalJoin', 'TableJoin', 'TableAggregateByKey',
                                            'TableKeyByAndAggregate', 'MatrixRowsTable', 'MatrixColsTable', 'MatrixEntriesTable'},
        'hail/python/hail/ir/matrix_ir.py': {'MatrixMapRows', 'MatrixMapCols', 'MatrixMapEntries', 'MatrixMapGlobals',
                                             'MatrixKeyRowsBy', 'MatrixFilterRows', 'MatrixFilterCols', 'MatrixFilterEntries',
                                             'MatrixAnnotateRowsTable', 'MatrixAnnotateColsTable'},
        'hail/python/hail/table.py': {'Table'},
        'hail/python/hail/matrixtable.py': {'MatrixTable'},
    }
    for path, names in want.items():
        text = loader.read(path)
        for n in ast.parse(text).body:
            if isinstance(n, (ast.FunctionDef, ast.ClassDef)) and n.name in names:
                R.encode(f'{path}:{n.lineno} {n.name}', ast.get_source_segment(text, n))
    from harness import C36_types
    T = C36_types._scala_tables()
    R.encode(f'{C36_types.BINOP_SRC} BinaryOp.returnType/fromString', T['src'][0])
    R.encode(f'{C36_types.UNOP_SRC} UnaryOp.returnType/fromString', T['src'][1])
    J = C36_types._join_rules()
    R.encode(f'{C36_types.TABLE_SRC} TableLeftJoinRightDistinct.typ / TableIntervalJoin.typ', J['src'][0])
    R.encode(f'{C36_types.MATRIX_SRC} MatrixAnnotateRowsTable.typ / MatrixAnnotateColsTable.typ', J['src'][1])


def _task(args):
    kind, k, profile, pins = args
    from harness import C36_run
    return C36_run.run_shard(kind, k, pins, with_text=True, profile=profile)


def run(R):
    from harness import C36_lit as L
    from harness import C36_run
    cases = list(CASES['quick']) + (CASES['thorough'] if R.tier == 'thorough' else [])
    plan = PLAN[R.tier]
    R.bounds = {
        'literals': {'skeletons': [repr(c) for c in cases], 'integer_leaves': 'all of Z (SMT Int), <= 3 per skeleton',
                     'nesting': 'lists to depth 3, length <= 3; tuples; str-keyed dicts'},
        'programs': [{'kind': k, 'max_api_calls': n, 'profile': p} for k, n, p, _ in plan],
        'program_values': 'leaf expressions are fixed representatives of each type class (int32 5, int64 2^31, float64, '
                          'float32, bool, str, arrays, structs, tuples; Python scalars 3, 2^31, 1.5, True, "z")',
    }
    R.assume('Part A: pyk interprets the real function bodies; functions decorated with hail.typecheck are entered at '
             'their wrapped function (the decorator only checks argument classes); set/dict comprehensions and try/except '
             'are added by harness/C36_lit.Interp; ir.I32, ir.I64 and construct_expr are recording intrinsics in the '
             'hl.literal run; `x is None` / `x is pd.NA` on a symbolic int is False',
             'Part A oracle (harness/C36_lit.want): bool < int32 < int64 widen inside containers, an empty list adopts the '
             'sibling element type, a str-keyed dict is dict<str,T> when its values unify and a struct otherwise, anything '
             'outside int64 or with an unknown element type is rejected; structs unify field-wise over the union of their '
             'fields and the field order of such a unified element struct is not part of the claim (the front end takes it '
             'from the iteration order of a Python set of types, i.e. it depends on PYTHONHASHSEED)',
             'Part B: programs are chains (each call consumes the previous result; second operands from a fixed pool); a '
             'call that raises TypeError/ExpressionException/ValueError/... is a rejection and ends the program; an '
             'AssertionError raised inside assign_type/compute_type/_compute_type is a violation, any other assert a rejection',
             'Part B needs no backend: Env._hc is a stub with a logger; parsimonious is replaced by harness/C31_peg.py (real '
             'grammar text, real visitor) and the aggregator registry is refilled through the real register_aggregators()',
             'Part B text-level inference covers the node kinds listed in harness/C36_types.py (value IR incl. Collect/Count/'
             'Sum aggregations and scans, TableRange/MapRows/MapGlobals/KeyBy/Filter/Head/Distinct/Union/AggregateByKey/'
             'KeyByAndAggregate/Join, TableLeftJoinRightDistinct, TableIntervalJoin, TableGetGlobals, Matrix{Rows,Cols,'
             'Entries}Table, MatrixRead(range), MatrixMap{Rows,Cols,Entries,Globals}, MatrixFilter*, MatrixKeyRowsBy, '
             'MatrixAnnotateRowsTable, MatrixAnnotateColsTable); the product/first-match result type and insert mode of the '
             'four join nodes are read from their `typ` definitions in TableIR.scala / MatrixIR.scala at run time and their '
             'key requirements follow TypeCheck.scala; other nodes (ArraySort, TableOrderBy, TableRename, TableExplode ...) '
             'are counted as not inferred and decided by checks (1) and (2) only',
             'Part B lookups: Table.index(*exprs, all_matches=False|True), table[...], Table.index_globals(), '
             'MatrixTable.index_rows/index_cols/index_entries and mt.rows()[...] on tables keyed by one point key, two keys, '
             'an interval key, (interval, point) keys and a str key, indexed by the key field itself, a computed point, two '
             'expressions, a struct, a tuple, an interval, an int64 and a str, whole result / first field / len, used in '
             'annotate, select, filter, annotate_globals and annotate_rows, annotate_cols, annotate_entries, filter_rows; the '
             'lookup expression is checked once it is resolved by the annotating call (alone it has free uid fields)',
             'Part B re-keying: key_by on non-leading / several out-of-order / computed key fields, rename of key and value '
             'fields, then Table.join (inner/left/right/outer; right side keyed alike, renamed, with an extra key, without '
             'values), semi_join, anti_join, union (self / filtered / re-keyed / fresh, unify False|True); MatrixTable '
             'key_rows_by / key_cols_by on out-of-order fields, rename, union_cols (inner/outer, drop_right_row_fields '
             'True|False), rows/cols/entries; union_rows needs hl.eval (a backend) and is outside. The row field ORDER of '
             'TableJoin and MatrixUnionCols is taken from the `++` concatenations in their Scala `typ` definitions; all three '
             'oracles compare struct types with field order',
             'Deep recomputation (2): the cached type of the shared reference nodes `Ref row|global|va|sa|g` '
             '(TopLevelReference) is exempt — the same object legitimately sits under a join node whose row has extra uid '
             'fields, and the text `(Ref row)` carries no type; for those nodes IR.compute_type\'s cache comparison is '
             'switched off during the deep pass and their caches are restored afterwards; every other node is compared',
             'floats, strings, sets, dicts-with-nonstr-keys, loci, calls, ndarrays as literal leaves are out of Part A')
    R.extra['trusted_base'] = ['z3', 'vt/pyk.py + harness/C36_lit.Interp', 'harness/C36_lit.want oracle',
                               'harness/C36_types.py engine-side typing rules', 'vt/shapex.py', 'harness/C31_peg.py']
    _encode_sources(R)
    # ---- Part A --------------------------------------------------------------------------------------------
    t0 = time.time()
    literal_int_case(R, L)
    for sk in cases:
        literal_case(R, L, sk)
    R.log(f'[C36] part A: {len(R.obligs)} obligations, {R.validation_points} validation points, {time.time() - t0:.1f}s')
    # ---- Part B --------------------------------------------------------------------------------------------
    tasks = []
    for kind, k, profile, depth in plan:
        for pins in C36_run.shard_prefixes(kind, k, depth, profile):
            tasks.append((kind, k, profile, pins))
    R.log(f'[C36] part B: {len(tasks)} shards')
    ctx = multiprocessing.get_context('spawn')
    with cf.ProcessPoolExecutor(max_workers=WORKERS, mp_context=ctx) as ex:
        results = list(ex.map(_task, tasks, chunksize=1))
    tot = {'paths': 0, 'done': 0, 'rejected': 0, 'api_calls_checked': 0}
    text = {'expr_inferred': 0, 'expr_not_inferred': 0, 'table_inferred': 0, 'table_not_inferred': 0, 'matrix_inferred': 0,
            'matrix_not_inferred': 0, 'join_nodes_inferred': 0}
    not_inf = {}
    per_class = {}
    groups = {}
    for r in results:
        groups.setdefault((r['kind'], r['k'], r['profile'], tuple(r['pins'][:1])), []).append(r)
        for k_ in tot:
            tot[k_] += r['stats'][k_]
        for k_ in text:
            text[k_] += r['text_stats'][k_]
        for a, b in r['text_stats']['not_inferred_nodes'].items():
            not_inf[a] = not_inf.get(a, 0) + b
    for (kind, k, profile, pin), rs in groups.items():
        name = f'programs {kind}/{profile} <= {k} calls, c0={list(pin)}: reported types == IR types after every call'
        paths = sum(r['stats']['paths'] for r in rs)
        calls = sum(r['stats']['api_calls_checked'] for r in rs)
        secs = sum(r['secs'] for r in rs)
        status = 'discharged'
        detail = {'paths': paths, 'accepted_api_calls_checked': calls, 'rejected_programs': sum(r['stats']['rejected'] for r in rs)}
        for r in rs:
            for v in r['violations']:
                viol, msg = C36_run.replay_concrete(v)
                if not viol:
                    raise HarnessError(f'program counterexample does not reproduce: {v}')
                cls = 'frontend-type-disagrees-with-ir:' + v['vkind']
                st = _report(R, cls, f"{kind} program {v['choices']}: {msg[:500]}",
                             {'part': 'program', 'kind': kind, 'k': k, 'profile': profile, 'choices': v['choices']})
                detail.setdefault('findings', []).append({'class': cls, 'choices': v['choices']})
                status = 'violated' if st == 'violated' else (status if status == 'violated' else st)
        R.ob(name, status, secs, detail, nontrivial=all(r['reach'] for r in rs) and calls > 0)
        if rs[0]['samples']:
            R.sample(rs[0]['samples'][0])
    R.extra['programs_explored'] = tot['paths']
    R.extra['programs_completed'] = tot['done']
    R.extra['programs_rejected_by_front_end'] = tot['rejected']
    R.extra['accepted_api_calls_checked'] = tot['api_calls_checked']
    R.extra['text_level_inference'] = text
    R.extra['observations'] = [
        'not a finding (types agree at the `typ` level): `intervals[mt.col_idx]` inside annotate_cols is accepted by '
        'Table._index (only `is_interval and all_matches` is excluded for columns) and emits MatrixAnnotateColsTable over an '
        'interval-keyed table; TypeCheck.scala only asserts that the root is a new column field, but LowerMatrixIR turns the '
        'node into get(Dict[Struct{iv:Interval[T]},V], Struct{iv:T}), which cannot resolve in the engine',
        'not a finding: impute_type of a list of heterogeneous dicts/Structs orders the fields of the unified element struct '
        'by the iteration order of a Python set of types (PYTHONHASHSEED dependent)']
    R.extra['text_level_not_inferred_nodes'] = dict(sorted(not_inf.items(), key=lambda kv: -kv[1])[:20])
    R.log(f"[C36] part B: programs={tot['paths']} accepted_calls_checked={tot['api_calls_checked']} text={text}")
    if tot['api_calls_checked'] == 0 or text['expr_inferred'] == 0 or text['table_inferred'] == 0 or \
            text['matrix_inferred'] == 0 or text['join_nodes_inferred'] == 0:
        raise HarnessError('no API call was checked / the text-level inference never applied: vacuous')


def replay(path):
    d = json.load(open(path))['replay']
    if d.get('part') == 'program':
        from harness import C36_run
        viol, msg = C36_run.replay_concrete(d)
        print(('property violated: ' if viol else 'property holds: ') + msg)
        return 1 if viol else 0
    if d.get('part') == 'literal_int':
        import hail as hl
        from harness import C36_lit  # noqa: F401
        x = d['x']
        try:
            e = hl.literal(x)
            ok = (e.dtype == e._ir.typ) and e._ir.x == x and ((type(e._ir).__name__ == 'I32') == (-(1 << 31) <= x < (1 << 31)))
        except ValueError:
            ok = not (-(1 << 63) <= x < (1 << 63))
        except Exception as ex:
            print('raised', type(ex).__name__, ex)
            ok = False
        print('property holds' if ok else 'property violated', d)
        return 0 if ok else 1
    from harness import C36_lit as L
    sk = eval(d['skeleton'], {'__builtins__': {}})
    vals = d['values']
    real = _concrete_outcome(L, sk, vals)
    reg = {n: ('i32' if -(1 << 31) <= v < (1 << 31) else 'i64' if -(1 << 63) <= v < (1 << 63) else 'out')
           for n, v in vals.items() if not isinstance(v, bool)}
    want = L.final_want(sk, reg)
    bad = (real[0] in ('typecheck-raised', 'crash') or (real[0] == 'reject') != (want is L.REJECT)
           or (real[0] == 'ok' and not L.same_type(real[1], want)))
    print(('property violated: ' if bad else 'property holds: ') + f'{real} vs {want}')
    return 1 if bad else 0
