"""C08 — accepted job graphs can always finish (E1 sqlsym + glue on the real validator and _create_jobs)."""
import inspect
import json
import os
import time

import z3

from props import _sqlcommon as sc_
from vt.common import HarnessError
from vt.sqlsym import asserts as A
from vt.sqlsym import batchops as bo
from vt.sqlsym import bmc, model, oracle
from vt.sqlsym.interp import GLOBAL_S as S
from vt.sqlsym.interp import b_and, b_not, b_or, i_eq, is_sym, truth

LEVEL = 'model_checking'
EXPLANATION = (
    'The real request path of job submission — validate_and_clean_jobs followed by _create_jobs, reached through the real '
    'handler create_jobs_for_update — is executed (natively, with solver-driven path exploration) on the symbolic database '
    'for a bunch of n job specs whose relative job ids (bunch offset), in-update parents and absolute parents are symbolic '
    'choices INCLUDING invalid ones (self, a later job, a job that does not exist, a job id beyond the update\'s reserved '
    'range); then the real commit_update and a second update. z3 decides, over all choices: (1) if the bunch was accepted '
    '(rows appeared) every recorded dependency (j, p) satisfies 1 <= p < j and every inserted job id lies in its update\'s '
    'reserved range; (2) a rejected bunch leaves every table unchanged and a bunch is inserted completely or not at all; '
    '(3) after commit no committed job waits on a parent that is missing or not earlier (so completion is reachable).'
)


KINDS = ['none', 'earlier', 'self', 'later', 'absolute', 'zero', 'negative', 'legacy_self', 'legacy_later', 'legacy_earlier']
BAD_KINDS = ('self', 'later', 'legacy_self', 'legacy_later')   # (a zero / negative in-update index of a later update names an earlier job of the batch: judged on the recorded rows)


class Sub(bmc.Scenario):
    """prefix: batch with update 1 reserved for n1 jobs, nothing inserted yet"""

    oob_is_violation = True   # an accepted bunch that writes a job / dependency row outside 1..J names a job that cannot exist

    def prefix_batch(self, commit=False):
        self.begin('create_batch')
        outs = self.w.create_batch('tokA', n_jobs=self.n1, n_job_groups=0)
        self.outcomes.append(('create_batch', outs))
        self.sent = {'create_batch'}

    def weird_specs(self, n, first_abs, tag, update_id):
        inp = self.inp
        off = inp.choose(f'{tag}_offset', [0, 1])           # bunch may start one id too high
        specs, res = [], []
        J = self.sizes.J
        for r in range(n):
            rel = 1 + r + off
            absj = first_abs + r + off
            in_update, absolute = [], []
            kind = inp.choose(f'{tag}_parent_kind_{r}', KINDS)
            if kind == 'earlier' and rel > 1:
                in_update.append(rel - 1)
            elif kind == 'self':
                in_update.append(rel)
            elif kind == 'later':
                in_update.append(rel + 1)
            elif kind == 'zero':
                in_update.append(0)
            elif kind == 'negative':
                in_update.append(-1)
            elif kind == 'absolute':
                absolute.append(inp.choose(f'{tag}_abs_parent_{r}', list(range(1, J + 1))))
            sp = bo.job_spec(rel, parents=absolute, in_update_parents=in_update, group=0,
                             always_run=inp.choose(f'{tag}_ar_{r}', [False, True]))
            # the deprecated spelling `parent_ids` (absolute ids), sent next to the modern keys as an older client library
            # talking to this server may do
            if kind == 'legacy_self':
                sp['parent_ids'] = [absj]
            elif kind == 'legacy_later':
                sp['parent_ids'] = [absj + 1]
            elif kind == 'legacy_earlier' and absj > 1:
                sp['parent_ids'] = [absj - 1]
            sp['process']['mount_docker_socket'] = False
            specs.append(sp)
            res.append(('ic1', inp.sint(f'{tag}_cores_{r}', lo=1)))
        return specs, res

    def op_submit1(self, tag):
        fe, _ = bo.front_end()
        h = inspect.unwrap(fe.create_jobs_for_update)
        w = self.w

        def make(app):
            specs, res = self.weird_specs(self.n1, 1, 'u1', 1)
            w.job_resources = res
            req = w.request({'batch_id': '1', 'update_id': '1'}, specs)
            req.app = app
            return h(req, dict(w.userdata))
        return self.run_glue('create_jobs_for_update', make)

    def op_submit2(self, tag):
        fe, _ = bo.front_end()
        h = inspect.unwrap(fe.create_jobs_for_update)
        w = self.w
        n2 = self.later_jobs(2)

        def make(app):
            specs, res = self.weird_specs(n2, self.n1 + 1, 'u2', 2)
            w.job_resources = res
            req = w.request({'batch_id': '1', 'update_id': '2'}, specs)
            req.app = app
            return h(req, dict(w.userdata))
        return self.run_glue('create_jobs_for_update2', make)

    OPS = dict(bmc.Scenario.OPS)


Sub.OPS.update({'submit1': Sub.op_submit1, 'submit2': Sub.op_submit2})


def asserts(sc):
    db, prev = sc.db, sc.prev
    out = []
    js = {f.j: f for f in oracle.jobs(db)}
    rows = db.t['batch_updates'].rows
    ups = sorted(k[1] for k in rows)
    from vt.sqlsym.interp import is_sym as _is
    out.append(('no job or dependency row outside the id space 1..J (a job that cannot exist)',
                z3.Not(db.oob) if _is(db.oob) else (not db.oob)))
    for k, r in db.t['job_parents'].rows.items():
        j, p = k[1], k[2]
        if not (1 <= p < j):
            out.append((f'dependency ({j} <- {p}) is recorded although {p} is not an earlier job', b_not(r.present)))
    for f in js.values():
        inr = b_or(*[b_and(i_eq(f.update, u), rows[(1, u)].present, rows[(1, u)].vals['start_job_id'].v <= f.j,
                          f.j < rows[(1, u)].vals['start_job_id'].v + rows[(1, u)].vals['n_jobs'].v) for u in ups])
        out.append((f'job {f.j}: id inside its update\'s reserved range', A.imp(f.present, inr)))
        # committed job with a parent row whose parent job does not exist can never become ready
        for pid, pres in A.parents_of(db, f.j):
            # finding class accepts-dependency-on-job-of-unfinished-earlier-update: the parent id lies in the range
            # reserved by an EARLIER update whose jobs were never inserted
            earlier = b_or(*[b_and(i_eq(f.update, u), rows[(1, u)].present, pid < rows[(1, u)].vals['start_job_id'].v)
                             for u in ups])
            e = A.imp(b_and(f.present, f.committed, pres), js[pid].present)
            out.append((f'job {f.j}: committed => parent {pid} exists', e,
                        A.imp(b_and(f.present, f.committed, pres, b_not(earlier)), js[pid].present)))
    if prev is not None and sc.last_kind in ('submit1', 'submit2'):
        pj = {f.j: f for f in oracle.jobs(prev)}
        new = oracle.sum_(oracle.cnt(b_and(f.present, b_not(pj[f.j].present))) for f in js.values())
        n = sc.n1 if sc.last_kind == 'submit1' else sc.sizes.J - sc.n1
        out.append(('a bunch is inserted completely or not at all', b_or(oracle.eq(new, 0), oracle.eq(new, n))))
        out.append(('a rejected bunch leaves every table unchanged', A.imp(oracle.eq(new, 0), A.db_unchanged(prev, db))))
        # request level: a bunch in which some job NAMES itself or a later job as a parent (under whatever
        # key) is not accepted - also when the server would drop that dependency instead of recording it
        tag = 'u1' if sc.last_kind == 'submit1' else 'u2'
        named_bad = False
        for r in range(n):
            nm = f'{tag}_parent_kind_{r}'
            if sc.inp.concrete:
                named_bad = named_bad or KINDS[sc.inp.values.get(nm, 0)] in BAD_KINDS
            else:
                v = z3.Int(nm)
                named_bad = b_or(named_bad, b_or(*[v == KINDS.index(k) for k in BAD_KINDS]))
        out.append(('a bunch naming a self or later dependency is rejected', A.imp(named_bad, oracle.eq(new, 0))))
    return out


def run(R):
    import vt.sqlsym.seqcheck as seqcheck
    from vt import loader
    import ast
    R.assume(*sc_.ASSUMPTIONS)
    R.assume('specs are well-formed JSON that passes the schema validator (the real validate_and_clean_jobs runs first)',
             'dependencies are offered as: none / the previous job / the job itself / the next job / an arbitrary absolute id in '
             '1..J; bunch offset 0 or 1; one bunch per update')
    R.extra['trusted_base'] = ['z3', 'vt/sqlsym interpreter', 'vt/glue', 'environment stubs of vt/sqlsym/batchops.py']
    text = loader.read('batch/batch/front_end/validate.py')
    for n in ast.walk(ast.parse(text)):
        if isinstance(n, ast.FunctionDef) and n.name == 'validate_and_clean_jobs':
            R.encode(f'batch/batch/front_end/validate.py:{n.lineno} validate_and_clean_jobs', ast.get_source_segment(text, n))
    quick = R.tier == 'quick'
    sizes = model.Sizes(J=3, G=1, U=2, I=1, A=1, T=1, IC=1) if quick else model.Sizes(J=4, G=1, U=2, I=1, A=1, T=2, IC=1)
    orig = seqcheck.bmc.Scenario
    seqcheck.bmc.Scenario = Sub
    try:
        seqs = [('submit1', 'commit1'), ('submit1', 'commit1', 'u2_create', 'submit2', 'u2_commit'),
                ('submit1', 'submit1', 'commit1'), ('u2_create', 'submit1', 'submit2', 'commit1', 'u2_commit')]

        def classify(bad, vals, sc, known):
            if known:
                return 'accepts-dependency-on-job-of-unfinished-earlier-update'
            if any('not an earlier job' in b or 'parent' in b or 'cannot exist' in b for b in bad):
                return 'accepts-missing-later-or-self-dependency'
            if any('reserved range' in b for b in bad):
                return 'accepts-job-id-outside-reserved-range'
            return 'rejected-bunch-changes-state'
        seqcheck.run_bmc_property(R, 'C08', sizes, n1=2, g1=0, alphabet=[], depth=0, asserts=asserts, classify=classify,
                                  extra_seqs=seqs, commit=False, workers=int(os.environ.get('VERIF_WORKERS', '8')))
    finally:
        seqcheck.bmc.Scenario = orig


def replay(path):
    import vt.sqlsym.seqcheck as seqcheck
    orig = seqcheck.bmc.Scenario
    seqcheck.bmc.Scenario = Sub
    try:
        return sc_.replay_file(path, asserts)
    finally:
        seqcheck.bmc.Scenario = orig
