"""C09 — submission is idempotent under client retries (E1 sqlsym BMC + AST->z3 id arithmetic)."""
import ast
import os
import time

import z3

from props import _sqlcommon as sc_
from props import C01
from vt import loader
from vt.common import HarnessError
from vt.sqlsym import asserts as A
from vt.sqlsym import model, oracle
from vt.sqlsym.interp import GLOBAL_S as S
from vt.sqlsym.interp import b_and, b_not, b_or, i_eq, is_sym, truth
from vt.sqlsym.seqcheck import run_bmc_property

LEVEL = 'model_checking'
EXPLANATION = ('Server side: in every explored history, re-sending a request that was already sent with the same content '
               '(create_batch with the same token, create_update with the same token, the same job bunch, commit of the same '
               'update) leaves every table unchanged, also when other requests (another client\'s update 2, driver operations) '
               'happened in between; update job-id / group-id ranges are contiguous, disjoint and in update order and every '
               'job id lies in its update\'s range; counters, n_jobs and completion never double-count (the C01/C06 recount '
               'assertions are re-checked under duplicates). Client side: the absolute job / job-group id the client computes '
               '(aioclient Job._submit / JobGroup._submit, lifted from the AST) equals the id _create_jobs / '
               '_create_job_groups assign (lifted from the AST) for all integers.' + sc_.BMC_TEXT)

DUPS = {'dup_create_batch': None, 'dup_jobs1': None, 'u2_create': 'u2_create', 'u2_jobs': 'u2_jobs', 'u2_commit': 'u2_commit',
        'commit1': 'commit1'}


def asserts(sc):
    db, prev = sc.db, sc.prev
    out = []
    # ranges
    ups = sorted(k[1] for k in db.t['batch_updates'].rows)
    rows = db.t['batch_updates'].rows
    for u in ups:
        r = rows[(1, u)]
        if u == 1:
            out.append(('update 1 starts at job 1 / group 1',
                        A.imp(r.present, b_and(oracle.eq(r.vals['start_job_id'].v, 1), oracle.eq(r.vals['start_job_group_id'].v, 1)))))
        else:
            p = rows[(1, u - 1)]
            out.append((f'update {u}: ranges continue update {u - 1}',
                        A.imp(r.present, b_and(p.present,
                                               oracle.eq(r.vals['start_job_id'].v, p.vals['start_job_id'].v + p.vals['n_jobs'].v),
                                               oracle.eq(r.vals['start_job_group_id'].v,
                                                         p.vals['start_job_group_id'].v + p.vals['n_job_groups'].v)))))
    for f in oracle.jobs(db):
        inr = b_or(*[b_and(i_eq(f.update, u), rows[(1, u)].present, rows[(1, u)].vals['start_job_id'].v <= f.j,
                          f.j < rows[(1, u)].vals['start_job_id'].v + rows[(1, u)].vals['n_jobs'].v) for u in ups])
        out.append((f'job {f.j}: id inside its update\'s reserved range', A.imp(f.present, inr)))
    # no double counting
    out += [a for a in C01.asserts(sc) if a[0].startswith('user_inst_coll_resources')]
    out += A.completion(db)
    # idempotence of a repeated request
    if prev is not None and sc.is_repeat:
        out.append((f'repeated {sc.last_kind} changes no table', A.db_unchanged(prev, db)))
        # the re-sent create_batch / create_update must be ANSWERED like the original: same ids, no error (an error or a
        # fresh id is what "a second batch / update" looks like in the one-batch model)
        if sc.last_kind in ('dup_create_batch', 'u2_create') and sc.outcomes:
            lab, outs = sc.outcomes[-1]
            base = 'create_batch' if sc.last_kind == 'dup_create_batch' else lab
            first = next((o for l, o in sc.outcomes[:-1] if l == base or l.endswith(base)), None)
            key = 'id' if sc.last_kind == 'dup_create_batch' else 'update_id'
            want = {_plain(o.value.get(key)) for o in (first or []) if o.exc is None and isinstance(o.value, dict)}
            bad = []
            for o in outs:
                same = o.exc is None and isinstance(o.value, dict) and _plain(o.value.get(key)) in want
                if not same:
                    bad.append(z3.And(*o.pc) if o.pc else True)
            expr = True if not bad else (False if any(b is True for b in bad) else z3.Not(z3.Or(*bad)))
            out.append((f'repeated {sc.last_kind} is answered with the original {key} and without an error', expr))
    return out


def _plain(v):
    try:
        return int(v)
    except Exception:
        return repr(v)


def run(R):
    R.assume(*sc_.ASSUMPTIONS)
    R.assume('a retried request is byte-identical to the original (same token / same specs); HTTP transport, client-side '
             'bounded_gather of bunches (C20) and true concurrency between the two clients beyond interleaving of atomic '
             'transactions are outside the claim')
    R.extra['trusted_base'] = ['z3', 'vt/sqlsym interpreter', 'vt/glue', 'environment stubs of vt/sqlsym/batchops.py']
    client_ids(R)
    client_end_to_end(R)
    client_end_to_end(R, bunching=True)
    quick = R.tier == 'quick'
    sizes = model.Sizes(J=3, G=2, U=3, I=1, A=2, T=2, IC=1)
    w = int(os.environ.get('VERIF_WORKERS', '12'))

    if True:
        for commit in (True, False):
            alph = ['dup_create_batch', 'dup_jobs1', 'commit1', 'u2_create', 'u2_jobs', 'u2_commit', 'schedule']
            deep = [('u2_create', 'u2_jobs', 'u2_jobs', 'u2_commit', 'u2_commit'), ('u2_create', 'u2_create', 'u2_jobs', 'u2_commit'),
                    ('u2_create', 'dup_create_batch', 'u2_jobs', 'dup_jobs1', 'u2_commit')]
            if not commit:
                deep += [('dup_jobs1', 'commit1', 'commit1', 'dup_jobs1'), ('u2_create', 'u2_jobs', 'commit1', 'u2_commit', 'commit1')]
            run_bmc_property(R, 'C09', sizes, n1=2, g1=1, alphabet=alph, depth=2, asserts=asserts,
                             classify=lambda bad, vals, sc, known: sc_.KNOWN if known else 'retry-not-idempotent-or-ranges-broken',
                             extra_seqs=deep, commit=commit, workers=w)


# ---- client/server id arithmetic ----------------------------------------------------------------------
def _expr(node, env):
    if isinstance(node, ast.BinOp) and isinstance(node.op, (ast.Add, ast.Sub)):
        l, r = _expr(node.left, env), _expr(node.right, env)
        return l + r if isinstance(node.op, ast.Add) else l - r
    if isinstance(node, ast.Constant) and isinstance(node.value, int):
        return z3.IntVal(node.value)
    key = ast.unparse(node)
    if key in env:
        return env[key]
    raise HarnessError(f'id arithmetic: expression {key} not in the translatable subset')


def _find_assign(fn, target):
    for n in ast.walk(fn):
        if isinstance(n, ast.Assign) and len(n.targets) == 1 and ast.unparse(n.targets[0]) == target:
            return n.value
    raise HarnessError(f'assignment to {target} not found')


def client_ids(R):
    t0 = time.time()
    ctext = loader.read('hail/python/hailtop/batch_client/aioclient.py')
    stext = loader.read('batch/batch/front_end/front_end.py')
    ctree, stree = ast.parse(ctext), ast.parse(stext)
    rel, start = z3.Int('relative_id'), z3.Int('update_start')

    def method(tree, cls, name):
        for n in ast.walk(tree):
            if isinstance(n, ast.ClassDef) and n.name == cls:
                for m in n.body:
                    if isinstance(m, (ast.FunctionDef, ast.AsyncFunctionDef)) and m.name == name:
                        return m
        raise HarnessError(f'{cls}.{name} not found')

    def func(tree, name):
        for n in ast.walk(tree):
            if isinstance(n, (ast.FunctionDef, ast.AsyncFunctionDef)) and n.name == name:
                return n
        raise HarnessError(f'{name} not found')
    pairs = []
    cj = method(ctree, 'Job', '_submit')
    R.encode(f'hail/python/hailtop/batch_client/aioclient.py:{cj.lineno} Job._submit', ast.get_source_segment(ctext, cj))
    client_job = _expr(_find_assign(cj, 'self._job_id'), {'self._job_id': rel, 'in_update_start_job_id': start})
    sj = func(stree, '_create_jobs')
    server_job = _expr(_find_assign(sj, 'job_id'), {"spec['job_id']": rel, 'update_start_job_id': start})
    pairs.append(('job id: client Job._submit == server _create_jobs', client_job, server_job))
    server_parent = None
    for n in ast.walk(sj):
        if isinstance(n, ast.ListComp) and 'in_update_parent_ids' in ast.unparse(n):
            server_parent = _expr(n.elt, {'parent_id': rel, 'update_start_job_id': start})
    if server_parent is None:
        raise HarnessError('in-update parent id mapping not found in _create_jobs')
    pairs.append(('in-update parent id: server mapping == client job id mapping', client_job, server_parent))
    cg = method(ctree, 'JobGroup', '_submit')
    R.encode(f'hail/python/hailtop/batch_client/aioclient.py:{cg.lineno} JobGroup._submit', ast.get_source_segment(ctext, cg))
    client_grp = _expr(_find_assign(cg, 'self._job_group_id'), {'self._job_group_id': rel, 'in_update_start_job_group_id': start})
    sg = func(stree, '_create_job_groups')
    server_grp = _expr(_find_assign(sg, 'job_group_id'), {"spec['job_group_id']": rel, 'start_job_group_id': start})
    pairs.append(('job group id: client JobGroup._submit == server _create_job_groups', client_grp, server_grp))
    sgj = _find_assign(sj, 'job_group_id')
    # inside _create_jobs: job_group_id = update_start_job_group_id + in_update_job_group_id - 1 (second assignment)
    cands = [n.value for n in ast.walk(sj) if isinstance(n, ast.Assign) and ast.unparse(n.targets[0]) == 'job_group_id'
             and isinstance(n.value, ast.BinOp)]
    if not cands:
        raise HarnessError('in-update job group mapping not found in _create_jobs')
    server_jg = _expr(cands[0], {'in_update_job_group_id': rel, 'update_start_job_group_id': start})
    pairs.append(('in-update job group of a job: server mapping == client group id mapping', client_grp, server_jg))
    for name, a, b in pairs:
        s = z3.Solver()
        s.add(a != b)
        t = time.time()
        r = str(s.check())
        if r == 'unsat':
            R.ob(name, 'discharged', time.time() - t, nontrivial=True)
        elif r == 'sat':
            m = s.model()
            wit = {'relative_id': m.eval(rel, model_completion=True).as_long(), 'update_start': m.eval(start, model_completion=True).as_long(),
                   'client': m.eval(a, model_completion=True).as_long(), 'server': m.eval(b, model_completion=True).as_long()}
            st = R.finding('client-server-id-arithmetic-differs', f'{name}: {wit}', {'kind': 'ids', 'witness': wit})
            R.ob(name, st, time.time() - t, wit, nontrivial=True)
        else:
            R.ob(name, 'not_discharged', time.time() - t)
    R.sample({'layer': 'id arithmetic', 'pairs': [p[0] for p in pairs], 'secs': round(time.time() - t0, 2)})


def client_end_to_end(R, bunching=False, pid='C09', cls='client-ids-differ-from-server-ids'):
    """the real aioclient.Batch against the real handlers: ids the client computes == ids the server assigned"""
    import z3
    from harness import C09_client as cc
    t0 = time.time()
    thorough = R.tier != 'quick'
    n, results, choice_vars = cc.explore(thorough, bunching=bunching)
    text = loader.read('hail/python/hailtop/batch_client/aioclient.py')
    for nd in ast.walk(ast.parse(text)):
        if isinstance(nd, (ast.FunctionDef, ast.AsyncFunctionDef)) and nd.name in ('_submit', 'submit', '_create_fast', '_update_fast',
                                                                                  '_commit_update', '_open_batch', '_create_update',
                                                                                  '_create_job', '_create_job_group'):
            R.encode(f'hail/python/hailtop/batch_client/aioclient.py:{nd.lineno} {nd.name}', ast.get_source_segment(text, nd))
    if n < 50:
        raise HarnessError('client end-to-end: too few shapes explored (vacuous)')
    status = 'discharged'
    seen = set()
    for pc, bad in results:
        kind = ' '.join(w for w in bad[0].split() if not w.isdigit())[:60]
        if kind in seen or len(seen) >= 3:
            continue
        seen.add(kind)
        s = z3.Solver()
        s.add(*pc)
        s.add(*[z3.And(v >= 0, v < len(opts)) for v, opts in choice_vars.values()])
        if str(s.check()) != 'sat':
            raise HarnessError('client end-to-end: violating path has an unsatisfiable path condition')
        m = s.model()
        vals = {name: m.eval(v, model_completion=True).as_long() for name, (v, opts) in choice_vars.items()}
        try:
            again = cc.replay_choices(vals, thorough, bunching)
        except Exception as e:
            again = [f'session raised {type(e).__name__}: {e}']
        if not again:
            raise HarnessError(f'client end-to-end: violation does not reproduce on a concrete re-run: {bad[:2]}')
        status = R.finding(cls, f'{again[0]} (shape {vals})',
                           {'kind': 'client', 'choices': vals, 'thorough': thorough, 'bunching': bunching, 'violations': again})
    R.ob(f'client end to end{" (bunches cut by the byte limit)" if bunching else ""}: {n} session shapes (jobs/groups per submit, fast vs multi-bunch path, parents, one retried '
         f'request): client ids == server ids, parents and groups recorded as the client meant, no duplicated job',
         status, time.time() - t0, {'shapes': n, 'observations': sorted(set(cc.OBSERVATIONS))}, nontrivial=True)
    R.sample({'layer': 'client end to end', 'shapes': n, 'observations': sorted(set(cc.OBSERVATIONS))})


def replay(path):
    import json
    d = json.load(open(path))['replay']
    if d.get('kind') == 'client':
        from harness import C09_client as cc
        bad = cc.replay_choices(d['choices'], d.get('thorough', False), d.get('bunching', False))
        print(bad)
        return 1 if bad else 0
    return sc_.replay_file(path, asserts)
