"""C07 — cancellation stops work in the cancelled subtree only (E1 sqlsym BMC)."""
import z3

from props import _sqlcommon as sc_
from vt.sqlsym import asserts as A
from vt.sqlsym import oracle
from vt.sqlsym.interp import GLOBAL_S as S
from vt.sqlsym.interp import b_and, b_not, b_or, i_eq, is_sym, truth

LEVEL = 'model_checking'
EXPLANATION = ('After every operation: (1) a job whose group or an ancestor group was cancelled before the operation, and that is '
               'not always-run, is not moved into Creating or Running by it; (2) no job or job-group row appears under a '
               'group that was cancelled before the operation, and a rejected bunch inserts nothing; (3) cancelling an '
               'already-cancelled group changes no table; (4) a cancellation leaves the cancelled-effective status of every '
               'job outside the cancelled subtree unchanged; (5) schedule_job / mark_job_creating / mark_job_started answer '
               'with a result row (no SQL error) under any combination of cancelled groups.' + sc_.BMC_TEXT)

ALPH = ['schedule', 'creating', 'started', 'complete', 'unschedule', 'cancel_group', 'u2_create', 'u2_groups', 'u2_jobs']
DEEP = [
    ('cancel_group', 'cancel_group', 'schedule'),
    ('cancel_group', 'u2_create', 'u2_groups', 'u2_jobs'),
    ('u2_create', 'u2_groups', 'cancel_group', 'u2_jobs'),
    ('u2_create', 'u2_group1', 'cancel_group', 'u2_group2'),     # second group bunch names the first by its in-update id
    ('u2_create', 'cancel_group', 'u2_group1', 'u2_group2', 'u2_jobs'),
    ('u2_create', 'cancel_group', 'u2_groups', 'u2_jobs', 'u2_commit') if False else ('u2_create', 'cancel_group', 'u2_groups', 'u2_jobs'),
    ('schedule', 'cancel_group', 'started', 'complete'),
    ('creating', 'cancel_group', 'schedule', 'cancel_group'),
    ('creating', 'cancel_group', 'activate', 'schedule'),      # job-private: instance activates after the cancel, same attempt
    ('creating', 'activate', 'cancel_group', 'schedule'),
]


def asserts(sc):
    db, prev = sc.db, sc.prev
    out = []
    if prev is None:
        return [('prefix: no group cancelled', b_not(b_or(*[r.present for r in db.t['job_groups_cancelled'].rows.values()])))]
    pj = {f.j: f for f in oracle.jobs(prev)}
    for f in oracle.jobs(db):
        o = pj[f.j]
        moved_in = b_or(b_and(f.in_state('Creating'), b_not(o.in_state('Creating'))),
                        b_and(f.in_state('Running'), b_not(o.in_state('Running'))))
        out.append((f'job {f.j}: not moved into Creating/Running while in a cancelled group',
                    A.imp(b_and(o.present, f.present, moved_in, b_not(o.always_run)), b_not(o.group_cancelled))))
        # (2) no new job under a group that was already cancelled
        grp_c_prev = b_or(*[b_and(i_eq(f.group, g), oracle.group_cancelled(prev, g)) for g in oracle.groups(prev)])
        out.append((f'job {f.j}: not inserted under an already cancelled group',
                    A.imp(b_and(f.present, b_not(o.present)), b_not(grp_c_prev))))
    # new job groups: parent chain not cancelled before
    for g in oracle.groups(db):
        r, pr = db.t['job_groups'].rows[(1, g)], prev.t['job_groups'].rows[(1, g)]
        anc_c = b_or(*[b_and(oracle.is_ancestor(db, g, a), prev.t['job_groups_cancelled'].rows[(1, a)].present)
                       for a in oracle.groups(db) if a != g])
        out.append((f'group {g}: not created under an already cancelled group', A.imp(b_and(r.present, b_not(pr.present)), b_not(anc_c))))
    if sc.last_kind == 'u2_jobs':
        n2 = sc.sizes.J - sc.n1
        new = oracle.sum_(oracle.cnt(b_and(f.present, b_not(pj[f.j].present))) for f in oracle.jobs(db))
        out.append(('a job bunch is inserted completely or not at all', b_or(oracle.eq(new, 0), oracle.eq(new, n2))))
    if sc.last_kind == 'cancel_group':
        g = sc.last_args['group']
        already = b_or(*[b_and(i_eq(g, h), oracle.group_cancelled(prev, h)) for h in oracle.groups(prev)])
        out.append(('repeating a cancellation changes nothing', A.imp(already, A.db_unchanged(prev, db))))
        for f in oracle.jobs(db):
            o = pj[f.j]
            inside = b_or(*[b_and(i_eq(g, h), o.in_subtree(prev, h)) for h in oracle.groups(prev)])
            same = (f.cancelled == o.cancelled) if (is_sym(f.cancelled) or is_sym(o.cancelled)) else (f.cancelled == o.cancelled)
            out.append((f'job {f.j}: outside the cancelled subtree its cancelled status is unchanged',
                        A.imp(b_and(o.present, b_not(inside)), same)))
    if sc.last_kind == 'cancel_group' and sc.outcomes:
        # an ACCEPTED cancellation (the handler returned normally) is recorded: the group is cancelled afterwards, whatever the
        # state of the batch (not yet committed, running, complete) - otherwise later work in it is accepted and runs
        g = sc.last_args['group']
        now = b_or(*[b_and(i_eq(g, h), oracle.group_cancelled(db, h)) for h in oracle.groups(db)])
        for o in sc.outcomes[-1][1]:
            if o.exc is None:
                pc = z3.And(*o.pc) if o.pc else True
                out.append(('an accepted cancellation is recorded (the group is cancelled afterwards)', A.imp(pc, now)))
    if sc.last_kind in ('schedule', 'creating', 'started'):
        res = sc.last_result
        rc = res.col('rc')
        out.append((f'{sc.last_kind}: answered with a result row, no SQL error',
                    b_and(b_not(res.errcond), b_not(rc.n))))
    return out


def run(R):
    from vt.sqlsym import model
    import os
    from vt.sqlsym.seqcheck import run_bmc_property
    R.assume(*sc_.ASSUMPTIONS)
    R.extra['trusted_base'] = ['z3', 'vt/sqlsym interpreter', 'vt/glue', 'environment stubs of vt/sqlsym/batchops.py']
    quick = R.tier == 'quick'
    sizes = model.Sizes(J=3, G=4, U=2, I=1, A=2, T=2, IC=1) if quick else model.Sizes(J=4, G=4, U=2, I=2, A=2, T=2, IC=1)
    run_bmc_property(R, 'C07', sizes, n1=2, g1=1, alphabet=[a for a in ALPH if not a.startswith('u2_')] if quick else ALPH,
                     depth=2, asserts=asserts, classify=lambda bad, vals, sc, known: 'cancellation-confinement-violated',
                     extra_seqs=DEEP, workers=int(os.environ.get('VERIF_WORKERS', '12')))
    # cancellations that arrive while the batch is not running: before update 1 is committed
    run_bmc_property(R, 'C07', model.Sizes(J=3, G=2, U=2, I=1, A=2, T=2, IC=1), n1=2, g1=1, alphabet=['cancel_group', 'commit1', 'schedule'],
                     depth=2, asserts=asserts, classify=lambda bad, vals, sc, known: 'cancellation-confinement-violated',
                     commit=False, extra_seqs=[('cancel_group', 'commit1', 'schedule'), ('cancel_group', 'commit1', 'creating')],
                     workers=int(os.environ.get('VERIF_WORKERS', '12')))


def replay(path):
    return sc_.replay_file(path, asserts)
