"""C38 — combiner: (a) even genome partitioning (E3 pyk, z3/cvc5), (b) merge plan (E2 CrossHair, harness/C38_planrun.py)."""
import ast
import importlib
import inspect
import json
import math
import os
import time

import z3

from vt import loader, pyk
from vt.common import HarnessError

LEVEL = 'other'
EXPLANATION = (
    '(a) The real nested function calculate_even_genome_partitioning.calc_parts is re-read from /repo and evaluated '
    'symbolically (vt/pyk.py). Bounded family: contig length L and interval_size both symbolic (L <= 12 quick, <= 64 '
    'thorough), loop unwound with an unwinding assertion; math.ceil(a/b) is read as the integer ceiling, justified on the '
    'whole bounded domain by a Float64 lemma (fp.div RNE, to_sbv RTP) decided in the same run; SMT queries decide that the inclusive intervals are contiguous from 1, end at L, and are no longer than interval_size. '
    'Unbounded family: for the REAL GRCh37/GRCh38 contig lengths (from hail/hail/resources/reference/*.json) and every '
    'interval_size in [1, 2^31), the while loop is cut at its head with the invariant "positions 1..n-1 are covered, '
    'n = 1 + i*stride or n = L+1" (stride obtained by symbolic execution of the first iteration); base, step (one symbolic '
    'iteration of the real body) and exit obligations are nonlinear integer (QF_NIA) queries; math.ceil(L/x) is read as the integer ceiling, '
    'justified per contig length by a Float64 lemma decided by z3 4.8.12/cvc5. Counterexamples are replayed on the real '
    'function with a real hl.ReferenceGenome. (b) CrossHair on the real VariantDatasetCombiner with ghost datasets, see '
    'harness/C38_planrun.py; bounded input counts.'
)

COMBINE = 'hail/python/hail/vds/combiner/combine.py'
REFS = {'GRCh37': 'hail/hail/resources/reference/grch37.json', 'GRCh38': 'hail/hail/resources/reference/grch38.json'}
CONTIGS = {'GRCh37': [str(i) for i in range(1, 23)] + ['X', 'Y', 'MT'],
           'GRCh38': [f'chr{i}' for i in range(1, 23)] + ['chrX', 'chrY', 'chrM']}

# finding classes = predicates over (intervals, L, size); evaluated on the REAL output when a counterexample is replayed
CLS_NOT_CONTIG = 'partition-not-contiguous'
CLS_ONE_LONG = 'partition-interval-one-base-longer-than-requested'
CLS_LONG = 'partition-interval-exceeds-requested-size-by-more-than-one'
CLS_LAST = 'partition-drops-last-base-of-contig'
CLS_TAIL = 'partition-leaves-more-than-last-base-uncovered'
CLS_RAISE = 'partition-raises-or-loops'


class StubRG:
    """what calc_parts reads of a ReferenceGenome: .lengths[contig]"""

    def __init__(self, name, lengths):
        self.name = name
        self.lengths = lengths


def load_real():
    loader.install()
    hl = importlib.import_module('hail')
    comb = importlib.import_module('hail.vds.combiner.combine')
    return hl, comb


def find_nodes():
    text = loader.read(COMBINE)
    tree = ast.parse(text)
    outer = [n for n in tree.body if isinstance(n, ast.FunctionDef) and n.name == 'calculate_even_genome_partitioning']
    if not outer:
        raise HarnessError('calculate_even_genome_partitioning not found')
    outer = outer[0]
    inner = [n for n in outer.body if isinstance(n, ast.FunctionDef) and n.name == 'calc_parts']
    if not inner:
        raise HarnessError('calc_parts not found')
    return text, outer, inner[0]


def bind(sig_fn, op):
    """bind an Opaque constructor call against the real signature -> dict of arguments (defaults applied)"""
    sig = inspect.signature(sig_fn)
    ba = sig.bind(None, *op.args, **op.kwargs)
    ba.apply_defaults()
    return ba.arguments


def interval_bounds(hl, it, iv, contig, rg):
    """Opaque Interval -> (lo, hi) BV terms of the inclusive integer range it denotes; None if it is malformed."""
    if not isinstance(iv, pyk.Opaque) or iv.tag != 'Interval':
        return None
    a = bind(hl.Interval.__init__, iv)
    ends = []
    for key in ('start', 'end'):
        loc = a[key]
        if not isinstance(loc, pyk.Opaque) or loc.tag != 'Locus':
            return None
        la = bind(hl.Locus.__init__, loc)
        if la['contig'] != contig or la['reference_genome'] is not rg:
            return None
        ends.append(it.it(la['position']))
    for k in ('includes_start', 'includes_end'):
        if not isinstance(a[k], bool):
            return None
    lo = ends[0] if a['includes_start'] else ends[0] + it.bv(1)
    hi = ends[1] if a['includes_end'] else ends[1] - it.bv(1)
    return lo, hi


# ---- concrete side: the real function and the property on its output -------------------------------
_RG_CACHE = {}


def real_intervals(name, contig, L, size):
    """Run the REAL calculate_even_genome_partitioning on a real ReferenceGenome named `name` whose contig
    `contig` has length L; returns the inclusive (lo, hi) ranges produced for that contig, or an exception text."""
    hl, comb = load_real()
    cfgpath = loader.src(REFS[name])
    cfg = json.load(open(cfgpath))
    want = set(CONTIGS[name])
    cfg['contigs'] = [dict(c, length=(L if c['name'] == contig else min(c['length'], 3))) for c in cfg['contigs']
                      if c['name'] in want]
    cfg['par'] = []
    rg = hl.ReferenceGenome._from_config(cfg, True)
    try:
        out = comb.calculate_even_genome_partitioning(rg, size)
    except Exception as e:
        return f'{type(e).__name__}: {e}'
    res = []
    for iv in out:
        if iv.start.contig != contig:
            continue
        if iv.end.contig != contig:
            return 'interval spans contigs'
        lo = iv.start.position if iv.includes_start else iv.start.position + 1
        hi = iv.end.position if iv.includes_end else iv.end.position - 1
        res.append((lo, hi))
    return res


def classify(ivs, L, size):
    """The property on a concrete output -> set of violated classes (empty = holds)."""
    if isinstance(ivs, str):
        return {CLS_RAISE}
    out = set()
    contiguous = True
    prev = 0
    for lo, hi in ivs:
        if lo != prev + 1 or hi < lo or hi > L:
            contiguous = False
        prev = hi
    if not contiguous:
        out.add(CLS_NOT_CONTIG)
    lens = [hi - lo + 1 for lo, hi in ivs]
    if any(x > size for x in lens):
        out.add(CLS_ONE_LONG if all(x <= size + 1 for x in lens) else CLS_LONG)
    last = ivs[-1][1] if ivs else 0
    if last != L:
        out.add(CLS_LAST if (contiguous and last == L - 1) else CLS_TAIL)
    return out


# ---- solving helper ----------------------------------------------------------------------------------
def decide(assertions, fp, timeout):
    txt = pyk.smt2(assertions, 'QF_BVFP' if fp else 'QF_BV')
    return pyk.portfolio(txt, ('z3old', 'cvc5') if fp else ('z3new', 'cvc5'), timeout)


class Reporter:
    def __init__(self, R):
        self.R = R
        self.cache = {}

    def counterexample(self, name, dt, genome, contig, L, size, target_classes, solver, inductive=False):
        """Replay (L, size) on the real function; report under the class evaluated on the REAL output."""
        R = self.R
        ivs = real_intervals(genome, contig, L, size)
        got = classify(ivs, L, size)
        hit = got & set(target_classes)
        if not hit:
            if inductive and not got:
                R.ob(name, 'not_discharged', dt, {'note': 'inductive counterexample (loop-head state) does not reproduce on '
                                                  'the real function: invariant too weak', 'L': L, 'size': size})
                return
            if not got:
                raise HarnessError(f'{name}: counterexample L={L} size={size} does not reproduce on the real function '
                                   f'(intervals {ivs if isinstance(ivs, str) else ivs[:4]})')
            if not inductive:
                raise HarnessError(f'{name}: real output violates {sorted(got)} but the encoding predicted '
                                   f'{sorted(target_classes)} (L={L} size={size})')
            hit = got
        shown = ivs if isinstance(ivs, str) else (ivs if len(ivs) <= 6 else ivs[:3] + ['...'] + ivs[-2:])
        for cls in sorted(hit):
            what = (f'calculate_even_genome_partitioning({genome}, interval_size={size}) with contig {contig!r} of length '
                    f'{L} yields {shown}')
            if cls not in self.cache:
                self.cache[cls] = R.finding(cls, what, {'genome': genome, 'contig': contig, 'L': L, 'size': size, 'class': cls})
            R.ob(name if len(hit) == 1 else f'{name} <{cls}>', self.cache[cls], dt,
                 {'L': L, 'size': size, 'intervals': str(shown), 'class': cls, 'solver': solver}, nontrivial=True)
            R.sample({'L': L, 'interval_size': size, 'real_output': str(shown), 'class': cls})


# ---- family 1: bounded, everything symbolic ---------------------------------------------------------------
def bounded_family(R, rep, Lmax):
    hl, comb = load_real()
    text, outer, node = find_nodes()
    t0 = time.time()
    def lemma_domain(i, a, b):
        # the Float64 lemma below is proved for 1 <= a <= Lmax, 1 <= b <= Lmax+1
        i.add_side(z3.And(i.it(a) >= 1, i.it(a) <= Lmax, i.it(b) >= 1, i.it(b) <= Lmax + 1), 'ceil lemma domain')
    it = pyk.Interp(width=32, max_unwind=Lmax + 1, opaque={id(hl.Interval): 'Interval', id(hl.Locus): 'Locus'},
                    feas_timeout_ms=5000, ceil_cut=lemma_domain)
    L = it.int_var('L')
    S = it.int_var('size')
    it.assume(z3.And(L.t >= 1, L.t <= Lmax, S.t >= 1, S.t <= Lmax + 1))
    rg = StubRG('GRCh37', {'1': L})
    env = pyk.Env()
    env.vars.update(reference_genome=rg, interval_size=S)
    globs = vars(comb)
    paths = it.explore(lambda i: i.call_node(node, ['1'], {}, globs, env))
    # Float64 lemma: CPython's math.ceil(a / b) equals the integer ceiling on the whole bounded domain
    la, lb = z3.BitVec('a', 32), z3.BitVec('b', 32)
    q = z3.fpDiv(pyk.RNE, z3.fpSignedToFP(pyk.RNE, la, pyk.F64), z3.fpSignedToFP(pyk.RNE, lb, pyk.F64))
    r, model, dt, solver = decide([la >= 1, la <= Lmax, lb >= 1, lb <= Lmax + 1,
                                   z3.fpToSBV(z3.RTP(), q, z3.BitVecSort(32)) != z3.UDiv(la + lb - 1, lb)], True, 300)
    lname = f'Float64 lemma: math.ceil(a/b) == ceil-div for 1 <= a <= {Lmax}, 1 <= b <= {Lmax + 1}'
    if r == 'sat' and math.ceil(model['a'] / model['b']) == -((-model['a']) // model['b']):
        raise HarnessError(f'{lname}: solver model is not a counterexample under CPython')
    lem_ok = r == 'unsat'
    R.ob(lname, 'discharged' if lem_ok else 'not_discharged', dt, {'solver': solver, 'result': r, 'uses': len(it.lemmas)},
         nontrivial=True)
    R.log(f'[C38a] bounded L<={Lmax}: {len(paths)} paths, {it.feas_queries} feasibility queries, {time.time() - t0:.1f}s')
    pre = list(it.pre)
    one = it.bv(1)
    bad_flow, not_contig, long1, longn, last1, tailn, holds = [], [], [], [], [], [], []
    per_path = []
    for p in paths:
        pc = z3.And(*p.pc) if p.pc else z3.BoolVal(True)
        if p.kind != 'return' or not isinstance(p.value, list):
            bad_flow.append(pc)
            continue
        bounds = [interval_bounds(hl, it, iv, '1', rg) for iv in p.value]
        if any(b is None for b in bounds):
            bad_flow.append(pc)
            continue
        side = z3.And(*p.side) if p.side else z3.BoolVal(True)
        cont = [z3.BoolVal(True)]
        prev = it.bv(0)
        for lo, hi in bounds:
            cont += [lo == prev + one, lo <= hi, hi <= L.t]
            prev = hi
        contiguous = z3.And(*cont)
        lens = [hi - lo + one for lo, hi in bounds]
        sized = z3.And(*[x <= S.t for x in lens]) if lens else z3.BoolVal(True)
        sized1 = z3.And(*[x <= S.t + one for x in lens]) if lens else z3.BoolVal(True)
        covered = prev == L.t
        klast = z3.And(contiguous, prev == L.t - one)
        not_contig.append(z3.And(pc, z3.Or(z3.Not(side), z3.Not(contiguous))))
        long1.append(z3.And(pc, side, z3.Not(sized), sized1))
        longn.append(z3.And(pc, side, z3.Not(sized), z3.Not(sized1)))
        last1.append(z3.And(pc, side, z3.Not(covered), klast))
        tailn.append(z3.And(pc, side, z3.Not(covered), z3.Not(klast)))
        holds.append(z3.And(pc, side, contiguous, sized, covered))
        per_path.append((p, pc, bounds))
    R.states += len(paths)

    def orr(xs):
        return z3.Or(*xs) if len(xs) > 1 else (xs[0] if xs else z3.BoolVal(False))

    # reachability twin: some input reaches a normal return with at least two intervals
    tw = z3.Solver()
    tw.set('timeout', 60000)
    tw.add(*pre)
    tw.add(orr([pc for p, pc, b in per_path if len(b) >= 2]))
    reach = str(tw.check()) == 'sat'
    queries = [
        ('terminates within the unwinding bound, returns well-formed intervals', orr(bad_flow), [CLS_RAISE]),
        ('intervals contiguous from 1, non-empty, within [1,L]', orr(not_contig), [CLS_NOT_CONTIG]),
        ('no interval longer than interval_size [outside class one-base-longer]', orr(longn), [CLS_LONG]),
        ('no interval longer than interval_size [class: exactly one base longer]', orr(long1), [CLS_ONE_LONG]),
        ('last interval ends at L [outside class last-base-dropped]', orr(tailn), [CLS_TAIL]),
        ('last interval ends at L [class: exactly the last base dropped]', orr(last1), [CLS_LAST]),
    ]
    for label, vio, classes in queries:
        name = f'calc_parts, L<={Lmax}, size<={Lmax + 1} symbolic: {label}'
        if z3.is_false(vio):
            R.ob(name, 'discharged' if (reach and lem_ok) else 'not_discharged', 0.0, {'note': 'no such path'}, nontrivial=reach)
            continue
        r, model, dt, solver = decide(pre + [vio], False, 300)
        if r == 'unsat':
            R.ob(name, 'discharged' if (reach and lem_ok) else 'not_discharged', dt, {'solver': solver}, nontrivial=reach)
        elif r == 'sat':
            rep.counterexample(name, dt, 'GRCh37', '1', model['L'], model['size'], classes, solver)
        elif r == 'error':
            raise HarnessError(f'{name}: solver error {str(model)[:400]}')
        else:
            R.ob(name, 'not_discharged', dt, {'solver': solver, 'result': r})

    # translator validation: solver-chosen (L, size) per path (spread over the paths) and one model of "property holds";
    # the symbolic intervals evaluated at the model must equal the real function's output exactly
    pick = per_path[:: max(1, len(per_path) // (6 if R.tier == 'quick' else 16))]
    extra = []
    sol = z3.Solver()
    sol.set('timeout', 30000)
    sol.add(*pre)
    sol.add(orr(holds))
    if str(sol.check()) == 'sat':
        m = sol.model()
        extra.append((m.eval(L.t, model_completion=True).as_long(), m.eval(S.t, model_completion=True).as_long()))
    for p, pc, bounds in pick:
        sol = z3.Solver()
        sol.set('timeout', 30000)
        sol.add(*pre)
        sol.add(pc)
        if str(sol.check()) == 'sat':
            m = sol.model()
            extra.append((m.eval(L.t, model_completion=True).as_long(), m.eval(S.t, model_completion=True).as_long()))
    for lv, sv in extra:
        asg = {L.t: lv, S.t: sv}
        real = real_intervals('GRCh37', '1', lv, sv)
        enc = None
        for p, pc, bounds in per_path:
            if pyk.eval_term(pc, asg):
                enc = [(pyk.eval_term(lo, asg), pyk.eval_term(hi, asg)) for lo, hi in bounds]
        R.validation_points += 1
        if enc != real:
            raise HarnessError(f'translator validation: L={lv} size={sv}: encoded {enc} real {real}')


# ---- family 2: real contig lengths, every interval_size, loop cut with an invariant ----------------------
def inductive_contig(R, rep, genome, contig, Lc, lemma_cache, timeout, lemma_for=()):
    hl, comb = load_real()
    text, outer, node = find_nodes()
    whiles = [s for s in node.body if isinstance(s, ast.While)]
    if len(whiles) != 1 or whiles[0].orelse:
        raise HarnessError('calc_parts: expected exactly one top-level while loop')
    loop = whiles[0]
    k = node.body.index(loop)
    prelude, post = node.body[:k], node.body[k + 1:]
    if len(post) != 1 or not isinstance(post[0], ast.Return) or not isinstance(post[0].value, ast.Name):
        raise HarnessError('calc_parts: expected `return <list>` right after the loop')
    res_name = post[0].value.id
    assigned = {n.id for s in loop.body for n in ast.walk(s) if isinstance(n, ast.Name) and isinstance(n.ctx, ast.Store)}
    read_in_test = {n.id for n in ast.walk(loop.test) if isinstance(n, ast.Name)}
    carried = sorted(assigned & read_in_test)
    if len(carried) != 1:
        raise HarnessError(f'calc_parts: expected one loop-carried position variable, found {carried}')
    nvar = carried[0]
    SMAX = 1 << 31
    tag = f'{genome}:{contig} L={Lc}'

    def lemma_domain(i, a, b):
        # the per-contig Float64 lemma is proved for numerator L and 1 <= b < 2^31
        i.add_side(z3.And(i.it(b) >= 1, i.it(b) < SMAX), 'ceil lemma domain')

    def setup(it):
        S = it.int_var('size')
        it.assume(z3.And(S.t >= 1, S.t < SMAX))
        rg = StubRG(genome, {contig: Lc})
        env0 = pyk.Env()
        env0.vars.update(reference_genome=rg, interval_size=S)
        return S, rg, env0

    def mk():
        return pyk.Interp(int_mode='int', opaque={id(hl.Interval): 'Interval', id(hl.Locus): 'Locus'}, ceil_cut=lemma_domain,
                          feas_timeout_ms=4000)

    globs = vars(comb)

    def run_prelude(it, env0):
        env = pyk.Env(env0)
        a = node.args
        env.vars[a.args[0].arg] = contig
        for s in prelude:
            it.stmt(s, env, globs)
        return env

    def body_once(it, env, rg):
        """branch on the loop test; True: run the body once.  Returns ('step', appended bounds, n') | ('exit',)"""
        lst = env.lookup(res_name)[1]
        if not isinstance(lst, list):
            raise HarnessError('calc_parts: result is not a list built before the loop')
        before = len(lst)
        if it.branch(it.truth(it.eval(loop.test, env, globs))):
            it.block(loop.body, env, globs)
            new = lst[before:]
            bs = [interval_bounds(hl, it, iv, contig, rg) for iv in new]
            if any(b is None for b in bs):
                raise pyk.PyRaise('Malformed', 'interval')
            return ('step', bs, it.it(env.lookup(nvar)[1]))
        return ('exit',)

    # -- run 1: base state and first iteration (stride) ------------------------------------------------
    it1 = mk()
    S1, rg1, env01 = setup(it1)

    def thunk1(it):
        env = run_prelude(it, env01)
        base = env.lookup(nvar)[1]
        lst = env.lookup(res_name)[1]
        if lst != []:
            raise HarnessError('calc_parts: result list not empty before the loop')
        return (base, body_once(it, env, rg1))
    paths1 = it1.explore(thunk1)
    stride_cases = []   # (pc, stride term) for the first iteration
    base_val = None
    for p in paths1:
        if p.kind != 'return':
            continue
        base, out = p.value
        base_val = base
        if out[0] == 'step':
            stride_cases.append((z3.And(*p.pc) if p.pc else z3.BoolVal(True), out[2] - it1.it(base)))
    name = f'{tag}: loop starts at position 1 with nothing covered'
    if isinstance(base_val, int) and base_val == 1:
        R.ob(name, 'discharged', 0.0, nontrivial=True)
    else:
        R.ob(name, 'not_discharged', 0.0, {'base': str(base_val)})
        return [], (lambda res: None)
    # the FP lemma behind the integer reading of math.ceil(L / x) is posted by part_a (once per distinct length)
    jobs = []
    for a, b in it1.lemmas:
        if not (isinstance(a, int) and a == Lc):
            raise HarnessError('calc_parts: math.ceil(a/b) with a numerator other than the contig length')
    need_lemma = bool(it1.lemmas)
    if need_lemma:
        lemma_cache.setdefault(Lc, None)

    # -- run 2: arbitrary loop-head state satisfying the invariant ----------------------------------------
    it2 = mk()
    S2, rg2, env02 = setup(it2)
    n0 = it2.int_var('n0')
    i0 = it2.int_var('i0')      # ghost: number of strides taken so far
    Lt = it2.bv(Lc)
    one = it2.bv(1)

    def thunk2(it):
        env = run_prelude(it, env02)
        first = body_once(it, env, rg2)       # same first iteration as run 1, gives the stride as a term in `size`
        if first[0] != 'step':
            return ('short',)
        stride = first[2] - one
        # havoc: back to an arbitrary loop head
        env.vars[nvar] = n0
        lst = env.lookup(res_name)[1]
        del lst[:]
        return ('head', stride, body_once(it, env, rg2))
    paths2 = it2.explore(thunk2)
    R.states += len(paths1) + len(paths2)
    pre = list(it2.pre)
    bad_flow, v_contig, v_long1, v_longn, v_inv, v_exit1, v_exitn, reach_step, reach_exit = [], [], [], [], [], [], [], [], []
    for p in paths2:
        pc = z3.And(*p.pc) if p.pc else z3.BoolVal(True)
        if p.kind != 'return':
            bad_flow.append(pc)
            continue
        if p.value[0] == 'short':
            # the very first test fails: nothing is produced for a contig of length >= 1
            v_exitn.append(pc)
            continue
        _, stride, out = p.value
        side = z3.And(*p.side) if p.side else z3.BoolVal(True)

        def inv(n, i):
            return z3.And(n >= one, n <= Lt + one, stride >= one, i >= 0, z3.Or(n == one + i * stride, n == Lt + one))
        if out[0] == 'step':
            bs, n1 = out[1], out[2]
            cont = [z3.BoolVal(True)]
            prev = n0.t - one
            for lo, hi in bs:
                cont += [lo == prev + one, lo <= hi, hi <= Lt]
                prev = hi
            cont += [n1 == prev + one, n1 > n0.t]
            if not bs:
                cont.append(z3.BoolVal(False))
            lens = [hi - lo + one for lo, hi in bs]
            sized = z3.And(*[x <= S2.t for x in lens]) if lens else z3.BoolVal(True)
            sized1 = z3.And(*[x <= S2.t + one for x in lens]) if lens else z3.BoolVal(True)
            base = z3.And(pc, inv(n0.t, i0.t))
            reach_step.append(base)
            v_contig.append(z3.And(base, z3.Or(z3.Not(side), z3.Not(z3.And(*cont)))))
            v_long1.append(z3.And(base, side, z3.Not(sized), sized1))
            v_longn.append(z3.And(base, side, z3.Not(sized), z3.Not(sized1)))
            v_inv.append(z3.And(base, side, z3.And(*cont), z3.Not(inv(n1, i0.t + one))))
        else:
            base = z3.And(pc, inv(n0.t, i0.t))
            reach_exit.append(base)
            v_exit1.append(z3.And(base, n0.t == Lt))
            v_exitn.append(z3.And(base, n0.t != Lt, n0.t != Lt + one))

    def orr(xs):
        return z3.Or(*xs) if len(xs) > 1 else (xs[0] if xs else z3.BoolVal(False))

    def sat_quick(f):
        s = z3.Solver()
        s.set('timeout', 20000)
        s.add(*pre)
        s.add(f)
        return str(s.check()) == 'sat'   # 'unknown' counts as "not shown reachable"

    r_step, r_exit = sat_quick(orr(reach_step)), sat_quick(orr(reach_exit))
    queries = [
        ('step: body terminates and builds well-formed intervals', orr(bad_flow), [CLS_RAISE], r_step),
        ('step: the appended interval starts at n, is non-empty, ends <= L, and n\' = end+1 > n', orr(v_contig), [CLS_NOT_CONTIG], r_step),
        ('step: appended interval no longer than interval_size [outside class one-base-longer]', orr(v_longn), [CLS_LONG], r_step),
        ('step: appended interval no longer than interval_size [class: exactly one base longer]', orr(v_long1), [CLS_ONE_LONG], r_step),
        ('step: closed-form invariant n = 1 + i*stride or n = L+1 is preserved', orr(v_inv), None, r_step),
        ('exit: loop leaves only when n = L+1 [outside class last-base-dropped]', orr(v_exitn), [CLS_TAIL], r_exit),
        ('exit: loop leaves only when n = L+1 [class: n = L, exactly the last base dropped]', orr(v_exit1), [CLS_LAST], r_exit),
    ]
    lemma_note = '' if (not need_lemma or Lc in lemma_for) else ' [ceil lemma for this L assumed]'
    plan = []
    # counterexamples are searched first where the REAL function can be replayed (at most ~200000 intervals)
    replayable = S2.t * 200000 >= Lt
    for label, vio, classes, reach in queries:
        name = f'{tag}, every interval_size in [1,2^31){lemma_note}: {label}'
        if z3.is_false(vio):
            plan.append((name, None, classes, reach))
            continue
        key = ('q', tag, label)
        jobs.append((key, pyk.smt2(pre + [vio], 'QF_NIA'), ('z3new', 'cvc5'), timeout))
        if classes is not None:
            jobs.append((key + ('replayable',), pyk.smt2(pre + [vio, replayable], 'QF_NIA'), ('z3new', 'cvc5'), min(timeout, 12)))
        plan.append((name, key, classes, reach))
    R.transitions += len(paths2)

    def finish(res, lem_ok):
        for name, key, classes, reach in plan:
            if key is None:
                R.ob(name, 'discharged' if (reach and lem_ok) else 'not_discharged', 0.0, {'note': 'no such path'}, nontrivial=reach)
                continue
            r, model, dt, solver = res[key]
            if classes is not None:
                r2, model2, dt2, solver2 = res[key + ('replayable',)]
                if r2 == 'error':
                    raise HarnessError(f'{name}: solver error {str(model2)[:400]}')
                if r2 == 'sat':
                    rep.counterexample(name, dt2, genome, contig, Lc, model2['size'], classes, solver2, inductive=True)
                    continue
            if r == 'unsat':
                R.ob(name, 'discharged' if (reach and lem_ok) else 'not_discharged', dt, {'solver': solver}, nontrivial=reach)
            elif r == 'sat':
                if classes is None:
                    R.ob(name, 'not_discharged', dt, {'note': 'invariant template not inductive', 'model': str(model)})
                elif model['size'] * 400000 >= Lc:
                    rep.counterexample(name, dt, genome, contig, Lc, model['size'], classes, solver, inductive=True)
                else:
                    R.ob(name, 'not_discharged', dt, {'note': 'counterexample needs too many intervals to replay on the real '
                                                      'function', 'size': model['size']})
            elif r == 'error':
                raise HarnessError(f'{name}: solver error {str(model)[:400]}')
            else:
                R.ob(name, 'not_discharged', dt, {'solver': solver, 'result': r})
    return jobs, finish


def lemma_jobs(Lc, timeout):
    """Float64 lemma for one contig length, split by the magnitude of x (each chunk is one query)."""
    SMAX = 1 << 31
    chunks = [(1, SMAX)] if Lc < (1 << 20) else [(1 << k, 1 << (k + 1)) for k in range(31)]
    out = []
    for lo, hi in chunks:
        x = z3.BitVec('x', 64)
        q = z3.fpDiv(pyk.RNE, z3.FPVal(float(Lc), pyk.F64), z3.fpSignedToFP(pyk.RNE, x, pyk.F64))
        pyc = z3.fpToSBV(z3.RTP(), q, z3.BitVecSort(64))
        intc = z3.UDiv(z3.BitVecVal(Lc, 64) + x - 1, x)
        out.append((('lemma', Lc, lo, hi), pyk.smt2([x >= lo, x < hi, pyc != intc], 'QF_BVFP'), ('z3old', 'cvc5'), timeout))
    return out


def part_a(R):
    quick = R.tier == 'quick'
    Lmax = 12 if quick else 64
    text, outer, node = find_nodes()
    R.encode(f'{COMBINE}:{outer.lineno} calculate_even_genome_partitioning', ast.get_source_segment(text, outer))
    R.encode(f'{COMBINE}:{node.lineno} calculate_even_genome_partitioning.calc_parts', ast.get_source_segment(text, node))
    # the outer function: fixed contig lists, results of calc_parts concatenated in order (checked structurally)
    tail = [ast.unparse(s) for s in outer.body if not isinstance(s, (ast.FunctionDef, ast.Expr))]
    flat = ' ; '.join(tail)
    ok = ('intervals.extend(calc_parts(ctg))' in flat and 'for ctg in contigs' in flat and flat.rstrip().endswith('return intervals'))
    R.ob('outer function concatenates calc_parts(contig) over the fixed contig list', 'discharged' if ok else 'not_discharged',
         0.0, nontrivial=True)
    rep = Reporter(R)
    bounded_family(R, rep, Lmax)
    lengths = {}
    for g, path in REFS.items():
        cfg = json.load(open(loader.src(path)))
        R.encode(f'{path} contig lengths', json.dumps([c for c in cfg['contigs'] if c['name'] in CONTIGS[g]]))
        by = {c['name']: c['length'] for c in cfg['contigs']}
        for c in CONTIGS[g]:
            lengths[(g, c)] = by[c]
    todo = [('GRCh37', '1'), ('GRCh38', 'chrM')] if quick else list(lengths)
    # the Float64 lemma is attempted for these lengths only (each large length costs 31 FP queries)
    lemma_for = {lengths[k] for k in ([('GRCh38', 'chrM')] if quick else [('GRCh38', 'chrM'), ('GRCh38', 'chr1')])}
    lemma_cache = {}
    jobs, finishers = [], []
    t0 = time.time()
    for g, c in todo:
        j, fin = inductive_contig(R, rep, g, c, lengths[(g, c)], lemma_cache, 20 if quick else 120, lemma_for)
        jobs += j
        finishers.append((lengths[(g, c)], fin))
    ljobs = []
    for Lc in sorted(lemma_cache):
        if Lc in lemma_for:
            ljobs += lemma_jobs(Lc, 100 if quick else 400)
    R.log(f'[C38a] real-contig family: {len(todo)} contigs, {len(jobs)} NIA queries + {len(ljobs)} Float64 lemma queries, '
          f'prepared in {time.time() - t0:.1f}s')
    t0 = time.time()
    res = pyk.portfolio_many(ljobs + jobs, workers=4)
    R.log(f'[C38a] real-contig family solved in {time.time() - t0:.1f}s')
    lem_ok = {}
    assumed = []
    for Lc in sorted(lemma_cache):
        who = ', '.join(f'{g}:{c}' for (g, c), v in lengths.items() if v == Lc and (g, c) in todo)
        if Lc not in lemma_for:
            assumed.append(f'{Lc} ({who})')
            lem_ok[Lc] = None
            continue
        ok = True
        for key, _, _, _ in [j for j in ljobs if j[0][1] == Lc]:
            r, model, dt, solver = res[key]
            lname = f'Float64 lemma math.ceil({Lc}/x) == ceil-div, {key[2]} <= x < {key[3]} ({who})'
            if r == 'unsat':
                R.ob(lname, 'discharged', dt, {'solver': solver}, nontrivial=True)
            elif r == 'sat':
                xv = model['x']
                if math.ceil(Lc / xv) == -((-Lc) // xv):
                    raise HarnessError(f'{lname}: solver model x={xv} is not a counterexample under CPython')
                R.ob(lname, 'not_discharged', dt, {'note': 'lemma false; integer cut not justified', 'x': xv})
                ok = False
            elif r == 'error':
                raise HarnessError(f'{lname}: solver error {str(model)[:400]}')
            else:
                R.ob(lname, 'not_discharged', dt, {'result': r})
                ok = False
        lem_ok[Lc] = ok
    if assumed:
        R.assume('ASSUMED, not proved in this tier (budget): math.ceil(L/x) == integer ceiling for 1 <= x < 2^31 for the contig lengths '
                 + ', '.join(assumed) + '; the same Float64 lemma IS proved in this run for the lengths listed as lemma obligations and '
                 'on the whole bounded domain; obligations of the listed contigs hold modulo this assumption')
    for Lc, fin in finishers:
        # lemma not attempted: dependent obligations keep their own verdict (the lemma is listed as not discharged);
        # lemma attempted and failed: dependents are not discharged
        fin(res, lem_ok.get(Lc, True) is not False)
    R.bounds.update({'bounded family': f'1 <= L <= {Lmax}, 1 <= interval_size <= {Lmax + 1}, both symbolic, unwinding {Lmax + 1}',
                     'real-contig family': f'{len(todo)} (genome, contig) pairs with their real lengths; 1 <= interval_size < 2^31 '
                     'symbolic; loop length unbounded (invariant)'})


def run(R):
    R.bounds = {}
    R.assume('calc_parts reads only reference_genome.lengths[contig] and interval_size; hl.Interval/hl.Locus are recorded as '
             'constructor calls and bound against the REAL signatures (includes_start/includes_end defaults)',
             'CPython int/int true division is correctly rounded, hence equal to fp.div RNE of the exactly converted operands '
             '(|operands| <= 2^53); math.ceil(float) is RTP',
             'real-contig family: math.ceil(L/x) is read as the integer ceiling; justified for each distinct contig length by a '
             'Float64 lemma over all 1 <= x < 2^31 decided in the same run (not discharged lemma => dependent obligations not discharged)',
             'real-contig family: the loop invariant is "n-1 positions covered contiguously, n = 1 + i*stride or n = L+1"; a '
             'loop-head counterexample is reported only if the REAL function misbehaves for that (L, interval_size)',
             'interval_size >= 1 (the public parameter is typechecked int; 0 raises ZeroDivisionError, negative sizes are not claimed)')
    R.extra['trusted_base'] = ['z3 4.8.12 / z3 5.1 / cvc5 1.0.3 (BV and FP bit-blasting)', 'vt/pyk.py translation (validated each run '
                               'against the real function on solver-chosen (L, size) per path)', 'CrossHair 0.0.110 (part b)']
    part_a(R)
    try:
        planrun = importlib.import_module('harness.C38_planrun')
    except ImportError:
        planrun = None
    if planrun is not None:
        planrun.run(R)
    else:
        R.ob('part (b): combiner merge plan under CrossHair', 'not_discharged', 0.0, {'note': 'harness/C38_planrun.py not present'})


def replay(path):
    d = json.load(open(path))
    rp = d['replay']
    if 'genome' in rp:
        ivs = real_intervals(rp['genome'], rp['contig'], rp['L'], rp['size'])
        got = classify(ivs, rp['L'], rp['size'])
        print(f"L={rp['L']} size={rp['size']} intervals={ivs if isinstance(ivs, str) or len(ivs) < 8 else ivs[:3] + ['...'] + ivs[-2:]} violated={sorted(got)}")
        return 1 if got else 0
    planrun = importlib.import_module('harness.C38_planrun')
    return planrun.replay(rp)
