"""C35 — common-subexpression rendering preserves meaning (E5 symbolic builder + z3 equivalence of both texts)."""
import ast
import concurrent.futures as cf
import json
import multiprocessing
import os
import re
import time

from vt import loader
from vt.common import HarnessError

LEVEL = 'other'
EXPLANATION = (
    'A symbolic program builder (harness/C35_shapes.py) makes typed expression DAGs with sharing through the real '
    'hail.ir constructors; the shape is a vector of z3 integers c0,c1,.. explored by the native path explorer '
    'vt/shapex.py (glue.choose semantics: fork on c_k == i, feasibility of each side decided by z3; DFS). On every '
    'path the REAL CSERenderer and the REAL PlainRenderer render the same DAG; both texts are read by an independent '
    'S-expression reader and evaluated by a z3-valued evaluator (vt/irsem.py: BitVec32/64 ints, Bools, structs, '
    'guarded arrays/streams of <=2 symbolic elements and symbolic length, aggregation/scan contexts as guarded rows) '
    'whose leaves x, p, y, A[0..1], B[0..1] are free z3 variables. The obligation, one z3 query per batch of paths, '
    'is: there is NO shape vector c and NO leaf valuation with pc_path(c) and (value_cse != value_plain, or a name '
    'unbound / bound in the wrong eval|agg|scan scope, or malformed text, or a renderer exception). unsat = for all '
    'explored shapes and ALL leaf values the let-lifted text means the same as the inlined text. Bounds: number of '
    'non-leaf nodes per DAG and node kinds per family as listed in bounds; arrays <= 2 elements; no missing values; '
    'errors only in the strict family (ArrayRef), where error behaviour must agree too.'
)
REN = 'hail/python/hail/ir/renderer.py'
BASE = 'hail/python/hail/ir/base_ir.py'
IRPY = 'hail/python/hail/ir/ir.py'
PARSER = 'hail/hail/src/is/hail/expr/ir/Parser.scala'

# (family, max new nodes, shadowed binder names, shard depth, built through the hl.* expression API)
PLAN = {
    'quick': [('value', 3, False, 2, False), ('strict', 3, False, 2, False), ('agg', 3, False, 2, False),
              ('scan', 3, False, 2, False), ('aggcore', 4, False, 2, False), ('scancore', 5, False, 3, False),
              ('value-core', 3, True, 2, False), ('value-core', 3, False, 2, True),
              ('grp', 3, False, 2, False), ('grps', 3, False, 2, False), ('ape', 3, False, 1, False),
              ('apes', 3, False, 1, False), ('grp', 3, False, 2, True), ('grps', 3, False, 2, True)],
    'thorough': [('bind4', 4, False, 4, True), ('strict4', 4, False, 4, False), ('agg', 4, False, 4, False),
                 ('scan', 4, False, 4, False), ('let5', 5, False, 4, False), ('if5', 5, False, 4, False),
                 ('aggcore', 5, False, 4, False), ('scancore', 6, False, 5, False), ('value', 3, False, 2, False),
                 ('strict', 3, False, 2, False), ('value-core', 3, True, 2, False), ('agg', 3, True, 2, False),
                 ('value-core', 3, False, 2, True),
                 ('grp', 4, False, 3, False), ('grps', 4, False, 3, False), ('ape', 4, False, 2, False),
                 ('apes', 4, False, 2, False), ('grp', 4, False, 3, True), ('grps', 4, False, 3, True),
                 ('ape', 3, False, 1, True), ('apes', 3, False, 1, True)],
}
WORKERS = 8
_RANK = ['discharged', 'known', 'not_discharged', 'violated']


def _encode_sources(R):
    text = loader.read(REN)
    tree = ast.parse(text)
    for n in tree.body:
        if isinstance(n, ast.ClassDef) and n.name in ('PlainRenderer', 'CSERenderer', 'CSEAnalysisPass', 'CSEPrintPass'):
            R.encode(f'{REN}:{n.lineno} {n.name}', ast.get_source_segment(text, n))
    text = loader.read(BASE)
    for n in ast.parse(text).body:
        if isinstance(n, ast.ClassDef) and n.name in ('BaseIR', 'IR'):
            R.encode(f'{BASE}:{n.lineno} {n.name}', ast.get_source_segment(text, n))
    text = loader.read(IRPY)
    want = {'I32', 'I64', 'Ref', 'If', 'Let', 'AggLet', 'ApplyBinaryPrimOp', 'ApplyComparisonOp', 'MakeArray', 'ArrayRef',
            'ArrayLen', 'ToArray', 'ToStream', 'StreamMap', 'StreamFilter', 'StreamFold', 'StreamAgg', 'StreamAggScan',
            'AggFilter', 'BaseApplyAggOp', 'ApplyAggOp', 'ApplyScanOp', 'MakeStruct', 'GetField'}
    for n in ast.parse(text).body:
        if isinstance(n, ast.ClassDef) and n.name in want:
            R.encode(f'{IRPY}:{n.lineno} {n.name}', ast.get_source_segment(text, n))
    # the reader's grammar table is cross-checked against the engine's parser: every modelled node has a case
    from vt import irsem
    ptext = loader.read(PARSER)
    for k in irsem.GRAMMAR:
        if not re.search(r'case\s+(?:"[A-Za-z]+"\s*\|\s*)*"%s"' % k, ptext):
            raise HarnessError(f'IR node {k} is not a case of the Scala IRParser any more')
    R.encode(f'{PARSER} ir_value_expr_1 (node layouts)', None)


def _task(args):
    family, n, shadow, pins, api = args
    from harness import C35_run
    return C35_run.run_shard(family, n, shadow, pins, api=api)


def run(R):
    from harness import C35_run, C35_shapes
    plan = PLAN[R.tier]
    _encode_sources(R)
    R.bounds = {
        'families': {f'{fam}{"/shadowed-names" if sh else ""}{"/via-hl-API" if api else ""}': {
            'max_new_nodes': n, 'kinds': C35_shapes.FAMILIES[fam]['kinds'], 'leaf_pool': C35_shapes.FAMILIES[fam]['leaves']}
            for fam, n, sh, _, api in plan},
        'arrays': 'free arrays A (int32) and B (int64): 2 symbolic elements, each present or absent (length 0..2); '
                  'C (int64, the rows of the wrapped scan families grps/apes): 3 symbolic elements (an exclusive scan '
                  'needs a row with two earlier rows to tell a per-key from an ungrouped running value); '
                  'MakeArray of 2 elements',
        'integers': 'int32 / int64 as 32 / 64-bit bit-vectors (wrapping), all values',
        'node_count': 'non-leaf nodes per DAG <= max_new_nodes (pooled leaves x, c=I32 7, p, y, d=I64 7, A, B and '
                      'bound-variable Refs are shared objects and not counted)',
    }
    R.assume('IR text semantics is the harness evaluator vt/irsem.py (total, no missing values; Let/AggLet strict); node '
             'argument layouts follow the Scala IRParser cases, which are checked to exist each run',
             'families marked via-hl-API build the same shapes with hl.* calls (operators, if_else, bind, struct, array, '
             'map/filter/fold, len) on expression variables; the others call the hail.ir constructors directly',
             'binder names are unique per binder as Env.get_uid() makes them (families marked shadowed-names reuse one '
             'name for every binder: IR-level only, the Python API cannot produce it)',
             'aggregations: ApplyAggOp / ApplyScanOp for Sum and Count, AggFilter, AggLet, AggGroupBy (value = dict from '
             'key to the aggregation over the rows of that key, compared as a set of entries), AggExplode (one row per '
             'element), AggArrayPerElement (arrays of one static length; over zero rows it yields no elements where Hail '
             'yields a missing value), each for the agg and the scan context, StreamAgg, StreamAggScan (exclusive prefix); '
             'aggregations below stream lambdas are not generated; families grp/grps/ape/apes wrap the generated body in '
             'StreamAgg(ToStream B, e, body) resp. ToArray(StreamAggScan(ToStream C, e, body)) (not counted) and, via-hl-API, '
             'build it with B.aggregate / C._to_stream()._aggregate_scan and hl.agg|hl.scan.count/sum/filter/group_by/'
             'explode/array_agg on top-level references; shapes the aggregator API refuses are dropped',
             'paths whose CSE text is token-identical to the plain text contribute the constant false to the batch '
             'query (same tokens = same parse = same value)',
             'the shape space is finite and enumerated through solver-decided forks; the solver proves the value '
             'equivalence for all leaf values per explored shape, not for shapes outside the bounds')
    R.extra['trusted_base'] = ['z3', 'vt/irsem.py reader+evaluator', 'vt/shapex.py explorer',
                               'harness/C35_shapes.py builder well-formedness (types, scopes)']
    tasks = []
    for fam, n, sh, depth, api in plan:
        for pins in C35_run.shard_prefixes(fam, n, sh, depth):
            tasks.append((fam, n, sh, pins, api))
    R.log(f'[C35] {len(tasks)} shards')
    ctx = multiprocessing.get_context('spawn')
    results = []
    with cf.ProcessPoolExecutor(max_workers=WORKERS, mp_context=ctx) as ex:
        for r in ex.map(_task, tasks, chunksize=1):
            results.append(r)
    tot = {'paths': 0, 'with_lets': 0, 'identical_text': 0, 'queries': 0, 'explorer_solver_calls': 0, 'syntactic_ok': 0,
           'with_agg_lets': 0, 'with_scan_lets': 0}
    reported = set()
    per_class = {}
    suppressed = {}
    for r in results:
        st = r['stats']
        name = (f"{r['family']}{'/shadowed' if r['shadow'] else ''}{'/via-hl-API' if r['api'] else ''} N<={r['n']} c[0..]={r['pins']}: "
                f"CSE text == plain text in value, scope and context")
        for k in ('paths', 'with_lets', 'identical_text', 'syntactic_ok', 'with_agg_lets', 'with_scan_lets'):
            tot[k] += st[k]
        tot['queries'] += r['queries']
        tot['explorer_solver_calls'] += r['solver_calls_explorer']
        detail = {'paths': st['paths'], 'paths_with_lifted_lets': st['with_lets'], 'paths_with_lifted_AggLets': st['with_agg_lets'] + st['with_scan_lets'], 'z3_queries': r['queries'],
                  'dead_ends': st['dead'], 'explore_s': r['explore_s']}
        status = 'discharged'
        nontrivial = r['reach'] > 0 and st['with_lets'] > 0
        if st['paths'] == 0:
            R.ob(name, 'discharged', 0.0, {'paths': 0, 'note': 'no well-formed shape in this shard'}, nontrivial=False)
            continue
        if r['unknown']:
            status = 'not_discharged'
            detail['unknown_paths'] = r['unknown']
        for c in r['cex']:
            # replay on the real renderers, concretely, before anything is reported
            viol, msg = C35_run.replay_concrete(c)
            if not viol:
                raise HarnessError(f'counterexample does not reproduce concretely: {c["shape"]} {c["leaves"]}')
            cls = c['cls'] or {'scope': 'cse-binding-out-of-scope', 'malformed': 'cse-text-malformed',
                               'crash': 'cse-renderer-raises', 'value': 'cse-value-differs'}[c['kind']]
            key = (cls, c['shape']) if c['cls'] is None else (cls,)
            if (key in reported and c['cls'] is not None) or per_class.get(cls, 0) >= 3:
                st_ = 'known' if cls in R.known else 'violated'
                suppressed[cls] = suppressed.get(cls, 0) + 1
            else:
                reported.add(key)
                per_class[cls] = per_class.get(cls, 0) + 1
                what = (f"{c['shape']} [{c['family']}] {c['kind']}: {c['why'] or msg.splitlines()[0]}; leaves={_short(c['leaves'])}; "
                        f"cse={c['cse'][:240]}")
                st_ = R.finding(cls, what, {k: c[k] for k in ('family', 'n', 'shadow', 'api', 'choices', 'leaves', 'shape')})
            detail.setdefault('findings', []).append({'class': cls, 'shape': c['shape'], 'kind': c['kind']})
            status = max(status, st_, key=_RANK.index)
        if r.get('truncated'):
            detail['truncated'] = True
        R.ob(name, status, r['solve_s'], detail, nontrivial=nontrivial)
        for s in r['samples'][:1]:
            R.sample(s)
    if suppressed:
        R.log(f'[C35] further witnesses of already reported classes (not printed): {suppressed}')
        R.extra['further_witnesses_not_printed'] = suppressed
    R.extra['shapes_explored'] = tot['paths']
    R.extra['shapes_with_lifted_lets'] = tot['with_lets']
    R.extra['shapes_token_identical'] = tot['identical_text']
    R.extra['z3_batch_queries'] = tot['queries']
    R.extra['explorer_feasibility_queries'] = tot['explorer_solver_calls']
    R.extra['shapes_where_inlining_cse_lets_gives_plain_tree'] = tot['syntactic_ok']
    R.log(f"[C35] shapes={tot['paths']} with_lets={tot['with_lets']} batch_queries={tot['queries']}")
    R.extra['shapes_with_lifted_AggLet_agg_scope'] = tot['with_agg_lets']
    R.extra['shapes_with_lifted_AggLet_scan_scope'] = tot['with_scan_lets']
    if tot['with_agg_lets'] == 0 or tot['with_scan_lets'] == 0:
        raise HarnessError('no explored shape had a lifted AggLet in the agg / scan scope: the aggregation-context '
                           'part of the check would be vacuous')
    if tot['with_lets'] == 0:
        raise HarnessError('no explored shape had a lifted binding: the check would be vacuous')


def _short(leaves):
    return {k: v for k, v in leaves.items() if v not in (0, False)}


def replay(path):
    from harness import C35_run
    d = json.load(open(path))['replay']
    viol, msg = C35_run.replay_concrete(d)
    print(('property violated: ' if viol else 'property holds: ') + msg)
    return 1 if viol else 0
