"""C33 — value binary encoding round-trips and matches the engine layout (E2: CrossHair on the real encoders)."""
import ast
import json
import struct

from vt import chgroup, chrun, loader
from vt.common import HarnessError

LEVEL = 'other'
EXPLANATION = (
    'CrossHair (symbolic execution with z3) runs the real HailType._convert_to_encoding / _convert_from_encoding with the '
    'real ByteWriter / ByteReader on values built from symbolic scalars, one condition per Hail type of a catalogue to '
    'depth 2; struct.pack/unpack are replaced inside byte_reader\'s namespace by pure-Python little-endian arithmetic so '
    'integers stay symbolic and the buffer is a list of symbolic byte values; floats are opaque symbolic IEEE bit patterns. '
    'Each condition asserts (a) decode(encode(v)) == v with all bytes consumed and (b) encode(v) equals, byte for byte, a '
    'reference encoder whose type->EType/required table is parsed from EType.fromPythonTypeEncoding in EType.scala at run '
    'time and whose per-EType layouts follow E*.scala (missing bits for nullable fields/elements, none for required dict '
    'pairs and ndarray elements, little-endian primitives, length-prefixed strings, unsorted key/value pairs, int64 shape + '
    'column-major ndarray data, bit-packed calls). Only "Confirmed over all paths" discharges. Bounds: collections 0..2 '
    '(one array type 7..9 to cross the missing-byte boundary), ndarrays concrete (C order, F order, transposed views, up '
    'to 3 dims) chosen symbolically.'
)
TYPES_PY = 'hail/python/hail/expr/types.py'
BR_PY = 'hail/python/hail/utils/byte_reader.py'


def validate_stub(R):
    """stub contract vs the real struct on concrete points (translator validation)"""
    from harness import C33_enc as H
    S = H._StructStub
    for fmt, vals in (('=i', [0, 1, -1, 2 ** 31 - 1, -2 ** 31, 0x12345678, -0x12345678]),
                      ('=q', [0, 1, -1, 2 ** 63 - 1, -2 ** 63, 0x123456789abcdef0, -5]), ('=B', [0, 1, 127, 128, 255])):
        for v in vals:
            R.validation_points += 1
            want = list(struct.pack(fmt, v))
            got = list(S.pack(fmt, v))
            if want != got or S.unpack(fmt, H.ByteList(want))[0] != v:
                raise HarnessError(f'struct stub disagrees with struct on {fmt} {v}: {got} vs {want}')
        for bad in ([2 ** 31, -2 ** 31 - 1] if fmt == '=i' else [2 ** 63, -2 ** 63 - 1] if fmt == '=q' else [256, -1]):
            R.validation_points += 1
            try:
                S.pack(fmt, bad)
                raise HarnessError(f'struct stub accepts out-of-range {fmt} {bad}')
            except struct.error:
                pass
    for fmt, w, vals in (('=d', 64, [0.0, -0.0, 1.5, float('inf'), float('nan'), 5e-324]), ('=f', 32, [0.0, 1.5, float('-inf')])):
        for v in vals:
            R.validation_points += 1
            real = struct.pack(fmt, v)
            pat = int.from_bytes(real, 'little')
            if list(S.pack(fmt, H.Bits(w, pat))) != list(real):
                raise HarnessError(f'float bit-pattern stub disagrees with struct on {fmt} {v}')
            if S.unpack(fmt, H.ByteList(real))[0] != H.Bits(w, pat):
                raise HarnessError(f'float bit-pattern stub does not invert on {fmt} {v}')


def run(R):
    from harness import C32_json as J
    from harness import C33_enc as H
    cat = H.catalogue(R.tier)
    H.TYPES[:] = cat
    H.ETYPES[:] = [H.etype(H.entry(k)[0]) for k in range(len(cat))]
    text = loader.read(TYPES_PY)
    for n in ast.walk(ast.parse(text)):
        if isinstance(n, ast.ClassDef):
            for fn in n.body:
                if isinstance(fn, ast.FunctionDef) and fn.name in ('_convert_to_encoding', '_convert_from_encoding'):
                    R.encode(f'{TYPES_PY}:{fn.lineno} {n.name}.{fn.name}', ast.get_source_segment(text, fn))
        if isinstance(n, ast.FunctionDef) and n.name in ('lookup_bit', 'allele_pair', 'allele_pair_sqrt'):
            R.encode(f'{TYPES_PY}:{n.lineno} {n.name}', ast.get_source_segment(text, n))
    R.encode(f'{BR_PY} ByteReader/ByteWriter', loader.read(BR_PY))
    tab, body = H.parse_etype_table()
    R.encode(f'{H.ETYPE_SCALA} EType.fromPythonTypeEncoding (case table, parsed)', json.dumps(tab, sort_keys=True, default=str))
    R.sample({'etype_table': {k: str(v) for k, v in tab.items()}})
    validate_stub(R)
    pct = 240 if R.tier == 'quick' else 400
    R.bounds = {'types': f'{len(cat)} types, depth <= 2', 'collections': 'length 0..2; one array type with 7..9 elements',
                'ints': '32/64-bit ranges, symbolic', 'floats': 'symbolic 32/64-bit patterns (opaque)', 'strings': 'choice among 3 (ASCII, empty, multi-byte UTF-8)',
                'calls': 'symbolic choice among 22 fixed calls: every ploidy/phase, and diploid pairs on both sides of the decoder small-table / sqrt boundary (0/8, 0/9, 7/8, 1/8, 8/8, 7/7, 0/20000, 16383/32767, phased 0|8, 3|9, 8|0, 0|300)', 'structs': 'value field order is a symbolic permutation of the type field order', 'ndarray': 'concrete numpy arrays chosen symbolically (C/F order, views, <= 3 dims)',
                'per_condition_timeout_s': pct}
    R.assume('struct.pack/unpack replaced in byte_reader by pure-Python little-endian arithmetic (contract validated against the real struct each run)',
             'floats are opaque IEEE bit patterns (struct float packing assumed injective on patterns); floats inside numpy arrays go through the real struct',
             'the layout reference (harness/C33_enc.py ref_encode) is hand-written from E*.scala; only the type->EType/required table is parsed from EType.scala; the engine is not run',
             'np.prod in hail.expr.types returns a Python int (CrossHair\'s range() rejects numpy integers)',
             'top-level values are non-missing (hl.literal handles top-level missing before encoding); dict keys non-missing',
             'call decode uses math.sqrt (C): alleles are chosen values, not symbolic; the list reaches allele_pair_sqrt from both sides of the small table, triangular indices and the largest encodable pair (the float kernel itself is C34)',
             'HailType.__hash__ (43 + hash(str(self))) is replaced by a deterministic checksum of the same string: CrossHair makes hash(str) symbolic',
             'CrossHair 0.0.110 path exploration is exhaustive when it reports "Confirmed over all paths"')
    R.extra['trusted_base'] = ['CrossHair/z3', 'harness/C33_enc.py reference layout and struct stub', 'harness/C32_json.py value builder and eq()']
    GROUP = 2 if R.tier == 'quick' else 4
    ks = list(range(len(cat)))
    mods = [chrun.gen_module(f'C33_g{g // GROUP}', H.source(R.tier, ks[g:g + GROUP])) for g in range(0, len(ks), GROUP)]
    res = chgroup.run_modules(mods, per_condition_timeout=pct, workers=8)
    for k in ks:
        mod = mods[k // GROUP]
        t, long = H.entry(k)
        v, msg, dt = res[f'{mod}.check_{k}']
        rv, rmsg, _ = res[f'{mod}.reach_{k}']
        reach = rv == 'refuted'
        name = f'{t}{" (7..9 elements)" if long else ""}: decode(encode(v)) == v and encode(v) == engine layout'
        if v == 'confirmed':
            R.ob(name, 'discharged' if reach else 'not_discharged', dt / (2 * GROUP), {'twin': rmsg[:100]}, nontrivial=reach)
        elif v == 'refuted':
            args = chrun.parse_counterexample(msg, J.ARGN)
            if args is None:
                raise HarnessError(f'cannot parse CrossHair counterexample: {msg}')
            rt, lay, val, err = concrete(H, J, k, args)
            if rt and lay:
                raise HarnessError(f'CrossHair counterexample does not reproduce concretely: {msg}')
            cls = 'encoding-roundtrip-mismatch' if not rt else 'encoding-layout-mismatch'
            st = R.finding(cls, f'{t}: value {val!r}: round trip {"ok" if rt else "FAILS"}, engine layout {"ok" if lay else "DIFFERS"} {err}',
                           {'tier': R.tier, 'k': k, 'type': str(t), 'args': args})
            R.ob(name, st, dt / (2 * GROUP), {'cex': repr(val)[:200], 'error': err}, nontrivial=True)
        else:
            R.ob(name, 'not_discharged', dt / (2 * GROUP), {'crosshair': msg[-200:]})
        R.sample({'type': str(t), 'verdict': v, 'twin': rv})


def concrete(H, J, k, args):
    try:
        val = H.value(k, *J.unpack(args))
    except Exception as e:  # noqa: BLE001
        return False, False, None, f'[value builder raised {type(e).__name__}: {e}]'
    try:
        rt, lay = H.check(k, val)
        return rt, lay, val, ''
    except Exception as e:  # noqa: BLE001
        return False, False, val, f'[{type(e).__name__}: {e}]'


def replay(path):
    d = json.load(open(path))['replay']
    from harness import C32_json as J
    from harness import C33_enc as H
    H.TYPES[:] = H.catalogue(d['tier'])
    H.ETYPES[:] = [H.etype(H.entry(k)[0]) for k in range(len(H.TYPES))]
    if str(H.entry(d['k'])[0]) != d['type']:
        print('catalogue changed; cannot replay')
        return 2
    rt, lay, val, err = concrete(H, J, d['k'], d['args'])
    print(f"{d['type']}: value {val!r}: round trip {'ok' if rt else 'FAILS'}, layout {'ok' if lay else 'DIFFERS'} {err}")
    return 0 if rt and lay else 1
