"""C12 — resource requests are never under-provisioned (E2: CrossHair on the real selection code, float leaves cut)."""
import importlib
import json
import math

from vt import chrun, floatcut
from vt.common import HarnessError

LEVEL = 'other'
EXPLANATION = (
    'CrossHair (symbolic execution with z3) runs the real PoolConfig.convert_requests_to_resources, '
    'JobPrivateInstanceManagerConfig.convert_requests_to_resources and InstanceCollectionConfigs.select_inst_coll '
    '(select_cheapest_price_pool / select_pool_from_worker_type / select_job_private) with the '
    'requested mcpu, memory bytes, storage bytes, preemptible flag, label choice and machine-type index as symbolic values. '
    'Pool obligations: one per cloud x worker type with the worker core count symbolic over the repository\'s table; '
    'selection obligations: per cloud x pool-set variant x worker-type choice; job-private: every machine type of the table. '
    'Oracle (exact integers, written from the property): accepted => granted cores/memory/storage >= requested and fit on '
    'the worker; rejected => no packable share 250*2^p mcpu that fits on any matching pool covers cores and memory, or storage '
    'exceeds the cloud disk limit. The float leaves (ceil((m/B)*1000), ceil(log2(c/1000)), int((c/1000)*B), ceil(s/1024/1024/1024)) '
    'are rewritten on the AST in memory; each rewrite is justified in the same run by bit-precise Float64 lemmas decided by z3 '
    '(for ceil((m/B)*1000), which is NOT exact in floats, the cut returns an arbitrary member of the proven power-of-two bucket, '
    'an over-approximation driven by extra symbolic slack inputs; pool prices are arbitrary symbolic numbers, also an '
    'over-approximation). Only "Confirmed over all paths" counts. Bounds: mcpu in 250*2^k (k<=12), '
    'memory < 2^44, storage < 2^47; pool sets are the listed variants, not all sets; strings -> integers is C25.'
)
CLS_KNOWN = 'nonpow2-worker-cores-crash-price-selection'
CLS_RAISE = 'select-inst-coll-raises'
CLS_WRONG = 'request-under-provisioned-or-wrongly-rejected'
ARGS = {
    'pool': ['ck', 'm', 'st', 'wc', 's0', 's1', 's2'],
    'select': ['ck', 'm', 'st', 'pre_', 'label_i', 's0', 's1', 's2'],
    'selectK': ['ck', 'm', 'st', 'pre_', 'label_i', 's0', 's1', 's2'],
    'private': ['same_cloud', 'mt_i', 'st'],
}


def _H():
    return importlib.import_module('harness.C12_res')


def _replay(H, kind, meta, a):
    """Concrete re-execution on the REAL (uncut) code.  Returns None if the property holds, else (class, text)."""
    if 'ck' in a:
        a = dict(a, c=250 << a['ck'])
    try:
        if kind == 'pool':
            ok = H.pool_ok(meta['cloud'], meta['wt'], a['wc'], a['c'], a['m'], a['st'])
        elif kind in ('select', 'selectK'):
            ok = H.select_ok(meta['cloud'], meta['variant'], a['c'], a['m'], a['st'], a['pre_'], a['label_i'], meta['wt_i'])
        else:
            ok = H.private_ok(meta['cloud'], a['same_cloud'], a['mt_i'], a['st'])
    except Exception as e:
        if kind in ('select', 'selectK') and isinstance(e, AssertionError):
            cfg = H.config(meta['cloud'], meta['variant'])
            wt = None if meta['wt_i'] == 0 else H.types(meta['cloud'])[meta['wt_i'] - 1]
            if H.known_nonpow2(cfg, meta['cloud'], a['c'], a['m'], a['st'], a['pre_'], H.LABELS[a['label_i']], wt):
                return CLS_KNOWN, f'raises AssertionError({e}) (a matching pool with non-power-of-two worker_cores accepts the request)'
        return CLS_RAISE, f'raises {type(e).__name__}: {e}'
    if ok:
        return None
    if kind in ('select', 'selectK'):
        got = H.select_result(meta['cloud'], meta['variant'], a['c'], a['m'], a['st'], a['pre_'], a['label_i'], meta['wt_i'])
        return CLS_WRONG, f'select_inst_coll returned {got}'
    return CLS_WRONG, 'oracle violated'


def _validate_cuts(R, H, cuts):
    """Concrete agreement of each cut leaf with the real leaf at the bucket/threshold boundaries (not a deciding step:
    guards the rewrite rules and helpers against transcription mistakes)."""
    pts = 0
    byname = {c.qualname: c for c in cuts}
    for cloud in ('gcp', 'azure'):
        for wt in H.types(cloud):
            b = H.bytes_per_core(cloud, wt)
            adj = byname[f'{"gcp" if cloud == "gcp" else "azure"}_adjust_cores_for_memory_request']
            mem = byname[f'{"gcp" if cloud == "gcp" else "azure"}_cores_mcpu_to_memory_bytes']
            extra = (H.gcp.GCP_MACHINE_FAMILY, wt) if cloud == 'gcp' else (wt,)
            real_adj = getattr(adj.module, adj.node.name)
            real_mem = getattr(mem.module, mem.node.name)
            for p in range(0, 11):
                for m in {0, 1, (b << p) // 4 - 1, (b << p) // 4, (b << p) // 4 + 1, (b << p) // 3}:
                    real = real_adj(0, m, *extra)
                    for slack in (0, 1, 12345):
                        floatcut.NONDET[b] = slack
                        got = adj.fn(0, m, *extra) if adj.applied else real
                        if H.ru.adjust_cores_for_packability(got) != H.ru.adjust_cores_for_packability(real):
                            raise HarnessError(f'cut {adj.qualname} disagrees with the real leaf at m={m} ({got} vs {real})')
                        pts += 1
                x = 250 << p
                if mem.applied and mem.fn(x, *extra) != real_mem(x, *extra):
                    raise HarnessError(f'cut {mem.qualname} disagrees with the real leaf at mcpu={x}')
                pts += 1
    pk = byname['adjust_cores_for_packability']
    rs = byname['round_storage_bytes_to_gib']
    for k in range(-3, 12):
        base = int(1000 * 2.0 ** k)
        for x in {max(base - 1, 0), base, base + 1, 3 * base // 2}:
            if pk.applied and pk.fn(x) != H.ru.adjust_cores_for_packability(x):
                raise HarnessError(f'cut adjust_cores_for_packability disagrees at {x}')
            pts += 1
    for s in [0, 1, 2 ** 30 - 1, 2 ** 30, 2 ** 30 + 1, 10 * 2 ** 30, 2 ** 46, 2 ** 46 + 1, 2 ** 47 - 1]:
        if rs.applied and rs.fn(s) != H.ru.round_storage_bytes_to_gib(s):
            raise HarnessError(f'cut round_storage_bytes_to_gib disagrees at {s}')
        pts += 1
    R.validation_points += pts


def run(R):
    quick = R.tier == 'quick'
    variants = [0, 4, 5] if quick else [0, 1, 2, 3, 4, 5]
    pct = 120 if quick else 600
    H = _H()
    from harness import C12_template as T
    R.bounds = {'requested mcpu': f'250*2^k, k=0..{T.CKMAX}', 'requested memory bytes': f'0..2^44-1', 'requested storage bytes': '0..2^47-1',
                'clouds': ['gcp', 'azure'], 'worker cores (pool obligations)': 'every value of the repository tables',
                'pool-set variants (selection obligations)': variants, 'machine types': 'all of valid_machine_types(cloud)',
                'mdiv slack': f'0..{T.SLK - 1}'}
    R.assume('integers are the input: request strings are parsed by parse_cpu_in_mcpu / parse_memory_in_bytes / parse_storage_in_bytes (C25)',
             'requested cores are the shares 250*2^k mcpu (k=0..12) that is_valid_cores_mcpu admits',
             'pool sets 4/5 (also in quick) contain the same worker type twice with 4 and 16 worker cores, small-first and '
             'large-first, with symbolic prices so either pool can be the cheaper one',
             'pool sets are the variants built by harness/C12_res.config from the repository tables (shipped layout; small+large '
             'pools per worker type with a labelled and a foreign-cloud pool; large-first with external disks; non-power-of-two '
             'cores); arbitrary other pool sets are not covered, single pools with every table core count are',
             'resource rates are a fixed positive table and every product has version "1" (prices only choose among pools that '
             'each satisfy the property)',
             'math.log2 (libm, absent from SMT-LIB) is assumed monotone with absolute error < 2^-32 on [2^-11, 2^22]; its '
             'exactness on the powers of two of the table is checked concretely each run',
             'Python int/int true division is the correctly rounded quotient; int(float) = RTZ; math.ceil(float) = RTP to integer',
             'lemmas are needed to DISCHARGE; for REFUTING any model may propose candidates: when a counterexample does not '
             'replay, a cut helper leaves its lemma range, or the justified cut no longer fits an edited leaf, the same '
             'condition is run again with the helpers in search mode (exact-ceiling / exact real-valued reading of the leaf, '
             'no side conditions); only counterexamples that reproduce on the real uncut code are reported',
             'the cut for ceil((m/B)*1000) over-approximates: any value of the proven bucket may be returned (slack inputs)',
             'max(a, b) on ints is rewritten to the branch-free b + [a > b]*(a - b) and int(2**p * 1000) to a table sum (lemmas '
             'imax / pow2scale) so that CrossHair does not fork inside the numeric leaves',
             'in the selection obligations without a worker type (variants 0-2) PoolConfig.price_per_hour is replaced by an '
             'ARBITRARY symbolic price per pool (12 extra symbolic inputs): an over-approximation of every rate table; the real '
             'price computation runs in variant 3 (known class excluded), in the known-finding obligation and in every replay',
             'CrossHair 0.0.110 path exploration is exhaustive when it reports "Confirmed over all paths"')
    R.extra['trusted_base'] = ['CrossHair/z3', 'z3 Float64 theory (lemmas)', 'harness/C12_res.py oracle and pool sets',
                               'vt/floatcut.py rewrite rules', 'libm log2 assumption']

    lim = H.limits(quick)
    cuts = H.make_cuts(lim)
    rules = set()
    applied = []
    for c in cuts:
        R.encode(c.ref, c.text)
        for a in c.applied:
            rules.add(a['rule'])
            applied.append({'function': c.qualname, **a})
            if a['rule'] == 'cdiv':
                lim.cdiv_divisors = [tuple(a['divisors'])]
    for rel, q in H.UNCUT_SPECS:
        c = floatcut.cut(rel, q, H.icc if 'inst_coll_config' in rel else (H.gcp if '/gcp/' in rel else H.az if '/azure/' in rel else H.ru),
                         rules=())
        R.encode(c.ref, c.text)
    R.extra['float_cuts'] = applied
    expected = {q: r for _, q, _, r in H.CUT_SPECS}
    missing = [c.qualname for c, spec in zip(cuts, H.CUT_SPECS) if {a['rule'] for a in c.applied} != set(spec[3])]
    R.log(f'[C12] float cuts applied: {[(a["function"], a["rule"]) for a in applied]}'
          + (f'; NOT matched (checked uncut): {missing}' if missing else ''))
    if missing:
        R.assume(f'no float idiom matched in {missing}: those leaves are checked uncut (CrossHair treats floats as reals)')

    # 1. Float64 lemmas + libm points + concrete agreement at boundaries
    if 'clog2' in rules:
        R.validation_points += floatcut.libm_log2_points()
    if 'pow2scale' in rules:
        R.validation_points += floatcut.libm_pow2_points()
    unjustified = []
    try:
        _validate_cuts(R, H, cuts)
    except (HarnessError, floatcut.CutRangeError) as e:
        # the idiom still matches but the (edited) leaf no longer agrees with / fits the justified cut: nothing can be
        # discharged through it; go on in search mode (candidates are replayed on the real code)
        unjustified.append(f'{type(e).__name__}: {e}')
        R.log(f'[C12] justified cut not applicable: {unjustified[0]} -> search mode only')
    lemmas_ok = False if unjustified else floatcut.prove(R, rules, lim, timeout_s=150 if quick else 600, workers=8,
                                                         second=None if quick else 'cvc5')

    # 2. CrossHair
    src, names = T.source(quick, variants, H)
    gm = chrun.gen_module('C12_conditions', src)
    targets = []
    for kind, fn, meta in names:
        targets.append(f'{gm}.{fn}')
        if kind != 'selectK':
            targets.append(f'{gm}.reach_{fn}')
    res = chrun.run(targets, per_condition_timeout=pct, workers=8)
    floatcut.require_verdicts(res)
    meta_of = {fn: (kind, meta) for kind, fn, meta in names}

    def argnames(fn):
        kind, meta = meta_of[fn]
        stub = kind == 'select' and meta['wt_i'] == 0 and meta['variant'] != 3
        return ARGS[kind] + ([f'pr{i}' for i in range(T.NPRICE)] if stub else [])

    refuted = {fn: (res[f'{gm}.{fn}'][1], argnames(fn)) for kind, fn, _ in names
               if res[f'{gm}.{fn}'][0] == 'refuted' and kind in ('pool', 'select')}
    decided = floatcut.two_phase(gm, refuted, lambda fn, a: _replay(H, *meta_of[fn], a), pct, prefix='T_') if refuted else {}
    for kind, fn, meta in names:
        v, msg, dt = res[f'{gm}.{fn}']
        if kind == 'selectK':
            rv, rmsg, reach = 'n/a', 'n/a', True
        else:
            rv, rmsg, rdt = res[f'{gm}.reach_{fn}']
            reach = rv == 'refuted' and 'Error' not in rmsg
        desc = {'pool': 'convert_requests_to_resources sound and complete, worker cores symbolic',
                'select': 'select_inst_coll sound and complete' + (' (known class excluded)' if meta.get('variant') == 3 else ''),
                'selectK': 'select_inst_coll, known class not excluded',
                'private': 'job-private machine types placed unless storage exceeds the limit'}[kind]
        name = f'{fn}: {desc}'
        if v == 'confirmed':
            good = reach and lemmas_ok and not unjustified
            R.ob(name, 'discharged' if good else 'not_discharged', dt,
                 {'twin': rmsg, 'lemmas_ok': lemmas_ok, 'unjustified': unjustified}, nontrivial=reach)
        elif v == 'refuted':
            if fn in decided:
                d = decided[fn]
                dt += d['secs']
                a, r = d['args'], d['result']
                if r is None:
                    R.ob(name, 'not_discharged', dt, {'crosshair': msg[-300:], 'phase1': d['how'], 'search_twin': d['twin'],
                         'note': 'no counterexample reproduced on the real code (lemma-range exit, over-approximating cut or '
                                 'symbolic prices); the search-mode run found none that does'})
                    continue
                how = d['how']
            else:
                a = chrun.parse_counterexample(msg, ARGS[kind])
                if a is None:
                    raise HarnessError(f'cannot parse CrossHair counterexample: {msg}')
                r = _replay(H, kind, meta, a)
                how = 'direct'
                if r is None:
                    raise HarnessError(f'CrossHair counterexample does not reproduce on the real code: {fn}: {msg}')
            cls, why = r
            rep = {'kind': kind, 'meta': meta, 'args': {k: a[k] for k in ARGS[kind]}}
            if 'ck' in rep['args']:
                rep['args']['c_mcpu'] = 250 << rep['args']['ck']
            pools = H.describe(H.config(meta['cloud'], meta['variant'])) if 'variant' in meta else None
            st = R.finding(cls, f'{fn} {rep["args"]}: {why}' + (f' pools={pools}' if pools else ''), rep)
            R.ob(name, st, dt, {'cex': rep['args'], 'why': why, 'found_by': how}, nontrivial=True)
        else:
            R.ob(name, 'not_discharged', dt, {'crosshair': msg[-300:]})
        R.sample({'condition': fn, 'verdict': v, 'secs': round(dt, 1), 'twin': rv})
    open_obs = [o['name'] for o in R.obligs if o['status'] == 'not_discharged']
    if (missing or unjustified) and open_obs and not R.violations:
        # a float leaf was edited so that its idiom is no longer recognised and the uncut leaf could not be decided:
        # the source is no longer translatable => inconclusive (exit 2), never a silent pass
        raise HarnessError(f'float idiom no longer recognised in {missing} / justified cut not applicable {unjustified}: '
                           f'{len(open_obs)} obligations are undecided and the search mode found no counterexample that replays')


def replay(path):
    d = json.load(open(path))['replay']
    H = _H()
    r = _replay(H, d['kind'], d['meta'], d['args'])
    print('property holds' if r is None else f'property violated: {r[0]}: {r[1]}', d)
    return 0 if r is None else 1
