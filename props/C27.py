"""C27 — database transactions retry only transient MySQL errors, atomically (CrossHair on the real gear.database)."""
import ast
import itertools
import json

from vt import chrun, loader
from vt.common import HarnessError

LEVEL = 'other'
EXPLANATION = (
    'CrossHair (symbolic execution, z3) runs the real gear.database retry_transient_mysql_errors, '
    'exception_log_level_if_retryable, transaction, Database.start, TransactionAsyncContextManager and Transaction '
    '(async_init, _aexit/_aexit_1, just_execute, execute_update, execute_insertone, execute_and_fetchone, execute_many) '
    'plus Database.just_execute / execute_update / execute_insertone / execute_and_fetchone / select_and_fetchone / '
    'check_call_procedure / execute_many, on the real asyncio scheduling core, against a fake pool/connection with '
    'a two-level store (committed, pending per connection) and a fault plan: attempt a fails at operation op_a '
    '(0 connect, 1 START TRANSACTION, then each statement, last COMMIT; one more value = never) with '
    'pymysql.err.<class>(code): class in {Operational, Internal, Integrity, Programming} or a ValueError, code a '
    'symbolic integer in -1..100000. Symbolic: op_a, class_a, code_a for every planned fault (quick: up to 2 faults, '
    '1..3 statements; thorough: 2 faults everywhere, and 3 faults for the one-statement transaction with the first '
    'fault at its statement). Oracle (written from the property text, not from the module\'s tuples): the '
    'attempt is retried iff (Operational and code in {1040,1205,1213,2003,2013}) or (Internal and code = 1205) - deadlock, lock wait timeout, lost connection, cannot connect, too many connections in the classes PyMySQL reports them with (1.x: all OperationalError; < 0.10: 1205 as InternalError), otherwise '
    'that very exception object is raised at once; the committed store is unchanged whenever an attempt begins and '
    'after a raised error, and equals initial + the writes exactly once after success; one back-off call per retry '
    'with tries 1,2,..; every acquired connection is released; read_only selects START TRANSACTION READ ONLY. Only '
    '"Confirmed over all paths" counts.'
)
SRC = 'gear/gear/database.py'
FUNCS = ('exception_log_level_if_retryable', 'retry_transient_mysql_errors', 'transaction', 'aenter', 'aexit',
         '_release_connection')
CLASSES = ('TransactionAsyncContextManager', 'Transaction', 'Database')
CLS = 'transaction-retry-or-atomicity-violated'


SINGLE = ('execute_update', 'just_execute', 'execute_and_fetchone', 'select_and_fetchone', 'execute_insertone',
          'check_call_procedure')


def plan(tier):
    """(entry, nstmt, read_only, nfaults, number of leading faults whose op is fixed per shard)"""
    if tier == 'quick':
        return ([('transaction', 2, False, 2, 1), ('transaction', 3, False, 1, 0), ('transaction', 1, True, 2, 1),
                 ('execute_update', 1, False, 2, 1), ('execute_many', 2, False, 1, 0)]
                + [(e, 1, False, 1, 0) for e in SINGLE[1:]])
    return ([('transaction', n, ro, 2, 1) for n in (1, 2, 3) for ro in (False, True)]
            + [('transaction', 1, False, 3, 2), ('execute_many', 3, False, 2, 1)]
            + [(e, 1, False, 2, 1) for e in SINGLE])


def run(R):
    from harness import C27_db as H
    from harness import C27_template as T
    quick = R.tier == 'quick'
    pct = 400 if quick else 1300
    R.bounds = {'entry points': 'function under @transaction(db[, read_only]) with 1..3 statements (just_execute, '
                                'execute_update, execute_insertone); Database.execute_many; Database.' + '/'.join(SINGLE),
                'faults': '<= 2 planned faults (quick) / <= 3 (thorough; with 3 the first one hits the first statement), one per '
                          'attempt, at any operation or never',
                'error classes': 'OperationalError, InternalError, IntegrityError, ProgrammingError, ValueError',
                'error code': '-1..100000 (symbolic)', 'configurations': [list(p) for p in plan(R.tier)]}
    R.assume(
        'pymysql is not installed: a real-shaped pymysql.err hierarchy (MySQLError > Error > DatabaseError > '
        'OperationalError/InternalError/IntegrityError/ProgrammingError; args = (code, message)) is put into sys.modules '
        'before gear.database is imported; aiomysql is an inert stub and never reached (the pool is the fake)',
        'fake server: a fault is raised BEFORE the operation takes effect (a failing COMMIT commits nothing); at most one '
        'fault per attempt; ROLLBACK and releasing the connection never fail; releasing a connection that is inside a '
        'transaction discards its pending writes (aiomysql closes such a connection)',
        'in gear.database\'s namespace sleep_before_try records its argument and returns, log is silent, '
        'traceback.format_stack returns [], the two prometheus metrics are no-op objects',
        'the event loop is asyncio.BaseEventLoop with a null selector, a constant clock and a task factory that keeps '
        'tasks alive (real Task/Future/shield machinery); nothing here uses timers or I/O',
        'cancellation of a transaction in flight, nested transactions, execute_and_fetchall generators and '
        'Database.async_init/create_database_pool are outside the explored space',
        'CrossHair 0.0.110 path exploration is exhaustive when it reports "Confirmed over all paths"',
    )
    R.extra['trusted_base'] = ['CrossHair/z3', 'harness/C27_db.py fake server and oracle',
                               'asyncio.BaseEventLoop/Task/Future (real, CPython 3.12)']
    text = loader.read(SRC)
    for n in ast.parse(text).body:
        if isinstance(n, (ast.FunctionDef, ast.AsyncFunctionDef)) and n.name in FUNCS:
            R.encode(f'{SRC}:{n.lineno} {n.name}', ast.get_source_segment(text, n))
        if isinstance(n, ast.ClassDef) and n.name in CLASSES:
            R.encode(f'{SRC}:{n.lineno} class {n.name}', ast.get_source_segment(text, n))
    conds = []
    for entry, nstmt, ro, nf, nfix in plan(R.tier):
        ops = H.n_ops(entry, nstmt)
        for fixed in itertools.product(range(ops + 1), repeat=nfix):
            if nf >= 3 and fixed[0] != 2:
                continue   # three-fault plans: the first fault always hits the first statement (keeps thorough in budget)
            # a fixed op that is never reached ends the plan: drop shards that only differ behind it
            dead = [i for i, f in enumerate(fixed) if f == ops]
            if dead and any(f != ops for f in fixed[dead[0]:]):
                continue
            conds.append((entry, nstmt, ro, nf, fixed))
    gm = chrun.gen_module(f'C27_conditions_{R.tier}', T.source(conds, H.n_ops))
    targets = [f'{gm}.{T.name(*c)}' for c in conds] + [f'{gm}.{T.name(*c, twin=True)}' for c in conds]
    res = chrun.run(targets, per_condition_timeout=pct, workers=8)
    for c in conds:
        entry, nstmt, ro, nf, fixed = c
        v, msg, dt = res[f'{gm}.{T.name(*c)}']
        tv = res[f'{gm}.{T.name(*c, twin=True)}'][0]
        reach = tv == 'refuted'
        name = (f'{entry}, {nstmt} statement(s), read_only={ro}, {nf} planned fault(s)'
                + (f', first fault op(s) {list(fixed)}' if fixed else '') + ': retry iff transient, atomic, no leak')
        if v == 'confirmed':
            R.ob(name, 'discharged' if reach else 'not_discharged', dt, {'twin': tv}, nontrivial=reach)
        elif v == 'refuted':
            args = chrun.parse_counterexample(msg, T.argnames(nf, fixed))
            if args is None:
                raise HarnessError(f'cannot parse CrossHair counterexample: {msg}')
            faults = [[fixed[i] if i < len(fixed) else args[f'op{i}'], args[f'cls{i}'], args[f'code{i}']]
                      for i in range(nf)]
            rep = {'entry': entry, 'nstmt': nstmt, 'read_only': ro, 'faults': faults}
            why = explain(rep, H)
            if not why:
                raise HarnessError(f'CrossHair counterexample does not reproduce concretely: {msg}')
            pretty = [(f[0], H.CLASSES[f[1]] if 0 <= f[1] < 5 else f[1], f[2]) for f in faults]
            st = R.finding(CLS, f'{entry} with {nstmt} statement(s), read_only={ro}, fault plan (op, class, code) '
                           f'{pretty}: {why}', rep)
            R.ob(name, st, dt, {'cex': rep, 'why': why}, nontrivial=True)
        else:
            R.ob(name, 'not_discharged', dt, {'crosshair': msg[-300:]})
        R.sample({'condition': T.name(*c), 'verdict': v, 'secs': round(dt, 1), 'twin': tv})


def explain(rep, H):
    try:
        return H.check(rep['entry'], rep['nstmt'], rep['read_only'], [tuple(f) for f in rep['faults']])
    except Exception as e:
        return f'harness raised {type(e).__name__}: {e}'


def replay(path):
    from harness import C27_db as H
    rep = json.load(open(path))['replay']
    why = explain(rep, H)
    print(f'property violated: {why}' if why else 'property holds', rep)
    return 1 if why else 0
