"""C01 — scheduler job/core counters always match job states (E1 sqlsym: trigger step + BMC)."""
import itertools
import json
import os
import time

import z3

from vt.common import HarnessError
from vt.sqlsym import bmc, catalog, model, oracle
from vt.sqlsym import ops as sqlops
from vt.sqlsym.interp import GLOBAL_S as S
from vt.sqlsym.interp import NULL, V, b_and, b_not, b_or, is_sym, ite
from vt.sqlsym.seqcheck import run_bmc_property, trigger_rows

LEVEL = 'model_checking'
EXPLANATION = (
    'Two layers, both decided by z3 over the real SQL/Python. (a) Trigger step: jobs_after_update (parsed from the '
    'live migration) is executed symbolically on an arbitrary OLD/NEW job row and arbitrary group-cancelled bit; each of '
    'the 13 counter deltas must equal f(NEW)-f(OLD) for the recount indicator f — loop-free LIA, all values. (b) Bounded '
    'model checking: from the EMPTY database the real front-end code (create_batch, create_job_groups, _create_jobs, '
    'commit_update, cancel_job_group_in_db, create_update) and the real stored procedures are run on a batch whose shape '
    '(group tree, job->group, parents, always_run, cores, tokens) is symbolic, followed by k operations with symbolic '
    'arguments (one query per operation-kind sequence); after every step user_inst_coll_resources and '
    'job_group_inst_coll_cancellable_resources token-sums must equal the recount from jobs.'
)

ALPHABET = ['schedule', 'creating', 'started', 'complete', 'unschedule', 'deactivate', 'cancel_group', 'cleanup_cancellable',
            'cleanup_staging', 'u2_create', 'u2_jobs', 'u2_commit']


def counted(f):
    """Jobs the scheduler-facing counters are meant to cover: jobs of committed updates (C41 covers the
    inertness of uncommitted ones)."""
    return f.committed


def has_parent(db, f):
    return b_or(*[b_and(r.present, oracle.i_eq(f.j, k[1])) for k, r in db.t['job_parents'].rows.items()])


def counted_known(db):
    """Finding class `uncommitted-child-readied-by-parent-completion` as a predicate: the implementation also
    counts jobs of an uncommitted NON-initial update that have at least one parent (mark_job_complete flips them)."""
    def c(f):
        return b_or(f.committed, b_and(b_not(f.committed), b_not(oracle.i_eq(f.update, 1)), has_parent(db, f)))
    return c


def asserts(sc):
    db = sc.db
    out = []
    for k in db.t['inst_colls'].rows:
        ic = k[0]
        sums = oracle.user_counter_sums(db, ic)
        rec = oracle.user_counter_recount(db, ic, counted)
        rec_k = oracle.user_counter_recount(db, ic, counted_known(db))
        for c in rec:
            out.append((f'user_inst_coll_resources[{S.name(ic)}].{c} = recount', oracle.eq(sums[c], rec[c]),
                        oracle.eq(sums[c], rec_k[c])))
        for u in [kk[1] for kk in db.t['batch_updates'].rows]:
            for g in oracle.groups(db):
                sums = oracle.cancellable_sums(db, u, g, ic)
                rec = oracle.cancellable_recount(db, u, g, ic)
                # rows under a cancelled strict ancestor are stale by design (main.py deletes them)
                live = b_not(oracle.strict_ancestor_cancelled(db, g))
                for c in rec:
                    e = oracle.eq(sums[c], rec[c])
                    e = z3.Implies(live, e) if is_sym(live) else (e if live else True)
                    out.append((f'cancellable[u{u},g{g},{S.name(ic)}].{c} = recount', e))
    return out


# ---- layer (a): the trigger's delta algebra -----------------------------------------------------------
def trigger_step(R):
    trg = catalog.routine('jobs_after_update')
    R.encode(f"{trg['file']}:{trg['line']} jobs_after_update", trg['rest'])
    t0 = time.time()
    sizes = model.Sizes(J=1, G=2, U=1, I=1, A=1, T=2, IC=1)
    db, typed = model.symbolic_db(sizes, 'pre')
    # job 1 exists in group `grp`; ancestors table arbitrary; batches row present
    jr = db.t['jobs'].rows[(1, 1)]
    jr.present = True
    db.t['batches'].rows[(1,)].present = True
    db.t['batch_updates'].rows[(1, 1)].present = True
    before_user = {k: dict(r.vals) for k, r in db.t['user_inst_coll_resources'].rows.items()}
    before_user_p = {k: r.present for k, r in db.t['user_inst_coll_resources'].rows.items()}
    before_c = {k: dict(r.vals) for k, r in db.t['job_group_inst_coll_cancellable_resources'].rows.items()}
    before_c_p = {k: r.present for k, r in db.t['job_group_inst_coll_cancellable_resources'].rows.items()}
    pre = db.copy()
    # arbitrary update of state / cancelled (the only mutable columns the counters depend on; always_run, cores,
    # inst_coll, group are immutable per the trigger's own comments and no routine assigns them)
    new_state = z3.Int('new_state')
    new_cancelled = z3.Int('new_cancelled')
    cons = list(typed) + [z3.Or(*[new_state == c for c in oracle.STATE.values()]), z3.Or(new_cancelled == 0, new_cancelled == 1)]
    ic = list(db.t['inst_colls'].rows)[0][0]
    cons.append(jr.vals['inst_coll'].v == ic)
    cons.append(z3.Or(jr.vals['job_group_id'].v == 0, jr.vals['job_group_id'].v == 1))
    cons.append(jr.vals['update_id'].v == 1)
    # counters rows: treat absent rows as zero rows (the INSERT creates them)
    for t in ('user_inst_coll_resources', 'job_group_inst_coll_cancellable_resources'):
        for r in db.t[t].rows.values():
            for c in db.t[t].cols:
                cons.append(z3.Implies(z3.Not(r.present), r.vals[c].v == 0))
    sqlops.execute(db, 'UPDATE jobs SET state = %s, cancelled = %s WHERE batch_id = 1 AND job_id = 1;',
                   [V(new_state), V(new_cancelled)])
    cons += [c for c in db.env_constraints if is_sym(c)]
    cons.append(z3.Not(db.oob) if is_sym(db.oob) else z3.BoolVal(not db.oob))
    f_old = oracle.JobFacts(pre, 1)
    f_new = oracle.JobFacts(db, 1)
    # group-cancelled bit is the same before and after (the statement does not touch it)

    def ind(f, state, kind):
        s = f.in_state(state)
        return b_and(s, {'live': b_not(f.cancelled), 'cancelled': f.cancelled, 'cancellable': f.cancellable}[kind])

    obligations = []
    user_cols = {
        'n_ready_jobs': ('Ready', 'live', False), 'ready_cores_mcpu': ('Ready', 'live', True),
        'n_running_jobs': ('Running', 'live', False), 'running_cores_mcpu': ('Running', 'live', True),
        'n_creating_jobs': ('Creating', 'live', False), 'n_cancelled_ready_jobs': ('Ready', 'cancelled', False),
        'n_cancelled_running_jobs': ('Running', 'cancelled', False), 'n_cancelled_creating_jobs': ('Creating', 'cancelled', False),
    }
    for col, (st, kind, cores) in user_cols.items():
        after = sum(ite(r.present, r.vals[col].v, 0) for r in db.t['user_inst_coll_resources'].rows.values())
        before = sum(ite(before_user_p[k], before_user[k][col].v, 0) for k in before_user)
        w = f_old.cores if cores else 1
        want = ite(ind(f_new, st, kind), w, 0) - ite(ind(f_old, st, kind), w, 0)
        obligations.append((f'trigger delta user.{col}', after - before == want))
    canc_cols = {
        'n_ready_cancellable_jobs': ('Ready', False), 'ready_cancellable_cores_mcpu': ('Ready', True),
        'n_creating_cancellable_jobs': ('Creating', False), 'n_running_cancellable_jobs': ('Running', False),
        'running_cancellable_cores_mcpu': ('Running', True),
    }
    for g in (0, 1):
        for col, (st, cores) in canc_cols.items():
            rows = [(k, r) for k, r in db.t['job_group_inst_coll_cancellable_resources'].rows.items() if k[2] == g]
            after = sum(ite(r.present, r.vals[col].v, 0) for k, r in rows)
            before = sum(ite(before_c_p[k], before_c[k][col].v, 0) for k, r in rows)
            w = f_old.cores if cores else 1
            inside = f_old.in_subtree(pre, g)
            want = ite(b_and(inside, ind(f_new, st, 'cancellable')), w, 0) - ite(b_and(inside, ind(f_old, st, 'cancellable')), w, 0)
            obligations.append((f'trigger delta cancellable[g{g}].{col}', after - before == want))
    build = time.time() - t0
    for name, ob in obligations:
        s = z3.Solver()
        s.set('timeout', 60000)
        s.add(*cons)
        t = time.time()
        reach = str(s.check()) == 'sat'
        s.add(z3.Not(ob))
        r = str(s.check())
        dt = time.time() - t
        if r == 'unsat':
            R.ob(name, 'discharged', dt, nontrivial=reach)
        elif r == 'sat':
            m = s.model()
            wit = {
                'old': {c: str(m.eval(pre.t['jobs'].rows[(1, 1)].vals[c].v, model_completion=True)) for c in
                        ('state', 'cancelled', 'always_run', 'cores_mcpu', 'job_group_id')},
                'new_state': S.name(m.eval(new_state, model_completion=True).as_long()),
                'new_cancelled': m.eval(new_cancelled, model_completion=True).as_long(),
                'group_cancelled': str(m.eval(f_old.group_cancelled, model_completion=True)) if is_sym(f_old.group_cancelled) else f_old.group_cancelled,
            }
            wit['old']['state'] = S.name(int(wit['old']['state']))
            # replay: concrete run of the same statement on the concretised pre-state
            ok = replay_trigger(pre, m, new_state, new_cancelled, name)
            if ok:
                raise HarnessError(f'trigger-step counterexample does not reproduce concretely: {name} {wit}')
            st = R.finding('trigger-delta-wrong', f'jobs_after_update: {name} violated for {wit}',
                           {'kind': 'trigger', 'witness': wit, 'obligation': name})
            R.ob(name, st, dt, wit, nontrivial=True)
        else:
            R.ob(name, 'not_discharged', dt, {'solver': r})
    R.sample({'layer': 'trigger-step', 'obligations': len(obligations), 'build_s': round(build, 2)})


def replay_trigger(pre, m, new_state, new_cancelled, name):
    """Concrete re-execution of the trigger on the model's pre-state with the concrete emulator; returns
    True when the recount identity holds concretely (i.e. the counterexample did NOT reproduce)."""
    cdb = model.concretize(pre, m)
    cdb.concrete_env = lambda n, a: 0
    before = cdb.copy()
    ns = m.eval(new_state, model_completion=True).as_long()
    nc = m.eval(new_cancelled, model_completion=True).as_long()
    sqlops.execute(cdb, 'UPDATE jobs SET state = %s, cancelled = %s WHERE batch_id = 1 AND job_id = 1;', [V(ns), V(nc)])
    ic = list(cdb.t['inst_colls'].rows)[0][0]

    def tot(db, table, col, pred=lambda k: True):
        return sum(r.vals[col].v for k, r in db.t[table].rows.items() if r.present and pred(k))
    f0, f1 = oracle.JobFacts(before, 1), oracle.JobFacts(cdb, 1)
    for db_, f in ((before, f0), (cdb, f1)):
        pass
    okay = True
    rec0 = oracle.user_counter_recount(before, ic, lambda f: True)
    rec1 = oracle.user_counter_recount(cdb, ic, lambda f: True)
    for col in rec0:
        d = tot(cdb, 'user_inst_coll_resources', col) - tot(before, 'user_inst_coll_resources', col)
        if d != rec1[col] - rec0[col]:
            okay = False
    for g in (0, 1):
        r0 = oracle.cancellable_recount(before, 1, g, ic)
        r1 = oracle.cancellable_recount(cdb, 1, g, ic)
        for col in r0:
            d = tot(cdb, 'job_group_inst_coll_cancellable_resources', col, lambda k: k[2] == g) - \
                tot(before, 'job_group_inst_coll_cancellable_resources', col, lambda k: k[2] == g)
            if d != r1[col] - r0[col]:
                okay = False
    return okay


def run(R):
    R.assume(*COMMON_ASSUMPTIONS)
    trigger_step(R)
    from vt.sqlsym.seqcheck import sqlite_validation
    sqlite_validation(R, model.Sizes(J=3, G=2, U=2, I=1, A=2, T=2, IC=1), 2, 1)
    quick = R.tier == 'quick'
    sizes = model.Sizes(J=3, G=2, U=2, I=1, A=2, T=2, IC=1) if quick else model.Sizes(J=3, G=3, U=2, I=2, A=2, T=2, IC=1)
    depth = 2
    alphabet = [a for a in ALPHABET if not a.startswith('u2_')] if quick else ALPHABET
    run_bmc_property(R, 'C01', sizes, n1=sizes.J - 1, g1=sizes.G - 1, alphabet=alphabet, depth=depth, asserts=asserts,
                     classify=classify, extra_seqs=DEEP, workers=int(os.environ.get('VERIF_WORKERS', '12')))
    # operations that arrive BEFORE update 1 is committed (cancel of a job group of the uncommitted update, a second
    # client's update), then the commit
    run_bmc_property(R, 'C01', model.Sizes(J=3, G=2, U=2, I=1, A=2, T=2, IC=1), n1=2, g1=1, alphabet=['cancel_group', 'commit1', 'schedule'],
                     depth=2, asserts=asserts, classify=classify, commit=False,
                     extra_seqs=[('cancel_group', 'commit1', 'schedule'), ('cancel_group', 'commit1', 'cancel_group'),
                                 ('cancel_group', 'commit1', 'schedule', 'complete')],
                     workers=int(os.environ.get('VERIF_WORKERS', '12')))
    from props import _sqlcommon as sc_
    if not quick:
        # (in quick the counter recounts make this query time out; the stale-attempt histories are decided there by C04/C10/C39)
        sc_.stale_pass(R, 'C01', asserts, classify)


DEEP = [
    ('u2_create', 'u2_jobs', 'schedule', 'complete'),      # child inserted, parent completes, commit never
    ('u2_create', 'u2_jobs', 'cancel_group', 'u2_commit'),  # cancel between insert and commit
    ('schedule', 'started', 'cancel_group', 'complete'),
    ('schedule', 'deactivate', 'schedule', 'complete'),
    ('creating', 'schedule', 'unschedule', 'cancel_group'),
    ('cancel_group', 'cleanup_cancellable', 'schedule', 'cancel_group'),   # clean-up between a sub-group cancel and later work
    ('cancel_group', 'cleanup_cancellable', 'cancel_group', 'complete'),
    ('cleanup_staging', 'u2_create', 'u2_jobs', 'u2_commit', 'cleanup_staging'),
]


def classify(which, vals, sc, known):
    """Finding class: `known` means the violation disappears under the relaxed oracle of counted_known()."""
    return 'uncommitted-child-readied-by-parent-completion' if known else 'counters-differ-from-recount'


COMMON_ASSUMPTIONS = [
    'each stored-procedure call and each @transaction body executes atomically and serially (InnoDB locking, isolation '
    'anomalies and deadlocks are outside the claim)',
    'MySQL semantics are those of the vt/sqlsym interpreter (S1-S8 in DESIGN.md 3.1); no server in the sandbox',
    'INT/BIGINT overflow is not modelled (mathematical integers)',
    'one batch, one user; identifiers (instances, attempts, inst_colls) range over the bounded key spaces stated in bounds',
    'authentication is bypassed and inst_coll selection, JSON, file store, clock and token randomness are stubs returning '
    'arbitrary values of their type (vt/sqlsym/batchops.py lists them)',
    'schedule_job/mark_job_creating are only issued for jobs the scheduler query selects (group running, job Ready, '
    'always_run or not cancelled) with a fresh attempt id; started/complete/unschedule name an existing attempt and its instance',
    'parents of a job are earlier jobs (documented precondition; C08 examines its enforcement)',
]


def replay(path):
    from vt.sqlsym.seqcheck import replay_file
    return replay_file(path, asserts)
