"""C13 — job billing never exceeds the instance and survives serialization (E2: CrossHair on the real billing code)."""
import importlib
import json

from vt import chrun, floatcut
from vt.common import HarnessError

LEVEL = 'other'
EXPLANATION = (
    'CrossHair (symbolic execution with z3) runs the real InstanceConfig.quantified_resources with the real resource classes '
    '(gcp/azure *Resource.to_quantified_resource, create, to_dict, from_dict, instance_config_from_config_dict through json) '
    'on instance configurations chosen by a SYMBOLIC index into the list built from the repository tables (job-private: every '
    'valid machine type; pool workers: every worker type x power-of-two core count) x local-ssd/external data disk, '
    'preemptible a symbolic bool, and job requests (mcpu, MiB of memory, GiB of extra storage) as symbolic integers. '
    'Obligations: (pack) m jobs with non-negative mcpu and memory that fit together on the worker are billed per resource name '
    'in total at most the whole-worker bill (m = 2,3 quick; 2,3,4 thorough; any non-negative integers, not only power-of-two '
    'shares); (whole) a job taking all cores with the matching memory is billed exactly the whole worker plus, for e GiB extra '
    'storage, a disk of >= e GiB and nothing else; (roundtrip) a config serialised and reloaded bills identical names and '
    'quantities for every request and re-serialises identically. Only "Confirmed over all paths" counts.'
)
CLS = {'pack': 'jobs-billed-more-than-worker', 'whole': 'whole-worker-job-not-billed-whole-worker',
       'roundtrip': 'instance-config-roundtrip-changes-bill'}


def _H():
    return importlib.import_module('harness.C13_bill')


def _argnames(kind, meta):
    if kind == 'pack':
        out = ['ci', 'preemptible']
        for i in range(meta['m']):
            out += [f'c{i}', f'k{i}']
        return out
    if kind == 'whole':
        return ['ci', 'preemptible', 'e']
    return ['ci', 'preemptible', 'c', 'k', 'e']


def _violation(H, kind, meta, a):
    cloud, jp = meta['cloud'], meta['jp']
    cfgdesc = H.CONFIGS[(cloud, jp)][a['ci']]
    try:
        if kind == 'pack':
            cs = [a[f'c{i}'] for i in range(meta['m'])]
            ks = [a[f'k{i}'] for i in range(meta['m'])]
            ok = H.pack_ok(cloud, jp, a['ci'], a['preemptible'], cs, ks)
            what = f'jobs mcpu={cs} MiB={ks}'
        elif kind == 'whole':
            ok = H.whole_ok(cloud, jp, a['ci'], a['preemptible'], a['e'])
            what = f'extra storage {a["e"]} GiB'
        else:
            ok = H.roundtrip_ok(cloud, jp, a['ci'], a['preemptible'], a['c'], a['k'], a['e'])
            what = f'request mcpu={a["c"]} MiB={a["k"]} extra={a["e"]}'
    except Exception as e:
        return f'{cfgdesc} job_private={jp}: raises {type(e).__name__}: {e}'
    if ok:
        return None
    return f'{cfgdesc} job_private={jp} preemptible={a["preemptible"]}: {what}'


def run(R):
    quick = R.tier == 'quick'
    H = _H()
    from harness import C13_template as T
    ms = [2, 3] if quick else [2, 3, 4]
    R.bounds = {'jobs per packing': ms, 'configurations': {f'{c}/{"job-private" if jp else "pool"}': len(v) for (c, jp), v in H.CONFIGS.items()},
                'request mcpu': '0..2^20-1 (roundtrip), any >= 0 (pack)', 'memory MiB': '0..2^30-1 (roundtrip), any >= 0 (pack)',
                'extra storage GiB': '0..64Ti (gcp) / ' + ('0..128 (azure, quick)' if quick else '0..32Ti (azure)')}
    R.assume('ProductVersions is the real class over a table where every product has version "1" (versions only appear in names)',
             'boot disk 10 GiB; data disk = the local-ssd size of the worker type or a per-configuration external size; two locations per cloud',
             'pool workers (job_private=False) are taken with power-of-two core counts only: quantified_resources asserts that '
             '(non-power-of-two pool sizes are C12\'s known finding)',
             'the packing obligation bills jobs without extra storage: extra disks are attached per job and are not part of the '
             'worker (the whole-worker bill has none by definition); extra storage is covered by the whole and roundtrip obligations',
             '"fit together" = sum of mcpu <= cores*1000 and sum of memory <= instance memory',
             'HAIL_TERRA is unset (AzureSlimInstanceConfig, not the Terra variant)',
             'CrossHair 0.0.110 path exploration is exhaustive when it reports "Confirmed over all paths"')
    R.extra['trusted_base'] = ['CrossHair/z3', 'harness/C13_bill.py oracle and configuration list']
    mods = {'batch/batch/instance_config.py': 'batch.instance_config', 'batch/batch/resources.py': 'batch.resources',
            'batch/batch/cloud/gcp/resources.py': 'batch.cloud.gcp.resources', 'batch/batch/cloud/azure/resources.py': 'batch.cloud.azure.resources',
            'batch/batch/cloud/gcp/instance_config.py': 'batch.cloud.gcp.instance_config',
            'batch/batch/cloud/azure/instance_config.py': 'batch.cloud.azure.instance_config', 'batch/batch/cloud/utils.py': 'batch.cloud.utils'}
    for rel, q in H.ENCODED:
        c = floatcut.cut(rel, q, mods[rel], rules=())
        R.encode(c.ref, c.text)
    emax = {'gcp': 64 * 1024, 'azure': 128} if quick else None
    src, names = T.source(H, ms, emax)
    gm = chrun.gen_module('C13_conditions', src)
    targets = [f'{gm}.{fn}' for _, fn, _ in names] + [f'{gm}.reach_{fn}' for _, fn, _ in names]
    res = chrun.run(targets, per_condition_timeout=170 if quick else 900, workers=8)
    floatcut.require_verdicts(res)
    for kind, fn, meta in names:
        rv, rmsg, rdt = res[f'{gm}.reach_{fn}']
        reach = rv == 'refuted' and 'Error' not in rmsg
        v, msg, dt = res[f'{gm}.{fn}']
        name = f'{fn}: ' + {'pack': f'{meta.get("m")} jobs that fit are billed <= the whole worker, per resource',
                            'whole': 'whole-worker job billed exactly the worker (+ its extra disk)',
                            'roundtrip': 'to_dict/json/from_dict preserves every bill'}[kind]
        if v == 'confirmed':
            R.ob(name, 'discharged' if reach else 'not_discharged', dt, {'twin': rmsg}, nontrivial=reach)
        elif v == 'refuted':
            a = chrun.parse_counterexample(msg, _argnames(kind, meta))
            if a is None:
                raise HarnessError(f'cannot parse CrossHair counterexample: {msg}')
            why = _violation(H, kind, meta, a)
            if why is None:
                raise HarnessError(f'CrossHair counterexample does not reproduce on the real code: {fn}: {msg}')
            st = R.finding(CLS[kind], why, {'kind': kind, 'meta': meta, 'args': a})
            R.ob(name, st, dt, {'cex': a, 'why': why}, nontrivial=True)
        else:
            R.ob(name, 'not_discharged', dt, {'crosshair': msg[-300:]})
        R.sample({'condition': fn, 'verdict': v, 'secs': round(dt, 1), 'twin': rv})


def replay(path):
    d = json.load(open(path))['replay']
    why = _violation(_H(), d['kind'], d['meta'], d['args'])
    print('property holds' if why is None else f'property violated: {why}')
    return 0 if why is None else 1
