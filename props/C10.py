"""C10 — instance free-core accounting is exact (E1 sqlsym BMC)."""
from props import _sqlcommon as sc_
from vt.sqlsym import asserts as A

LEVEL = 'model_checking'
EXPLANATION = ('After every operation, for every instance: if it is pending/active its free cores equal its total cores minus '
               'the cores of the attempts placed on it whose end time is unset; if it is inactive all cores are free — under '
               'duplicate, stale and reordered schedule/creating/started/complete/unschedule/deactivate messages.'
               + sc_.BMC_TEXT + ' In-memory side: the real driver coroutines schedule_job / mark_job_started / mark_job_complete / '
               'unschedule_job / mark_job_creating run natively (vt/glue) with a symbolic procedure result (rc, delta_cores_mcpu) and '
               'a symbolic mirror value; per path z3 shows the mirror moves by exactly the returned delta while the instance is in '
               'the state in which the mirror is maintained and not at all when it is inactive/deleted, and that the paths cover all values.')

ALPH = ['schedule', 'creating', 'started', 'complete', 'unschedule', 'deactivate', 'activate', 'cancel_group']
DEEP = [
    ('schedule', 'complete', 'complete', 'unschedule'),
    ('schedule', 'unschedule', 'complete', 'deactivate'),
    ('creating', 'activate', 'started', 'complete'),
    ('schedule', 'deactivate', 'complete', 'unschedule'),
    ('creating', 'deactivate', 'schedule', 'started', 'complete'),
    ('creating', 'unschedule', 'activate'),
    ('cancel_group', 'schedule', 'unschedule'),       # attempt of a refused schedule_job (job cancelled meanwhile) is ended
    ('cancel_group', 'schedule', 'complete', 'unschedule'),
]


def asserts(sc):
    from vt.sqlsym.interp import GLOBAL_S as S, b_or, i_eq

    def was_pending(k):
        dbs = list(sc.snapshots) + [sc.db]
        return b_or(*[i_eq(d.t['instances'].rows[k].vals['state'].v, S.code('pending')) for d in dbs])
    return A.free_cores(sc.db, was_pending)


def run(R):
    sc_.standard_run(R, 'C10', asserts, 'free-cores-differ-from-recount', deep=DEEP, quick_alphabet=ALPH, thorough_alphabet=ALPH,
                     known='pending-instance-ended-attempt-keeps-cores')
    # in-memory side: the driver's mirror (Instance.adjust_free_cores_in_memory) moves in lockstep with the procedures' deltas
    from harness import C10_mirror
    C10_mirror.run(R)


def replay(path):
    import json
    d = json.load(open(path))
    d = d.get('replay', d) if isinstance(d, dict) else d
    if isinstance(d, dict) and d.get('kind') == 'mirror':
        from harness import C10_mirror
        return 1 if C10_mirror.replay_case(d) else 0
    return sc_.replay_file(path, asserts)
