"""C10 — instance free-core accounting is exact (E1 sqlsym BMC)."""
from props import _sqlcommon as sc_
from vt.sqlsym import asserts as A

LEVEL = 'model_checking'
EXPLANATION = ('After every operation, for every instance: if it is pending/active its free cores equal its total cores minus '
               'the cores of the attempts placed on it whose end time is unset; if it is inactive all cores are free — under '
               'duplicate, stale and reordered schedule/creating/started/complete/unschedule/deactivate messages.'
               + sc_.BMC_TEXT)

ALPH = ['schedule', 'creating', 'started', 'complete', 'unschedule', 'deactivate', 'activate', 'cancel_group']
DEEP = [
    ('schedule', 'complete', 'complete', 'unschedule'),
    ('schedule', 'unschedule', 'complete', 'deactivate'),
    ('creating', 'activate', 'started', 'complete'),
    ('schedule', 'deactivate', 'complete', 'unschedule'),
    ('creating', 'deactivate', 'schedule', 'started', 'complete'),
    ('creating', 'unschedule', 'activate'),
    ('cancel_group', 'schedule', 'unschedule'),       # attempt of a refused schedule_job (job cancelled meanwhile) is ended
    ('cancel_group', 'schedule', 'complete', 'unschedule'),
]


def asserts(sc):
    from vt.sqlsym.interp import GLOBAL_S as S, b_or, i_eq

    def was_pending(k):
        dbs = list(sc.snapshots) + [sc.db]
        return b_or(*[i_eq(d.t['instances'].rows[k].vals['state'].v, S.code('pending')) for d in dbs])
    return A.free_cores(sc.db, was_pending)


def run(R):
    sc_.standard_run(R, 'C10', asserts, 'free-cores-differ-from-recount', deep=DEEP, quick_alphabet=ALPH, thorough_alphabet=ALPH,
                     known='pending-instance-ended-attempt-keeps-cores')


def replay(path):
    return sc_.replay_file(path, asserts)
