"""C40 - weighted transfer semaphore is safe and releases on cancellation (symbolic scheduler harness)."""
import ast
import importlib
import json

from vt import loader, sched

LEVEL = 'other'
EXPLANATION = (
    'CrossHair (symbolic execution, z3) runs the real hailtop.aiotools.weighted_semaphore.WeightedSemaphore, used '
    'through `async with sem.acquire_manager(n)` exactly as the copy tool does, under a director coroutine on the real '
    'asyncio scheduler. Task weights (1..capacity), error exits, the action of every step (start next task / let task i '
    'leave its body normally or by raising / cancel task i) and a per-step drain amount (nothing, one loop iteration, '
    'until quiescent) are symbolic. Asserted: weights inside never exceed capacity; once every task has exited, '
    'value == max and a fresh acquire(max) is granted at once. The schedule space is partitioned by what cancel() hits '
    '(blocked waiter / anything else / both) so that each leak mechanism is its own obligation; every counterexample is '
    're-run on the stock asyncio loop against the real class before it is reported. Only "Confirmed over all paths" '
    'discharges a shard. Bounded: quick 2 tasks, capacity 2, k=4 steps plus, with normal exits and full drains, 3 tasks capacity 3 k=4 and 4 tasks '
    'capacity 3 (all four started, then one free action: two holders and two waiters of different symbolic weights); thorough adds 2 tasks k=5, '
    '3 tasks capacity 3 k=4 (everything symbolic) and k=5, k=6 (plain), 4 tasks capacity 3 with two free actions and capacity 4 with one.'
)
SRC = 'hail/python/hailtop/aiotools/weighted_semaphore.py'
HM = 'harness.C40_wsem'
MODES = {0: 'cancelled blocked waiter consumes no capacity; exits return their weight (cancel hits blocked waiters only)',
         1: 'granted weight is returned on every exit (cancel hits holders, granted-not-resumed or not-yet-run tasks)',
         2: 'capacity returned under both kinds of cancel in one schedule'}


def params(nt, cap, k):
    return ([(f'w{i}', 'int', 1, cap) for i in range(nt)] + [(f'e{i}', 'bool') for i in range(nt)]
            + [(f'a{i}', 'int', 0, 2 * min(i, nt)) for i in range(1, k)] + [(f'd{i}', 'int', 0, 2) for i in range(k - 1)]
            + [('mode', 'int', 0, 2)])


def describe(a, meta):
    nt, cap, k = meta['nt'], meta['cap'], meta['k']
    def act(x):
        return 'start' if x == 0 else (('leave%d' if (x - 1) % 2 == 0 else 'cancel%d') % ((x - 1) // 2))
    acts = ['start'] + [act(a[f'a{i}']) for i in range(1, k)]
    dr = [a[f'd{i}'] for i in range(k - 1)] + [2]
    return ('WeightedSemaphore(%d) weights=(%s) raises=(%s) schedule=' % (
        cap, ','.join(str(a[f'w{i}']) for i in range(nt)), ','.join(str(a[f'e{i}'])[0] for i in range(nt)))
        + ' '.join(x + {0: '', 1: '+1iter', 2: '+drain'}[d] for x, d in zip(acts, dr)))


def plain(nt, k):
    """the 'plain' sub-family: bodies end normally, the loop is drained after every step (error exits and partial drains are
    explored by the families without this restriction)"""
    return {**{f'e{i}': False for i in range(nt)}, **{f'd{i}': 2 for i in range(k - 1)}}


def started(nt, k):
    """the 'all started' sub-family of plain(): steps 0..nt-1 start the nt tasks one after the other (each start drained), the
    remaining k-nt actions are free (leave i / cancel i); weights stay symbolic"""
    return {**plain(nt, k), **{f'a{i}': 0 for i in range(1, nt)}}


def groups_for(nt, cap, k, shard_on, modes=(0, 1, 2), const=None, tag=''):
    out = []
    for mode in modes:
        if mode == 2 and (k < 4 or (const and 'a1' in const and k - nt < 2)):
            continue   # mode 2 needs two cancels, i.e. two free actions
        name = f'C40_n{nt}k{k}m{mode}{tag}'
        out.append((mode, sched.gen_shards(name, HM, params(nt, cap, k), shard_on,
                                           entry=(f'check_{nt}_{cap}_{k}', f'reach_{nt}_{cap}_{k}'), const={'mode': mode, **(const or {})},
                                           prefix=f'n{nt}k{k}m{mode}{tag}_', meta={'nt': nt, 'cap': cap, 'k': k, 'mode': mode})[1]))
    return out


def run(R):
    text = loader.read(SRC)
    for n in ast.walk(ast.parse(text)):
        if isinstance(n, ast.ClassDef) and n.name in ('WeightedSemaphore', '_AcquireManager'):
            for f in n.body:
                if isinstance(f, (ast.FunctionDef, ast.AsyncFunctionDef)):
                    R.encode(f'{SRC}:{f.lineno} {n.name}.{f.name}', ast.get_source_segment(text, f))
    D = [0, 1, 2]
    if R.tier == 'quick':
        pct = 240
        groups = (groups_for(2, 2, 4, {'a1': [0, 1, 2], 'd0': D})
                  + groups_for(3, 3, 4, {'a1': [0, 1, 2], 'w0': [1, 2, 3]}, const=plain(3, 4), tag='p')
                  + groups_for(4, 3, 5, {'w0': [1, 2, 3]}, const=started(4, 5), tag='qs'))
        R.bounds = {'tasks': '2 tasks capacity 2 k=4 (everything symbolic); 3 tasks capacity 3 k=4 with normal exits and full drains '
                             '(weights, actions symbolic); 4 tasks capacity 3 with normal exits and full drains: the four tasks are '
                             'started one after the other, then 1 free action (leave i / cancel i), weights symbolic',
                    'weights': '1..capacity symbolic',
                    'drain': '0 / one loop iteration / until quiescent, symbolic per step (last step drains)'}
    else:
        pct = 1300
        groups = (groups_for(2, 2, 4, {'a1': [0, 1, 2], 'd0': D})
                  + groups_for(2, 2, 5, {'a1': [0, 1, 2], 'd0': D, 'd1': D, 'w0': [1, 2]})
                  + groups_for(3, 3, 4, {'a1': [0, 1, 2], 'd0': D, 'w0': [1, 2, 3]})
                  + groups_for(3, 3, 5, {'a1': [0, 1, 2], 'a2': [0, 1, 2, 3, 4], 'w0': [1, 2, 3]}, const=plain(3, 5), tag='p')
                  + groups_for(3, 3, 6, {'a1': [0, 1, 2], 'a2': [0, 1, 2, 3, 4], 'w0': [1, 2, 3]}, modes=(0,), const=plain(3, 6), tag='p')
                  + groups_for(4, 3, 5, {'w0': [1, 2, 3]}, const=started(4, 5), tag='ts')
                  + groups_for(4, 3, 6, {'w0': [1, 2, 3], 'a4': list(range(9))}, const=started(4, 6), tag='ts')
                  + groups_for(4, 4, 5, {'w0': [1, 2, 3, 4]}, const=started(4, 5), tag='ts4'))
        R.bounds = {'shapes': '(2 tasks, capacity 2, k=4), (2 tasks, capacity 2, k=5), (3 tasks, capacity 3, k=4); with normal exits and full drains also (3 tasks, capacity 3, k=5) and, for cancels of blocked waiters, k=6; 4 tasks with normal exits and full drains, '
                              'started one after the other and followed by free actions (leave i / cancel i): capacity 3 with 1 and 2 free actions, capacity 4 with 1 free action',
                    'weights': '1..capacity symbolic',
                    'drain': '0 / one loop iteration / until quiescent, symbolic per step (last step drains)'}
    R.assume('tasks are started in index order (they differ only by symbolic weight and error flag); step 0 is a start',
             'the 4-task families fix the first four actions to "start" (each drained to quiescence: a task that does not fit is '
             'queued), bodies end normally and every step is drained; which tasks hold and which wait follows from the symbolic weights',
             'every task uses the semaphore through `async with sem.acquire_manager(n)` (as copier.py does)',
             'cancellation = Task.cancel() on the task running that `async with`, at any point: before it ran, while '
             'blocked in acquire, after its event was set but before it resumed, while holding',
             '"capacity returned" is observed through the public counters value/max and through a fresh acquire(max)',
             'the partition into modes reads Task._fut_waiter.done(); the three modes cover every schedule whatever that '
             'predicate answers, and the oracle never uses it',
             'event loop = asyncio.BaseEventLoop scheduler with a fixed clock and a null I/O selector (vt/sched.py DetLoop); '
             'counterexamples are replayed on the stock loop',
             'CrossHair 0.0.110 path exploration is exhaustive when it reports "Confirmed over all paths"')
    R.extra['trusted_base'] = ['CrossHair/z3', 'CPython asyncio', 'vt/sched.py', 'harness/C40_wsem.py oracle']
    H = importlib.import_module(HM)
    shards = [s for _m, g in groups for s in g]
    sched.run_shards(shards, pct, workers=8)
    seen = {}
    for mode, g in groups:
        sched.discharge(R, g, MODES[mode], H.replay, describe, seen)


def replay(path):
    d = json.load(open(path))['replay']
    H = importlib.import_module(HM)
    ok, cls, why = H.replay(d['args'], d['meta'])
    print('property holds' if ok else f'property violated ({cls})', describe(d['args'], d['meta']), why)
    return 0 if ok else 1
