"""C15 — stored job specs and region sets round-trip (E2 CrossHair for the spec codec, E3 z3 BitVec-64 for regions)."""
import importlib
import json
import time

import z3

from vt import chrun, floatcut, loader
from vt.common import HarnessError

LEVEL = 'other'
EXPLANATION = (
    'Spec part: CrossHair (symbolic execution with z3) runs the real BatchFormatVersion.db_spec followed by get_spec_secrets / '
    '_service_account / _has_input_files / _has_output_files / _machine_spec on a spec assembled from symbolic atoms; the shape '
    'selectors (0-2 secrets each with mount_in_copy absent/False/True, secrets key absent/None/[], service account '
    'absent/None/present, input and output lists absent/empty/non-empty, machine_type absent/None/gcp/azure) are symbolic so '
    'every shape combination is a path; one condition per format version (quick 1,4,5,7; thorough 1..7) x secrets shape; only '
    '"Confirmed over all paths" counts. Region part: regions_to_bits_rep and regions_bits_rep_to_regions are translated from '
    'their AST to z3 terms over (_ BitVec 64) (loops unrolled over N=63 region names with a symbolic injective index map into '
    '1..63 and a symbolic selection) and z3 decides, one query per region and without bound on the subset, that a region is decoded iff selected, '
    'that the asserts hold, that no shift leaves the 64-bit model (so BitVec = Python int here) and that the value fits a signed '
    'BIGINT; a second family (N=16 regions) uses an arbitrary symbolic sequence of 4 (quick) / 6 (thorough) picks (duplicates, any order). The translator is '
    'validated each run on solver-chosen models against the real functions.'
)
SRC_BFV = 'batch/batch/batch_format_version.py'
CLS_SPEC = 'db-spec-roundtrip-loses-field'
CLS_REG = 'region-bitset-roundtrip-mismatch'


# ------------------------------------------------------------------------------------------------
# regions (E3)
# ------------------------------------------------------------------------------------------------
def _utils():
    loader.install()
    return importlib.import_module('batch.utils')


def _real_roundtrip(names, idxs, selected):
    """Concrete run of the real functions.  Returns (ok, detail)."""
    U = _utils()
    mapping = {n: i for n, i in zip(names, idxs)}
    try:
        bits = U.regions_to_bits_rep(selected, mapping)
        back = U.regions_bits_rep_to_regions(bits, mapping)
    except Exception as e:
        return False, f'raises {type(e).__name__}: {e}'
    ok = set(back) == set(selected) and len(back) == len(set(back)) and -(1 << 63) <= bits < (1 << 63)
    return ok, f'bits={bits} decoded={sorted(back)}'


def _regions(R, n, picks):
    import concurrent.futures as cf
    import multiprocessing as mp
    RG = importlib.import_module('harness.C15_regions')
    for fn in ('regions_to_bits_rep', 'regions_bits_rep_to_regions'):
        node, text = RG.load(fn)
        R.encode(f'{RG.SRC}:{node.lineno} {fn}', text)
    timeout_ms = 300000 if R.tier == 'quick' else 900000
    reported = 0
    # the pick-sequence family (duplicates, any order) runs first; once it has produced findings the subset family only
    # gets a short timeout (an encoder that is already refuted need not be proved on the duplicate-free inputs)
    for nn, pk, label in ((16, picks, f'N=16, sequence of {picks} picks'), (n, None, f'N={n}, any subset')):
        P = RG.Problem(nn, pk)
        if reported:
            timeout_ms = 20000
        tw = z3.Solver()
        tw.add(*P.pre)
        tw.add(z3.Or(*P.want))
        twin = str(tw.check())
        keys = list(P.goals)
        chunks = [keys[i::8] for i in range(8)]
        results = []
        with cf.ProcessPoolExecutor(max_workers=8, mp_context=mp.get_context('fork')) as ex:
            for part in ex.map(RG.solve_goals, [(nn, pk, c, timeout_ms) for c in chunks if c]):
                results.extend(part)
        for key, r, dt, cex in sorted(results, key=lambda x: keys.index(x[0])):
            name = f'regions {label}: {key}'
            if r == 'unsat':
                R.ob(name, 'discharged' if twin == 'sat' else 'not_discharged', dt, {'twin': twin}, nontrivial=twin == 'sat')
            elif r == 'sat':
                ci, sel = cex
                ok, detail = _real_roundtrip(P.names, ci, sel)
                reported += 0 if ok else 1
                if not ok and reported > 3:      # the same defect shows up once per region: report the first three
                    R.ob(name, 'violated', dt, {'idx': ci, 'selected': sel, 'note': 'same class as the findings above'}, nontrivial=True)
                    continue
                if ok:
                    raise HarnessError(f'z3 counterexample for "{key}" does not reproduce on the real functions: idx={ci} sel={sel}')
                st = R.finding(CLS_REG, f'regions_to_bits_rep/regions_bits_rep_to_regions idx={dict(zip(P.names, ci))} '
                               f'selected={sel}: {detail}', {'kind': 'regions', 'names': P.names, 'idxs': ci, 'selected': sel})
                R.ob(name, st, dt, {'idx': ci, 'selected': sel}, nontrivial=True)
            else:
                R.ob(name, 'not_discharged', dt, {'z3': r})
        if pk is None:
            # translator validation: solver-chosen models pushed through the real functions
            U = _utils()
            for extra in ([P.sel[0], z3.Not(P.sel[1])], [z3.Not(P.sel[0]), P.sel[n - 1], P.small[n - 1] == 63],
                          [z3.And(*P.sel)], [z3.Not(z3.Or(*P.sel))], [P.small[0] == 63, P.sel[0]],
                          [P.small[0] == 1, P.sel[0], P.sel[2]]):
                s = z3.Solver()
                s.add(*P.pre)
                s.add(*extra)
                if str(s.check()) != 'sat':
                    raise HarnessError('translator validation: no model')
                m = s.model()
                ci, sel = P.concretise(m)
                mapping = dict(zip(P.names, ci))
                real_bits = U.regions_to_bits_rep(sel, mapping)
                real_back = U.regions_bits_rep_to_regions(real_bits, mapping)
                model_bits = m.eval(P.bits, model_completion=True).as_long()
                model_back = [nm for nm in P.names if z3.is_true(m.eval(P.got[nm], model_completion=True))]
                if real_bits != model_bits or real_back != model_back:
                    raise HarnessError(f'translator validation failed: real bits={real_bits} back={real_back}; '
                                       f'model bits={model_bits} back={model_back}')
                R.validation_points += 1
    R.sample({'regions': n, 'picks': picks})


# ------------------------------------------------------------------------------------------------
# spec codec (E2)
# ------------------------------------------------------------------------------------------------
def _spec(R, versions):
    H = importlib.import_module('harness.C15_spec')
    from harness import C15_template as T
    for q in ('db_spec', 'get_spec_secrets', 'get_spec_service_account', 'get_spec_has_input_files',
              'get_spec_has_output_files', 'get_spec_machine_spec'):
        c = floatcut.cut(SRC_BFV, f'BatchFormatVersion.{q}', 'batch.batch_format_version', rules=())
        R.encode(c.ref, c.text)
    if max(versions) != H.BATCH_FORMAT_VERSION:
        raise HarnessError(f'BATCH_FORMAT_VERSION is {H.BATCH_FORMAT_VERSION}; the check covers 1..{max(versions)}')
    src, names = T.source(versions, [0, 1, 2, 3, 4])
    gm = chrun.gen_module('C15_conditions', src)
    targets = [f'{gm}.check_v{v}_s{s}' for v, s in names] + [f'{gm}.reach_v{v}_s{s}' for v, s in names]
    res = chrun.run(targets, per_condition_timeout=170 if R.tier == 'quick' else 600, workers=8)
    floatcut.require_verdicts(res)
    shape = {0: 'no secrets key', 1: 'secrets None', 2: 'secrets []', 3: 'one secret', 4: 'two secrets'}
    for v, s in names:
        rv, rmsg, rdt = res[f'{gm}.reach_v{v}_s{s}']
        reach = rv == 'refuted' and 'Error' not in rmsg
        vd, msg, dt = res[f'{gm}.check_v{v}_s{s}']
        name = f'db_spec/get_spec_* format {v}, {shape[s]}: all shape combinations round-trip'
        if vd == 'confirmed':
            R.ob(name, 'discharged' if reach else 'not_discharged', dt, {'twin': rmsg}, nontrivial=reach)
        elif vd == 'refuted':
            a = chrun.parse_counterexample(msg, T.ARGNAMES)
            if a is None:
                raise HarnessError(f'cannot parse CrossHair counterexample: {msg}')
            rep = {'kind': 'spec', 'version': v, 'sec_mode': s, **{k: a[k] for k in T.ARGNAMES}}
            why = _spec_violation(H, rep)
            if why is None:
                raise HarnessError(f'CrossHair counterexample does not reproduce on the real code: {msg}')
            st = R.finding(CLS_SPEC, f'BatchFormatVersion({v}) {why}', rep)
            R.ob(name, st, dt, {'cex': rep, 'why': why}, nontrivial=True)
        else:
            R.ob(name, 'not_discharged', dt, {'crosshair': msg[-300:]})
        R.sample({'version': v, 'secrets shape': shape[s], 'verdict': vd, 'secs': round(dt, 1), 'twin': rv})


def _spec_violation(H, d):
    atoms = tuple(d[f'a{i}'] for i in range(8))
    args = (d['version'], d['sec_mode'], atoms, d['mic0'], d['mic1'], d['sa_mode'], d['in_mode'], d['out_mode'], d['mt_mode'],
            d['preemptible'], d['storage'])
    spec = H.build(*args[1:])[0]
    try:
        ok = H.roundtrip_ok(*args)
    except Exception as e:
        return f'spec={spec}: raises {type(e).__name__}: {e}'
    if ok:
        return None
    fv = H.BatchFormatVersion(d['version'])
    db = fv.db_spec(spec)
    return (f'spec={spec} stored as {db} reads back secrets={fv.get_spec_secrets(db)} service_account='
            f'{fv.get_spec_service_account(db)} in/out={fv.get_spec_has_input_files(db)}/{fv.get_spec_has_output_files(db)} '
            f'machine={fv.get_spec_machine_spec(db)}')


def run(R):
    quick = R.tier == 'quick'
    versions = [1, 4, 5, 7] if quick else [1, 2, 3, 4, 5, 6, 7]
    R.bounds = {'format versions': versions, 'secrets': '0..2', 'regions N': 63, 'index map': 'any injective map into 1..63',
                'picks (sequence obligation, N=16 regions)': 4 if quick else 6, 'storage_gib': '0..2^40-1'}
    R.assume('string fields of a spec (namespaces, names, mount paths) are modelled by symbolic integers: the codec only moves them',
             'spec["resources"] is a dict carrying storage_gib and preemptible (create_jobs sets them before db_spec is called)',
             'equality is modulo the readers\' normal forms: secrets absent == None == []; missing mount_in_copy == False; '
             'service account absent == None; file flag == list present and non-empty',
             'format versions < 5 predate machine types (new rows are always written with BATCH_FORMAT_VERSION): a machine_type '
             'inside a spec stored with an older format is outside the claim',
             'the compact form survives JSON unchanged (it contains only lists, None, ints and the moved atoms; checked: no bools)',
             'region names are N distinct strings; selected regions are members of the mapping (create_jobs rejects others) '
             'and the mapping is injective with values 1..63 (regions.region_id AUTO_INCREMENT, asserted < 64 by the code)',
             'CrossHair 0.0.110 path exploration is exhaustive when it reports "Confirmed over all paths"')
    R.extra['trusted_base'] = ['CrossHair/z3', 'z3 bit-vector theory', 'harness/C15_spec.py oracle', 'harness/C15_regions.py translator']
    _regions(R, 63, 4 if quick else 6)
    _spec(R, versions)


def replay(path):
    d = json.load(open(path))['replay']
    if d['kind'] == 'regions':
        ok, detail = _real_roundtrip(d['names'], d['idxs'], d['selected'])
        print('property holds' if ok else f'property violated: {detail}', d)
        return 0 if ok else 1
    H = importlib.import_module('harness.C15_spec')
    why = _spec_violation(H, d)
    print('property holds' if why is None else f'property violated: {why}')
    return 0 if why is None else 1
