"""C15 — stored job specs and region sets round-trip (E2 CrossHair for the spec codec, E3 z3 BitVec-64 for regions)."""
import importlib
import json
import time

import z3

from vt import chrun, floatcut, loader
from vt.common import HarnessError

LEVEL = 'other'
EXPLANATION = (
    'Spec part: CrossHair (symbolic execution with z3) runs the real BatchFormatVersion.db_spec followed by get_spec_secrets / '
    '_service_account / _has_input_files / _has_output_files / _machine_spec on a spec assembled from symbolic atoms; the shape '
    'selectors (0-2 secrets each with mount_in_copy absent/False/True, secrets key absent/None/[], service account '
    'absent/None/present, input and output lists absent/empty/non-empty, machine_type absent/None/gcp/azure) are symbolic so '
    'every shape combination is a path; one condition per format version (quick 1,4,5,7; thorough 1..7) x secrets shape; only '
    '"Confirmed over all paths" counts. Region part: regions_to_bits_rep and regions_bits_rep_to_regions are translated from '
    'their AST to z3 terms over (_ BitVec 64) (loops unrolled over N=63 region names with a symbolic injective index map into '
    '1..63 and a symbolic selection) and z3 decides, without bound on the subset, that the decoded set equals the selected set, '
    'that the asserts hold, that no shift leaves the 64-bit model (so BitVec = Python int here) and that the value fits a signed '
    'BIGINT; a second obligation uses an arbitrary symbolic sequence of picks (duplicates, any order). The translator is '
    'validated each run on solver-chosen models against the real functions.'
)
SRC_BFV = 'batch/batch/batch_format_version.py'
CLS_SPEC = 'db-spec-roundtrip-loses-field'
CLS_REG = 'region-bitset-roundtrip-mismatch'


# ------------------------------------------------------------------------------------------------
# regions (E3)
# ------------------------------------------------------------------------------------------------
def _utils():
    loader.install()
    return importlib.import_module('batch.utils')


def _real_roundtrip(names, idxs, selected):
    """Concrete run of the real functions.  Returns (ok, detail)."""
    U = _utils()
    mapping = {n: i for n, i in zip(names, idxs)}
    try:
        bits = U.regions_to_bits_rep(selected, mapping)
        back = U.regions_bits_rep_to_regions(bits, mapping)
    except Exception as e:
        return False, f'raises {type(e).__name__}: {e}'
    ok = set(back) == set(selected) and len(back) == len(set(back)) and -(1 << 63) <= bits < (1 << 63)
    return ok, f'bits={bits} decoded={sorted(back)}'


def _regions(R, n, picks):
    RG = importlib.import_module('harness.C15_regions')
    enc_node, enc_text = RG.load('regions_to_bits_rep')
    dec_node, dec_text = RG.load('regions_bits_rep_to_regions')
    R.encode(f'{RG.SRC}:{enc_node.lineno} regions_to_bits_rep', enc_text)
    R.encode(f'{RG.SRC}:{dec_node.lineno} regions_bits_rep_to_regions', dec_text)
    names = [f'r{j}' for j in range(n)]
    idxs = [z3.BitVec(f'idx{j}', 64) for j in range(n)]
    pre = [z3.And(i >= 1, i <= 63) for i in idxs] + [z3.Distinct(*idxs)]
    mapping = RG.SymMapping(names, idxs)

    def obligations(label, selected, want):
        """selected: SymList for the encoder; want[j]: z3 Bool 'region j was selected'."""
        it = RG.Interp()
        bits = RG.call(it, enc_node, [selected, mapping])
        if not z3.is_bv(bits):
            raise HarnessError('regions_to_bits_rep did not translate to a bit-vector')
        back = RG.call(it, dec_node, [bits, mapping])
        if not isinstance(back, RG.SymList):
            raise HarnessError('regions_bits_rep_to_regions did not translate to a list')
        got = {nm: z3.BoolVal(False) for nm in names}
        count = {nm: 0 for nm in names}
        for g, el in back.items:
            if not isinstance(el, str):
                raise HarnessError('decoder appends something that is not a region name')
            got[el] = z3.Or(got[el], g)
            count[el] += 1
        if any(c > 1 for c in count.values()):
            raise HarnessError('decoder may append a region twice')
        goals = {
            'decoded set == selected set': z3.And(*[got[nm] == want[j] for j, nm in enumerate(names)]),
            'asserts of the code hold': z3.And(*[z3.Implies(g, c) for g, c, _ in it.asserts]) if it.asserts else z3.BoolVal(True),
            'no negative shift count (Python would raise)': z3.And(*[z3.Implies(g, z3.Not(c)) for g, c, _ in it.raises]),
            'BitVec-64 model is exact (shifts stay in range)': z3.And(*[z3.Implies(g, c) for g, c, _ in it.no_wrap]),
            'stored value fits signed BIGINT': z3.And(bits >= 0),
        }
        for gname, goal in goals.items():
            s = z3.Solver()
            s.set('timeout', 600000)
            s.add(*pre)
            t = time.time()
            r = str(s.check(z3.Not(goal)))
            dt = time.time() - t
            tw = z3.Solver()
            tw.add(*pre)
            tw.add(z3.Or(*want))
            twin = str(tw.check())
            name = f'regions {label}: {gname}'
            if r == 'unsat':
                R.ob(name, 'discharged' if twin == 'sat' else 'not_discharged', dt, {'twin': twin}, nontrivial=twin == 'sat')
            elif r == 'sat':
                m = s.model()
                ci = [m.eval(i, model_completion=True).as_signed_long() for i in idxs]
                sel = concretise(m)
                ok, detail = _real_roundtrip(names, ci, sel)
                if ok:
                    raise HarnessError(f'z3 counterexample for "{gname}" does not reproduce on the real functions: idx={ci} sel={sel}')
                st = R.finding(CLS_REG, f'regions_to_bits_rep/regions_bits_rep_to_regions idx={dict(zip(names, ci))} selected={sel}: {detail}',
                               {'kind': 'regions', 'names': names, 'idxs': ci, 'selected': sel})
                R.ob(name, st, dt, {'idx': ci, 'selected': sel}, nontrivial=True)
            else:
                R.ob(name, 'not_discharged', dt, {'z3': r})
        return bits, got

    # (a) the selection is a sub-list of the names in mapping order, chosen by N symbolic bits
    sel_bits = [z3.Bool(f'sel{j}') for j in range(n)]
    selected = RG.SymList([(sel_bits[j], names[j]) for j in range(n)])

    def conc_a(m):
        return [names[j] for j in range(n) if z3.is_true(m.eval(sel_bits[j], model_completion=True))]

    concretise = conc_a
    bits_a, got_a = obligations(f'N={n}, any subset', selected, sel_bits)

    # translator validation: models of phi and not-phi pushed through the real functions
    pts = 0
    for extra in ([sel_bits[0], z3.Not(sel_bits[1])], [z3.Not(sel_bits[0]), sel_bits[n - 1], idxs[n - 1] == 63],
                  [z3.And(*sel_bits)], [z3.Not(z3.Or(*sel_bits))], [idxs[0] == 63, sel_bits[0]], [idxs[0] == 1, sel_bits[0], sel_bits[2]]):
        s = z3.Solver()
        s.add(*pre)
        s.add(*extra)
        if str(s.check()) != 'sat':
            raise HarnessError('translator validation: no model')
        m = s.model()
        ci = [m.eval(i, model_completion=True).as_signed_long() for i in idxs]
        sel = conc_a(m)
        U = _utils()
        real_bits = U.regions_to_bits_rep(sel, dict(zip(names, ci)))
        real_back = U.regions_bits_rep_to_regions(real_bits, dict(zip(names, ci)))
        model_bits = m.eval(bits_a, model_completion=True).as_long()
        model_back = [nm for nm in names if z3.is_true(m.eval(got_a[nm], model_completion=True))]
        if real_bits != model_bits or real_back != model_back:
            raise HarnessError(f'translator validation failed: real bits={real_bits} back={real_back}; model bits={model_bits} back={model_back}')
        pts += 1
    R.validation_points += pts

    # (b) the selection is an arbitrary sequence of `picks` region positions (duplicates and any order allowed)
    pk = [z3.BitVec(f'pick{i}', 64) for i in range(picks)]
    pre_b = [z3.And(p >= 0, p < n) for p in pk]
    pre.extend(pre_b)
    want_b = [z3.Or(*[p == j for p in pk]) for j in range(n)]

    def conc_b(m):
        return [names[m.eval(p, model_completion=True).as_signed_long()] for p in pk]

    concretise = conc_b
    obligations(f'N={n}, sequence of {picks} picks', RG.SymList([(z3.BoolVal(True), p) for p in pk]), want_b)
    R.sample({'regions': n, 'picks': picks})


# ------------------------------------------------------------------------------------------------
# spec codec (E2)
# ------------------------------------------------------------------------------------------------
def _spec(R, versions):
    H = importlib.import_module('harness.C15_spec')
    from harness import C15_template as T
    for q in ('db_spec', 'get_spec_secrets', 'get_spec_service_account', 'get_spec_has_input_files',
              'get_spec_has_output_files', 'get_spec_machine_spec'):
        c = floatcut.cut(SRC_BFV, f'BatchFormatVersion.{q}', 'batch.batch_format_version', rules=())
        R.encode(c.ref, c.text)
    if max(versions) != H.BATCH_FORMAT_VERSION:
        raise HarnessError(f'BATCH_FORMAT_VERSION is {H.BATCH_FORMAT_VERSION}; the check covers 1..{max(versions)}')
    src, names = T.source(versions, [0, 1, 2, 3, 4])
    gm = chrun.gen_module('C15_conditions', src)
    targets = [f'{gm}.check_v{v}_s{s}' for v, s in names] + [f'{gm}.reach_v{v}_s{s}' for v, s in names]
    res = chrun.run(targets, per_condition_timeout=170 if R.tier == 'quick' else 600, workers=8)
    shape = {0: 'no secrets key', 1: 'secrets None', 2: 'secrets []', 3: 'one secret', 4: 'two secrets'}
    for v, s in names:
        rv, rmsg, rdt = res[f'{gm}.reach_v{v}_s{s}']
        reach = rv == 'refuted' and 'Error' not in rmsg
        vd, msg, dt = res[f'{gm}.check_v{v}_s{s}']
        name = f'db_spec/get_spec_* format {v}, {shape[s]}: all shape combinations round-trip'
        if vd == 'confirmed':
            R.ob(name, 'discharged' if reach else 'not_discharged', dt, {'twin': rmsg}, nontrivial=reach)
        elif vd == 'refuted':
            a = chrun.parse_counterexample(msg, T.ARGNAMES)
            if a is None:
                raise HarnessError(f'cannot parse CrossHair counterexample: {msg}')
            rep = {'kind': 'spec', 'version': v, 'sec_mode': s, **{k: a[k] for k in T.ARGNAMES}}
            why = _spec_violation(H, rep)
            if why is None:
                raise HarnessError(f'CrossHair counterexample does not reproduce on the real code: {msg}')
            st = R.finding(CLS_SPEC, f'BatchFormatVersion({v}) {why}', rep)
            R.ob(name, st, dt, {'cex': rep, 'why': why}, nontrivial=True)
        else:
            R.ob(name, 'not_discharged', dt, {'crosshair': msg[-300:]})
        R.sample({'version': v, 'secrets shape': shape[s], 'verdict': vd, 'secs': round(dt, 1), 'twin': rv})


def _spec_violation(H, d):
    atoms = tuple(d[f'a{i}'] for i in range(8))
    args = (d['version'], d['sec_mode'], atoms, d['mic0'], d['mic1'], d['sa_mode'], d['in_mode'], d['out_mode'], d['mt_mode'],
            d['preemptible'], d['storage'])
    spec = H.build(*args[1:])[0]
    try:
        ok = H.roundtrip_ok(*args)
    except Exception as e:
        return f'spec={spec}: raises {type(e).__name__}: {e}'
    if ok:
        return None
    fv = H.BatchFormatVersion(d['version'])
    db = fv.db_spec(spec)
    return (f'spec={spec} stored as {db} reads back secrets={fv.get_spec_secrets(db)} service_account='
            f'{fv.get_spec_service_account(db)} in/out={fv.get_spec_has_input_files(db)}/{fv.get_spec_has_output_files(db)} '
            f'machine={fv.get_spec_machine_spec(db)}')


def run(R):
    quick = R.tier == 'quick'
    versions = [1, 4, 5, 7] if quick else [1, 2, 3, 4, 5, 6, 7]
    R.bounds = {'format versions': versions, 'secrets': '0..2', 'regions N': 63, 'index map': 'any injective map into 1..63',
                'picks (sequence obligation)': 4 if quick else 8, 'storage_gib': '0..2^40-1'}
    R.assume('string fields of a spec (namespaces, names, mount paths) are modelled by symbolic integers: the codec only moves them',
             'spec["resources"] is a dict carrying storage_gib and preemptible (create_jobs sets them before db_spec is called)',
             'equality is modulo the readers\' normal forms: secrets absent == None == []; missing mount_in_copy == False; '
             'service account absent == None; file flag == list present and non-empty',
             'format versions < 5 predate machine types (new rows are always written with BATCH_FORMAT_VERSION): a machine_type '
             'inside a spec stored with an older format is outside the claim',
             'the compact form survives JSON unchanged (it contains only lists, None, ints and the moved atoms; checked: no bools)',
             'region names are N distinct strings; selected regions are members of the mapping (create_jobs rejects others) '
             'and the mapping is injective with values 1..63 (regions.region_id AUTO_INCREMENT, asserted < 64 by the code)',
             'CrossHair 0.0.110 path exploration is exhaustive when it reports "Confirmed over all paths"')
    R.extra['trusted_base'] = ['CrossHair/z3', 'z3 bit-vector theory', 'harness/C15_spec.py oracle', 'harness/C15_regions.py translator']
    _regions(R, 63, 4 if quick else 8)
    _spec(R, versions)


def replay(path):
    d = json.load(open(path))['replay']
    if d['kind'] == 'regions':
        ok, detail = _real_roundtrip(d['names'], d['idxs'], d['selected'])
        print('property holds' if ok else f'property violated: {detail}', d)
        return 0 if ok else 1
    H = importlib.import_module('harness.C15_spec')
    why = _spec_violation(H, d)
    print('property holds' if why is None else f'property violated: {why}')
    return 0 if why is None else 1
