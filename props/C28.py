"""C28 — usernames and credential secret names are validated exactly (E4 strlang)."""
import ast
import importlib
import json
import os
import time

import z3

from vt import loader, pathsym, strlang, strlang_ext
from vt.common import HarnessError

LEVEL = 'other'
EXPLANATION = (
    'Regular-language equivalence decided by z3 (sequence/regex theory) between the language accepted by the real '
    'validators (translated from their AST and from re._parser output, per-character predicates tabulated by the real '
    'interpreter over all code points) and the specification languages written in the property; strings of ANY length '
    'over all of Unicode (no bound). Call-site obligations are propositional path-condition implications over the AST.'
)

AUTH_UTILS = 'auth/auth/auth_utils.py'
AUTH = 'auth/auth/auth.py'

LOWER_ALNUM = z3.Union(z3.Range('a', 'z'), z3.Range('0', '9'))


def spec_username():
    lab = z3.Plus(LOWER_ALNUM)
    return z3.Concat(lab, z3.Star(z3.Concat(z3.Re('-'), lab)))


def spec_secret():
    lab = z3.Plus(LOWER_ALNUM)
    return z3.Concat(lab, z3.Star(z3.Concat(z3.Union(z3.Re('.'), z3.Re('-')), lab)))


def known_classes(spec):
    """Finding classes as predicates over the check's own variables (languages)."""
    return {
        'accepts-trailing-newline': z3.Concat(spec, z3.Re('\n')),
    }


def real_accepts(fn, s, by_raise):
    try:
        r = fn(s)
    except Exception as e:
        if by_raise and type(e).__name__ == 'AuthUserError':
            return False
        raise
    return True if by_raise else bool(r)


def check_validator(R, name, spec, by_raise):
    loader.install()
    mod = importlib.import_module('auth.auth_utils')
    real = getattr(mod, name)
    node, text, _ = strlang.load_function(loader.src(AUTH_UTILS), name)
    R.encode(f'{AUTH_UTILS}:{node.lineno} {name}', text)
    # pass 1 (no solving): collect every character set the validator uses
    pt0 = strlang.PredTranslator(node, vars(mod))
    pt0.accepted(reject_by_raise=by_raise)
    # exact alphabet compression (vt/strlang_ext.Reducer): code points with the same membership signature over all
    # sets used by the validator, the specification and the finding classes are interchangeable, so every language
    # is built over one representative per signature class and intersected with REPS*; witnesses are real strings.
    # (Also covers code points above z3's alphabet: every class must have a member z3 can represent.)
    red = strlang_ext.Reducer(pt0.charsets + [[(ord('a'), ord('z'))], [(ord('0'), ord('9'))], [(45, 45)], [(46, 46)], [(10, 10)]])
    R.ob(f'{name}: every character-class signature has a representative in z3\'s alphabet', 'discharged', 0.0,
         {'signature_classes': len(red.reps), 'character_sets': len(pt0.charsets)}, nontrivial=True)
    pt = strlang.PredTranslator(node, vars(mod), zset=red.z3set)
    reps = red.repstar()
    acc = z3.Intersect(pt.accepted(reject_by_raise=by_raise), reps)
    spec = z3.Intersect(spec, reps)
    universe = reps

    # translator validation against the real function on solver-chosen points of all four regions
    pts = []
    for lang in (z3.Intersect(acc, spec), strlang.difference(acc, spec), strlang.difference(spec, acc),
                 z3.Intersect(reps, z3.Complement(z3.Union(acc, spec)))):
        pts += strlang.members(lang, 12 if R.tier == 'quick' else 40)
    # plus hard hand-picked probes of the translator (unicode digits/lowercase, newline, empty)
    pts += ['', '\n', 'a\n', 'a\n\n', '٣', 'ß', 'a-', '-a', 'a--b', 'a.b', 'a.-b', 'A', 'a\x00', 'a b', '٣a',
            'ａ', 'a ', 'ǆ', '\U0001d7ce', 'a' * 70, 'a.' * 10 + 'a', '0-0.0']
    s = z3.String('s')
    for p in pts:
        want = real_accepts(real, p, by_raise)
        sol = z3.Solver()
        sol.add(s == strlang_ext.sval(red.h(p)), z3.InRe(s, acc))
        got = str(sol.check()) == 'sat'
        R.validation_points += 1
        if want != got:
            raise HarnessError(f'translator disagrees with real {name} on {p!r}: real={want} encoded={got}')

    # reachability twins: both languages non-empty, both complements non-empty
    for nm, lang in (('accepted', acc), ('rejected', z3.Intersect(reps, z3.Complement(acc)))):
        r, w, dt = strlang.member(lang)
        if r != 'sat':
            raise HarnessError(f'{name}: {nm} language empty — vacuous encoding')
        R.sample({'validator': name, nm: w})

    classes = known_classes(spec)
    allk = z3.Union(*classes.values()) if len(classes) > 1 else list(classes.values())[0]

    # (1) over-acceptance outside every known class; (2) per class; (3) under-acceptance
    def decide(label, lang, cls):
        r, w, dt = strlang.member(lang, timeout_ms=120000)
        if r == 'unsat':
            R.ob(label, 'discharged', dt, nontrivial=True)
        elif r == 'sat':
            want_accept = real_accepts(real, w, by_raise)
            in_spec = strlang.member(spec, extra=lambda sv: sv == strlang_ext.sval(w))[0] == 'sat'
            if want_accept == in_spec:
                raise HarnessError(f'{name}: counterexample {w!r} does not reproduce on the real function')
            st = R.finding(cls, f'{name}({w!r}) -> {"accepted" if want_accept else "rejected"}, spec says '
                                f'{"member" if in_spec else "non-member"}',
                           {'module': 'auth.auth_utils', 'function': name, 'arg': w, 'by_raise': by_raise,
                            'spec_member': in_spec})
            R.ob(label, st, dt, {'witness': w}, nontrivial=True)
        else:
            R.ob(label, 'not_discharged', dt, {'solver': r})

    decide(f'{name}: accepted ⊆ spec (outside listed finding classes)', strlang.difference(strlang.difference(acc, spec), allk),
           'accepts-non-spec-string')
    for cname, k in classes.items():
        decide(f'{name}: accepted ∩ [{cname}] ⊆ spec', z3.Intersect(strlang.difference(acc, spec), k), cname)
    decide(f'{name}: spec ⊆ accepted', strlang.difference(spec, acc), 'rejects-spec-string')


def _rebound_witness(fn):
    """Concrete confirmation on the real check_valid_new_user (compiled from its AST node, real is_valid_username, the user
    lookup answering "no such user"): an invalid username (by the real validator) that the function accepts."""
    import asyncio
    loader.install()
    mod = importlib.import_module('auth.auth_utils')
    valid = mod.is_valid_username

    class _Exc(Exception):
        def __init__(self, *a, **k):
            super().__init__(*a)

    class _NS(dict):
        def __missing__(self, k):
            import builtins
            if hasattr(builtins, k):
                return getattr(builtins, k)
            return _Exc

    async def lookup(tx, username, login_id):
        return []
    ns = _NS(is_valid_username=valid, users_with_username_or_login_id=lookup)
    f2 = ast.AsyncFunctionDef(name=fn.name, args=fn.args, body=fn.body, decorator_list=[], returns=None, type_comment=None,
                              type_params=[])
    for a in f2.args.args + f2.args.kwonlyargs:
        a.annotation = None
    m = ast.fix_missing_locations(ast.Module(body=[f2], type_ignores=[]))
    exec(compile(m, '<check_valid_new_user>', 'exec'), ns)
    wraps = ['\n', ' ', '\t', '\r\n', '\x1f', '\u2028', '\xa0', '\x00']
    cands = [c for w_ in wraps for c in ('abc' + w_, w_ + 'abc', 'ABC' if w_ == ' ' else 'abc' + w_ + w_)] + ['ABC', 'Abc', 'abc.', '.abc', 'a--b']
    for c in cands:
        if valid(c):
            continue
        try:
            asyncio.run(ns[fn.name](None, c, 'login', False, False))
        except Exception:
            continue
        return c
    return None


def check_call_sites(R):
    text = loader.read(AUTH)
    tree = ast.parse(text)
    # (a) check_valid_new_user: the user lookup / any later statement is reached only if is_valid_username(username)
    fn = pathsym.find_function(tree, 'check_valid_new_user')
    R.encode(f'{AUTH}:{fn.lineno} check_valid_new_user', ast.get_source_segment(text, fn))
    w = pathsym.Walker(fn, pathsym.is_call_to('users_with_username_or_login_id'))
    ev = w.walk()
    t = time.time()
    if not ev:
        raise HarnessError('check_valid_new_user no longer calls users_with_username_or_login_id')
    atom = w.atoms.get('is_valid_username(username)')
    # the atom must speak about the CALLER's value: if the parameter is re-bound before the lookup, the value that was
    # validated is not the one the caller (insert_new_user) goes on to store
    rebound = [ln for (nm, ln) in w.stores if nm == 'username' and ln < min(n.lineno for n, _ in ev)]
    if rebound:
        bad = _rebound_witness(fn)
        label = 'check_valid_new_user: the validated value is the caller\'s username (parameter not re-bound before validation)'
        if bad is None:
            R.ob(label, 'not_discharged', time.time() - t, f'username re-bound at line {rebound[0]}; no concrete witness reproduced')
        else:
            st = R.finding('new-user-check-validates-a-rebound-value',
                           f'check_valid_new_user accepts username {bad!r} (re-bound at line {rebound[0]} before validation) although '
                           f'is_valid_username({bad!r}) is False; insert_new_user stores the original value',
                           {'file': AUTH, 'function': 'check_valid_new_user', 'line': rebound[0], 'kind': 'rebound', 'username': bad})
            R.ob(label, st, time.time() - t, nontrivial=True)
    else:
        R.ob('check_valid_new_user: the validated value is the caller\'s username (parameter not re-bound before validation)',
             'discharged', time.time() - t, nontrivial=True)
    for node, pc in ev:
        if not pathsym.reachable(pc):
            raise HarnessError('call site unreachable (vacuous)')
        if atom is None or pathsym.implies(pc, atom) != 'unsat':
            st = R.finding('new-user-path-skips-username-validation',
                           'check_valid_new_user reaches the user lookup without is_valid_username(username) holding',
                           {'file': AUTH, 'function': 'check_valid_new_user', 'line': node.lineno})
            R.ob('check_valid_new_user: lookup reached ⇒ is_valid_username(username)', st, time.time() - t)
        else:
            R.ob('check_valid_new_user: lookup reached ⇒ is_valid_username(username)', 'discharged',
                 time.time() - t, nontrivial=True)
    # also: isinstance(username, str) guards the validator (the validator's domain is str)
    if 'isinstance(username, str)' in w.atoms:
        for node, pc in ev:
            r = pathsym.implies(pc, w.atoms['isinstance(username, str)'])
            R.ob('check_valid_new_user: lookup reached ⇒ username is a str', 'discharged' if r == 'unsat'
                 else 'not_discharged', 0.0, nontrivial=True)

    # (b) insert_new_user: INSERT is reached only through check_valid_new_user and after the secret-name validator
    fn = pathsym.find_function(tree, 'insert_new_user')
    R.encode(f'{AUTH}:{fn.lineno} insert_new_user', ast.get_source_segment(text, fn))
    order = []
    for st in fn.body:
        if isinstance(st, (ast.FunctionDef, ast.AsyncFunctionDef)):
            continue
        for n in ast.walk(st):
            if isinstance(n, ast.Call):
                order.append(ast.unparse(n))
    want = 'validate_credentials_secret_name_input(hail_credentials_secret_name)'
    ok = want in order and '_insert()' in order and order.index(want) < order.index('_insert()')
    if ok:
        # path-based: every path that reaches `_insert()` ran the validator on the secret name, or the name is None
        # ("not provided"); a guard such as `if hail_credentials_secret_name:` lets '' through unvalidated
        wv = pathsym.Walker(fn, lambda n: isinstance(n, ast.Call) and ast.unparse(n) == want)
        ev_v = wv.walk()
        wi = pathsym.Walker(fn, lambda n: isinstance(n, ast.Call) and ast.unparse(n) == '_insert()')
        ev_i = wi.walk()
        validated = z3.Or(*[pc for _n, pc in ev_v]) if ev_v else z3.BoolVal(False)
        is_none = z3.Bool('hail_credentials_secret_name is None')
        for _n, pc in ev_i:
            if pathsym.implies(pc, z3.Or(validated, is_none)) != 'unsat':
                ok = False
    inner = pathsym.find_function(fn, '_insert')
    w2 = pathsym.Walker(inner, pathsym.is_call_to('execute_insertone'))
    ev2 = w2.walk()
    calls_before = [ast.unparse(n) for st in inner.body for n in ast.walk(st) if isinstance(n, ast.Call)]
    chk = [c for c in calls_before if c.startswith('check_valid_new_user(')]
    ok2 = bool(ev2) and bool(chk) and calls_before.index(chk[0]) < min(
        i for i, c in enumerate(calls_before) if 'execute_insertone' in c)
    # the value inserted is the validated variable
    ins = ev2[0][0] if ev2 else None
    ok3 = False
    if ins is not None and len(ins.args) == 2 and isinstance(ins.args[1], ast.Tuple):
        sql = ins.args[0].value if isinstance(ins.args[0], ast.Constant) else ''
        import re as _re
        m = _re.search(r'INSERT INTO users \(([^)]*)\)', sql)
        if m:
            cols = [c.strip() for c in m.group(1).split(',')]
            vals = [ast.unparse(e) for e in ins.args[1].elts]
            if len(cols) == len(vals):
                d = dict(zip(cols, vals))
                ok3 = d.get('hail_credentials_secret_name') == 'hail_credentials_secret_name' and d.get('username') == 'username'
    for label, good, cls in (
        ('insert_new_user: secret-name validator runs on the inserted variable before the transaction', ok, 'insert-skips-secret-validation'),
        ('insert_new_user: INSERT dominated by check_valid_new_user(username…)', ok2, 'insert-skips-user-validation'),
        ('insert_new_user: validated names are the inserted columns', ok3, 'insert-uses-other-variable'),
    ):
        if good:
            R.ob(label, 'discharged', 0.0, nontrivial=True)
        else:
            st = R.finding(cls, label + ' — does not hold', {'file': AUTH, 'function': 'insert_new_user'})
            R.ob(label, st, 0.0)


def run(R):
    R.bounds = {'string_length': 'unbounded', 'alphabet': 'all Unicode scalar values (z3 alphabet 0..0x2FFFF plus '
                'class-signature reduction for higher planes; lone surrogates excluded)'}
    R.assume('strings reaching the validators are Python str (check_valid_new_user enforces isinstance for usernames; '
             'None secret names mean "not provided" and are outside the property)',
             'z3 5.1 sequence/regex theory decides the inclusion queries (unknown => not discharged)',
             'lone surrogate code points are excluded from the alphabet')
    R.extra['trusted_base'] = ['z3 regex solver', 'vt/strlang.py translation (validated on every run against the '
                               'real functions on solver-chosen members of all four acceptance/spec regions)']
    check_validator(R, 'is_valid_username', spec_username(), by_raise=False)
    check_validator(R, 'validate_credentials_secret_name_input', spec_secret(), by_raise=True)
    check_call_sites(R)


def replay(path):
    d = json.load(open(path))
    rp = d['replay']
    if rp.get('kind') == 'rebound':
        text = loader.read(AUTH)
        bad = _rebound_witness(pathsym.find_function(ast.parse(text), 'check_valid_new_user'))
        print('check_valid_new_user accepts invalid username:', repr(bad))
        return 1 if bad is not None else 0
    if 'arg' not in rp:
        print('structural finding:', d['what'])
        return 1
    loader.install()
    mod = importlib.import_module(rp['module'])
    acc = real_accepts(getattr(mod, rp['function']), rp['arg'], rp['by_raise'])
    print(f"{rp['function']}({rp['arg']!r}) accepted={acc} spec_member={rp['spec_member']}")
    return 1 if acc != rp['spec_member'] else 0
