"""C17 - Batch DSL: jobs run in dependency order with failure propagation (E5 symbolic program builder)."""
import ast
import concurrent.futures as cf
import json
import multiprocessing as mp
import time

from vt import loader
from vt.common import HarnessError

LEVEL = 'other'
EXPLANATION = (
    'The real hailtop.batch front end (Batch/BashJob/Job.depends_on/_interpolate_command/Batch._async_run/'
    'LocalBackend._async_run) is executed natively on a pipeline of N jobs built by a symbolic builder: solver '
    'integers choose, for every ordered pair of jobs, none/explicit/resource-induced(/both) dependency in either '
    'direction (jobs are created in index order, so this covers every creation order, including sinks created before '
    'their dependencies), self-dependencies, the iteration order of every dependency set (a solver-chosen permutation), how a '
    'consumer mentions its producer (file, resource group, group member) and whether always_run() precedes the '
    'commands; always_run flags and the exit status of every command are z3 booleans carried by proxy objects, so '
    'the run forks only where the real code branches on them (vt/shapesym.py: z3 decides which sides of each '
    'branch are feasible and partitions the input space into regions). subprocess inside hailtop.batch.backend is '
    'a recording fake. For every explored path one z3 query decides "path condition and not C17" where the oracle '
    '(Kahn order, least fixed point of the skip rule, written independently) is a formula over the still-symbolic '
    'booleans; one more query per shard proves that the explored path conditions cover the whole bounded input '
    'space. Bounded: quick N=3 jobs (all 3^6 x 2^3 dependency shapes; every mention flavour per consumer and every '
    'iteration order of every dependency set when acyclic, one flavour and canonical/reversed order when cyclic) and '
    'N=4 over all acyclic relations with at most 4 explicit dependencies (canonical/reversed iteration order); thorough (N=4: all acyclic relations; all '
    'permutations for acyclic pipelines, per-consumer flavours also when cyclic) '
    'additionally N=4 over all CYCLIC relations with at most 4 edges + self-dependencies (explicit or resource edges, '
    'file mentions), N=4 over ALL acyclic dependency relations on 4 jobs, once with explicit and once with '
    'resource-induced edges (acyclicity stated to the solver through existential order variables), N=3 acyclic with '
    'always_run before the commands, and N=3 with edges that are both explicit and resource-induced (one flavour per '
    'pipeline, no self-dependency). Counterexamples are solver models replayed concretely on the real code.'
)
SRC_BATCH = 'hail/python/hailtop/batch/batch.py'
SRC_BACKEND = 'hail/python/hailtop/batch/backend.py'
SRC_JOB = 'hail/python/hailtop/batch/job.py'
WORKERS = 8

PARTS = {
    'cycle_rejected_before_anything_runs': ('cyclic-pipeline-not-rejected-before-running',
                                            'cyclic pipelines raise BatchException before any subprocess call'),
    'ids_are_1_to_N': ('job-ids-not-a-numbering', 'job ids are exactly 1..N'),
    'ids_topological': ('job-ids-not-topological', 'every job is numbered after every job it depends on'),
    'executed_after_dependencies_in_id_order': ('execution-order-violates-dependencies',
                                                'jobs execute once, in id order, after their executed dependencies'),
    'skip_set_exact': ('skip-set-wrong', 'skipped = exactly the non-always-run jobs with a failed or skipped parent'),
    'raises_iff_some_job_failed': ('failure-not-reported', 'run() raises CalledProcessError iff an executed job failed'),
    'no_other_exception': ('unexpected-exception', 'acyclic pipelines raise nothing but the job failure'),
    'nothing_runs_when_building_fails': ('subprocess-called-while-building', 'no subprocess is called while the pipeline is being built'),
    'submitted_iff_ran': ('submitted-flag-wrong', 'a job is marked submitted iff it was executed'),
}


def _configs(tier):
    """Budgets: the pool gets a global deadline (quick 170 s, thorough 1300 s); shards that do not finish are not
    discharged."""
    n3 = dict(tag='N3', N=3, kinds=[0, 1, 2], aro=[0], nfix=3)
    n3q = dict(n3, cyclic_global_flavour=True)
    n4e = dict(tag='N4dagE', N=4, kinds=[0, 1], aro=[0], acyclic_only=True, nfix=3)
    if tier == 'quick':
        return [n3q, dict(n4e, order_mode='global2', max_edges=4)], 170
    return [
        n3,
        dict(tag='N4cyc', N=4, kinds=[0, 1, 2], aro=[0], max_total=4, cyclic_only=True, fixed_flavour=0, nfix=2),
        n4e,
        dict(tag='N4dagR', N=4, kinds=[0, 2], aro=[0], acyclic_only=True, fixed_flavour=0, nfix=2),
        dict(tag='N3aro', N=3, kinds=[0, 1, 2], aro=[1], acyclic_only=True, nfix=2),
        dict(tag='N3both', N=3, kinds=[0, 1, 2, 3], aro=[0], global_flavour=True, max_self=0, nfix=2),
    ], 1300


def _shards(cfg, deadline_at):
    N = cfg['N']
    names = [f'e_{i}_{j}' for i in range(N) for j in range(N) if i != j][:cfg['nfix']]
    fixes = [{}]
    for nm in names:
        fixes = [dict(f, **{nm: k}) for f in fixes for k in range(len(cfg['kinds']))]
    return [dict({k: v for k, v in cfg.items() if k != 'nfix'}, fix=f, deadline_at=deadline_at) for f in fixes]


def _work(a):
    from harness import C17_pipeline
    return C17_pipeline.explore_shard(a)


def _encode(R):
    want = {SRC_BATCH: ['_async_run'], SRC_BACKEND: ['_async_run'],
            SRC_JOB: ['depends_on', '_interpolate_command', 'always_run', 'command', 'declare_resource_group',
                      '_add_resource_to_set']}
    for src, names in want.items():
        text = loader.read(src)
        tree = ast.parse(text)
        for cls in [n for n in tree.body if isinstance(n, ast.ClassDef)] + [tree]:
            for n in cls.body:
                if isinstance(n, (ast.FunctionDef, ast.AsyncFunctionDef)) and n.name in names:
                    owner = cls.name if isinstance(cls, ast.ClassDef) else 'module'
                    if src == SRC_BACKEND and owner != 'LocalBackend':
                        continue
                    if src == SRC_BATCH and owner != 'Batch':
                        continue
                    R.encode(f'{src}:{n.lineno} {owner}.{n.name}', ast.get_source_segment(text, n))


def run(R):
    cfgs, budget = _configs(R.tier)
    R.bounds = {c['tag']: {k: v for k, v in c.items() if k not in ('tag', 'nfix')} for c in cfgs}
    R.bounds['symbolic'] = ('e_i_j (dependency kind per ordered pair, either direction: a job may be created before its '
                            'dependencies), s_j (self-dependency), fl_j (file / group / group member), aro, ord_j_n / ordg '
                            '(iteration order of each dependency set), Bool ar_j (always_run), Bool fail_j (exit status)')
    R.assume('subprocess in hailtop.batch.backend is replaced by a recording fake: check_call raises '
             'CalledProcessError iff the symbolic bit fail_j of the job whose script it receives; no script is executed',
             'bash jobs only (PythonJob needs dill and an image); one LocalBackend per worker process, scratch '
             'directories under a private temporary directory',
             'each job first defines its outputs (ofile, resource group rg={a,b}) in a command of its own, then '
             'consumers mention them: the DSL rejects mentions of undefined resources',
             'job creation order is the index order; dependencies may point to later-created jobs, which is the '
             'same as creating the jobs of a fixed graph in any order',
             'set iteration order is treated as nondeterministic (any order): Job._dependencies of every job is replaced by '
             'a set subclass whose iteration order is a solver-chosen permutation of the job-index order (every permutation '
             'for acyclic pipelines, canonical and reversed for cyclic ones) and is pinned in replay files; other sets of '
             'the code under test keep their accidental order, so a counterexample that does not replay is retried under '
             'every order of the dependency sets before it is declared a harness error',
             'vt/shapesym.py explores natively: exhaustiveness over the bounded space is re-proved by a solver query '
             'over the recorded path conditions, not assumed')
    R.extra['trusted_base'] = ['z3', 'vt/shapesym.py + vt/glue.py proxies', 'harness/C17_pipeline.py oracle and fake subprocess']
    _encode(R)
    shards = [s for c in cfgs for s in _shards(c, time.time() + budget)]
    # big shards first (fewer fixed dependencies = more cycles/forks is not known a priori: keep the given order)
    t0 = time.time()
    results = []
    with cf.ProcessPoolExecutor(max_workers=WORKERS, mp_context=mp.get_context('spawn')) as ex:
        for r, a in zip(ex.map(_work, shards, chunksize=1), shards):
            r['tag'] = a['tag']
            r['N'] = a['N']
            results.append(r)
    wall = time.time() - t0
    H = None
    totals = {}
    for c in cfgs:
        tag, N = c['tag'], c['N']
        rs = [r for r in results if r['tag'] == tag]
        paths = sum(r['paths'] for r in rs)
        complete = all(r['complete'] for r in rs)
        unknown = sum(r['unknown'] for r in rs)
        twins = sum(r['twins_sat'] for r in rs)
        checked = sum(r['paths'] - r.get('covered_elsewhere', 0) for r in rs)
        secs = sum(r['secs'] for r in rs)
        part_counts = {}
        for r in rs:
            for k, v in r['part_counts'].items():
                part_counts[k] = part_counts.get(k, 0) + v
        totals[tag] = dict(shards=len(rs), paths=paths, cyclic_paths=sum(r['cyclic_paths'] for r in rs),
                           dag_paths=sum(r['dag_paths'] for r in rs), acyclic_shapes_left_to_other_configurations=sum(r.get('covered_elsewhere', 0) for r in rs), solver_calls=sum(r['solver_calls'] for r in rs),
                           forks=sum(r['forks'] for r in rs), rejected_while_building=sum(r['rejected_at_build'] for r in rs),
                           rejection_example=next((r['rejection_example'] for r in rs if r['rejection_example']), None), paths_with_symbolic_oracle=sum(r['symbolic_parts'] for r in rs),
                           cpu_seconds=round(secs, 1))
        viols = [(r, v) for r in rs for v in r['violations']]
        by_part = {}
        for r, v in viols:
            for part in v['parts']:
                by_part.setdefault(part, []).append(v)
        for part, (cls, text) in PARTS.items():
            n = part_counts.get(part, 0)
            if part in ('no_other_exception', 'nothing_runs_when_building_fails') and part not in by_part:
                continue      # only exists as a failure (another exception escaped)
            if n == 0 and part not in by_part and (
                    (c.get('acyclic_only') and part == 'cycle_rejected_before_anything_runs')
                    or (c.get('cyclic_only') and part != 'cycle_rejected_before_anything_runs')):
                continue      # not applicable to this configuration
            name = f'{tag}: {text}'
            detail = {'paths_checked': n, 'shards': len(rs)}
            if part in by_part:
                if H is None:
                    from harness import C17_pipeline as H
                v = by_part[part][0]
                bad, parts_now, obs, used = H.replay_any_order(N, v['inputs'], part)
                if not bad or part not in parts_now:
                    raise HarnessError(f'C17 counterexample does not reproduce concretely: {v} -> {parts_now}')
                what = (f'{text} FAILS for N={N} inputs={_compact(used)}: ids={obs["ids"]} '
                        f'executed={[i for i, _ in obs["log"]]} exc={obs["exc"][0] if obs["exc"] else None}')
                st = R.finding(cls, what, {'N': N, 'inputs': used, 'part': part})
                detail['counterexamples'] = len(by_part[part])
                R.ob(name, st, secs / max(len(PARTS), 1), detail, nontrivial=True)
            elif complete and unknown == 0 and n > 0:
                R.ob(name, 'discharged', secs / max(len(PARTS), 1), detail, nontrivial=(twins == checked and checked > 0))
            else:
                detail['complete'] = complete
                detail['solver_unknown'] = unknown
                R.ob(name, 'not_discharged', secs / max(len(PARTS), 1), detail)
        if totals[tag]['rejected_while_building']:
            R.log(f'[C17] NOTE {tag}: the DSL refused {totals[tag]["rejected_while_building"]} programs while they were '
                  f'being built (not a C17 violation): {totals[tag]["rejection_example"]}')
        ran = totals[tag]['cyclic_paths'] if c.get('cyclic_only') else totals[tag]['dag_paths']
        R.ob(f'{tag}: non-vacuity - pipelines of this configuration are built and reach run()', 'discharged' if ran > 0 else 'not_discharged',
             0.0, {'paths_reaching_run': ran, 'rejected_while_building': totals[tag]['rejected_while_building']},
             nontrivial=ran > 0)
        exh = [r['exhaustive'] for r in rs]
        name = f'{tag}: explored path conditions cover the whole bounded input space'
        if all(e == 'unsat' for e in exh):
            R.ob(name, 'discharged', 0.0, {'shards': len(rs), 'paths': paths}, nontrivial=paths > 0)
        elif any(e == 'sat' for e in exh):
            raise HarnessError(f'C17 {tag}: exploration is not exhaustive (shapesym lost a region)')
        else:
            R.ob(name, 'not_discharged', 0.0, {'verdicts': sorted(set(exh))})
        for r in rs:
            for s in r['samples'][:1]:
                R.sample(dict(s, N=N))
    R.extra['exploration'] = totals
    R.extra['pool_wall_s'] = round(wall, 1)
    R.log(f'[C17] {json.dumps(totals)} pool_wall={wall:.1f}s')


def _compact(d):
    return {k: v for k, v in d.items() if v not in (0, False)}


def replay(path):
    from harness import C17_pipeline as H
    d = json.load(open(path))['replay']
    bad, parts, obs, _ = H.replay_any_order(d['N'], d['inputs'], d.get('part'))
    print('violated parts:', parts, 'ids', obs['ids'], 'executed', [i for i, _ in obs['log']], 'exc', obs['exc'])
    H.teardown()
    return 1 if bad else 0
