"""C32 — value JSON conversion round-trips (E2: CrossHair on the real _convert_to_json / _convert_from_json)."""
import ast
import importlib
import json
import os

from vt import chgroup, chrun, loader
from vt.common import HarnessError

LEVEL = 'other'
EXPLANATION = (
    'CrossHair (symbolic execution with z3) runs the real HailType._convert_to_json_na, a pure-Python stand-in for the '
    'JSON text step, and the real _convert_from_json_na on values built from symbolic scalars, one condition per Hail '
    'type of a catalogue to depth 2 (quick: 21 types incl. 2 depth-2 shapes; thorough: every constructor over every '
    'primitive at depth 1 and 16 depth-2 shapes, 69 types). Symbolic: 64-bit integers, reals + explicit NaN/+inf/-inf '
    'selector, booleans, missingness flags, collection lengths 0..2, call ploidy/phase (alleles chosen from {0,1,999}), locus '
    'contig/position, interval bounds; positions draw from a small shared pool of symbolic scalars. Only "Confirmed over all paths" discharges. Equality is structural with NaN == NaN, '
    'missing == missing and the type\'s own one-level typecheck at every level. Values with missing dict VALUES are a '
    'separate obligation per dict-containing type (finding class dict-missing-value-json).'
)
TYPES_PY = 'hail/python/hail/expr/types.py'
GROUP = 3


def encode_sources(R):
    text = loader.read(TYPES_PY)
    for n in ast.walk(ast.parse(text)):
        if isinstance(n, ast.ClassDef):
            for fn in n.body:
                if isinstance(fn, ast.FunctionDef) and fn.name in ('_convert_to_json', '_convert_from_json',
                                                                     '_convert_to_json_na', '_convert_from_json_na'):
                    R.encode(f'{TYPES_PY}:{fn.lineno} {n.name}.{fn.name}', ast.get_source_segment(text, fn))


def run(R):
    from harness import C32_json as H
    cat = H.catalogue(R.tier)
    H.TYPES[:] = cat
    encode_sources(R)
    pct = 150 if R.tier == 'quick' else 400
    R.bounds = {'types': f'{len(cat)} types, depth <= 2', 'collections': 'length 0..2 (two length variables; the second <= 1 in quick)', 'ints': '32/64-bit ranges',
                'floats': 'CrossHair reals + NaN, +inf, -inf as explicit cases', 'strings': 'symbolic choice among 3 fixed strings',
                'calls': 'symbolic choice among 10 fixed calls (ploidy 0..2, phased/unphased, allele order)', 'structs': 'value field order is a symbolic permutation of the type field order (2-3 fields)', 'pool': 'positions of a value share a small pool of symbolic scalars',
                'ndarray': 'symbolic choice among concrete numpy arrays (C and F order, 1-3 dims); numeric element types only',
                'per_condition_timeout_s': pct}
    R.assume('json.dumps/json.loads (C functions) are replaced by harness.C32_json.wire: tuples -> lists, JSON types only, '
             'str keys only, non-finite floats rejected',
             'CrossHair models float as real: finite floats are exact reals; NaN/inf are separate concrete cases',
             'dict keys are never missing; set members and array elements may be',
             'ndarray values are concrete (numpy is C): the solver only chooses which one; non-numeric ndarrays are excluded '
             '(_convert_from_json refuses them by design)',
             'ReferenceGenome lives in a registry-only backend stub; parsimonious stand-in is installed but unused here',
             'HailType.__hash__ (43 + hash(str(self))) is replaced by a deterministic checksum of the same string: CrossHair makes hash(str) symbolic',
             'CrossHair 0.0.110 path exploration is exhaustive when it reports "Confirmed over all paths"')
    R.extra['trusted_base'] = ['CrossHair/z3', 'harness/C32_json.py value builder, wire() and eq() oracle']
    mods = []
    ks = list(range(len(cat)))
    for g in range(0, len(ks), GROUP):
        mods.append(chrun.gen_module(f'C32_g{g // GROUP}', H.source(R.tier, ks[g:g + GROUP], False)))
    dks = [k for k in ks if H.has_dict(cat[k])]
    dmods = []
    for g in range(0, len(dks), GROUP):
        dmods.append(chrun.gen_module(f'C32_dm{g // GROUP}', H.source(R.tier, dks[g:g + GROUP], True)))
    res = chgroup.run_modules(mods + dmods, per_condition_timeout=pct, workers=8)

    def handle(mod, k, dict_missing):
        t = cat[k]
        v, msg, dt = res[f'{mod}.check_{k}']
        rv, rmsg, _ = res[f'{mod}.reach_{k}']
        reach = rv == 'refuted'
        name = f'{t}: from_json(wire(to_json(v))) == v' + (' [dict values may be missing]' if dict_missing else '')
        if v == 'confirmed':
            R.ob(name, 'discharged' if reach else 'not_discharged', dt / (2 * GROUP), {'twin': rmsg[:120]}, nontrivial=reach)
        elif v == 'refuted':
            argn = H.ARGN
            args = chrun.parse_counterexample(msg, argn)
            if args is None:
                raise HarnessError(f'cannot parse CrossHair counterexample: {msg}')
            ok, val, err = concrete(H, k, args, dict_missing)
            if ok:
                raise HarnessError(f'CrossHair counterexample does not reproduce concretely: {msg}')
            cls = 'dict-missing-value-json' if (val is not None and H.has_missing_dict_value(t, val)) else 'json-roundtrip-mismatch'
            st = R.finding(cls, f'{t}: value {val!r} does not survive _convert_to_json_na/_convert_from_json_na {err}',
                           {'tier': R.tier, 'k': k, 'type': str(t), 'args': args, 'dict_missing': dict_missing})
            R.ob(name, st, dt / (2 * GROUP), {'cex': repr(val)[:200], 'error': err}, nontrivial=True)
        else:
            R.ob(name, 'not_discharged', dt / (2 * GROUP), {'crosshair': msg[-200:]})
        R.sample({'type': str(t), 'verdict': v, 'twin': rv, 'dict_missing': dict_missing})

    for g in range(0, len(ks), GROUP):
        for k in ks[g:g + GROUP]:
            handle(mods[g // GROUP], k, False)
    for g in range(0, len(dks), GROUP):
        for k in dks[g:g + GROUP]:
            handle(dmods[g // GROUP], k, True)


def concrete(H, k, args, dict_missing):
    a = args
    try:
        val = H.value(k, *H.unpack(a), dict_missing)
    except Exception as e:  # noqa: BLE001
        return False, None, f'[value builder raised {type(e).__name__}: {e}]'
    try:
        return H.roundtrip_ok(H.TYPES[k], val), val, ''
    except Exception as e:  # noqa: BLE001
        return False, val, f'[{type(e).__name__}: {e}]'


def replay(path):
    d = json.load(open(path))['replay']
    from harness import C32_json as H
    H.TYPES[:] = H.catalogue(d['tier'])
    if str(H.TYPES[d['k']]) != d['type']:
        print('catalogue changed; cannot replay')
        return 2
    ok, val, err = concrete(H, d['k'], d['args'], d['dict_missing'])
    print(f"{d['type']}: value {val!r} -> round trip {'holds' if ok else 'FAILS'} {err}")
    return 0 if ok else 1
