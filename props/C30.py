"""C30 — CI merges only fully tested, approved, current PRs (native symbolic execution of the real ci.github)."""
import ast
import concurrent.futures as cf
import json
import multiprocessing

from vt import loader
from vt.common import HarnessError

LEVEL = 'model_checking'
EXPLANATION = (
    'The real ci.github.PR / WatchedBranch code runs under vt/natsym.py (CPython on z3-backed proxy values; z3 '
    'resolves every branch on a proxy, all feasible paths are enumerated by re-execution, verdicts are z3 queries '
    'over the path conditions). (a) STEP: WatchedBranch.try_to_merge is called twice on a branch whose PR fields '
    '(review_state, build_state, label bits, up to 2 status contexts with presence and value, batch kind and '
    'batch/branch sha ids) are symbolic; query: some path issues an accepted merge for a PR whose independent gate '
    'formula (approved, no WIP/stacked label, >= 1 status, all statuses SUCCESS, batch target sha == branch sha) '
    'is false; at most one merge per call; no merge in the second call after a merge in the first (no refresh). '
    '(b) HISTORY (bounded model checking): the real WatchedBranch._update (+ _update_github, _update_batch, _heal, '
    'update_from_gh_json, _start_build, try_to_merge, merge) against a fake GitHub holding the truth per commit and '
    'a fake batch service; k external events (push incl. back to an old commit, review decision, label toggle, '
    'status report on current or older commit, batch completion, target move, poll), each followed by the '
    'webhook-triggered update (run atomically, or — in the suspension histories — interleaved with one more event); at every accepted merge the truth snapshot must show: approved, no do-not-merge '
    'label, >= 1 status and all SUCCESS on the merged head, the PR batch succeeded on (that head, the target '
    'commit merged onto), <= 1 merge per update and per target commit. Bounds: 1 PR with k<=3 (quick) / 4 '
    '(thorough) events, 2 PRs with k<=2 / 3; plus histories (1 PR, 2 events) in which one further event and its '
    'notification are delivered while an update is suspended inside a GitHub/batch call (4 kinds of suspension point '
    'quick, 7 thorough), judged on changes CI had acknowledged before the merging update run began.'
)
SRC = 'ci/ci/github.py'
FUNCS = ['is_up_to_date', 'is_mergeable', 'merge', 'try_to_merge', 'update_from_gh_json', '_update', '_update_github',
         '_update_batch', '_heal', '_start_build', 'merge_priority', 'prs_in_merge_priority_order',
         'github_status_from_build_state', 'set_build_state']


def _step_worker(spec):
    from harness import C30_oblig
    try:
        return C30_oblig.decide_step(spec)
    except HarnessError as e:
        return {'spec': spec, 'harness_error': str(e)}


def _hist_worker(spec):
    from harness import C30_oblig
    try:
        return C30_oblig.decide_history(spec)
    except HarnessError as e:
        return {'spec': spec, 'harness_error': str(e)}


def _plan(tier):
    steps, hists = [], []
    for bk in range(3):
        for sk in range(2):
            steps.append({'npr': 1, 'shard': {'batch_kind1': bk, 'target_sha_known': sk}, 'validate': 40})
    for b1 in range(3):
        for b2 in range(3):
            for sk in range(2):
                steps.append({'npr': 2, 'reduced': 2 if tier == 'quick' else 1, 'validate': 20,
                              'shard': {'batch_kind1': b1, 'batch_kind2': b2, 'target_sha_known': sk}})
    k1, k2 = (3, 2) if tier == 'quick' else (4, 3)
    base7 = ['push', 'review', 'label', 'status', 'batch_done', 'target_move', 'poll']
    if tier == 'quick':
        for e in range(7):
            hists.append({'npr': 1, 'k': k1, 'events': base7, 'shard': {'ev0': e}, 'validate': 6})
        # head moves whose webhook is late (push_late) against the events that can lead to a merge
        late = ['push_late', 'batch_done', 'review', 'push', 'target_move']
        for e in range(len(late)):
            hists.append({'npr': 1, 'k': 3, 'events': late, 'shard': {'ev0': e}, 'validate': 4})
    else:
        for e in range(8):
            hists.append({'npr': 1, 'k': k1, 'shard': {'ev0': e}, 'validate': 6})
    ev2 = base7 if tier == 'quick' else base7 + ['push_late']     # quick: the delayed push webhook only in the 1-PR family
    for e in range(len(ev2)):
        for r1 in range(2):
            hists.append({'npr': 2, 'k': k2, 'events': ev2, 'shard': {'ev0': e, 'init_review_1': r1}, 'validate': 4})
    # status contexts spread over several GraphQL pages: page size read from the query text in the source
    import re
    m = re.search(r'contexts \(first: (\d+)', loader.read(SRC))
    if not m:
        raise HarnessError('PR._update_github no longer pages statusCheckRollup contexts with `first: N`')
    ps = int(m.group(1))
    sizes = [ps - 1, ps, ps + 1, ps + 2]
    evs = ['review', 'batch_done', 'status', 'poll']
    for mi in range(len(sizes)):
        if tier == 'quick':
            hists.append({'npr': 1, 'k': 2, 'flood': sizes, 'events': evs, 'shard': {'flood_m': mi}, 'validate': 3})
        else:
            for e in range(len(evs)):
                hists.append({'npr': 1, 'k': 3, 'flood': sizes, 'events': evs, 'shard': {'flood_m': mi, 'ev0': e},
                              'validate': 3})
    # deliveries while an update is suspended in a GitHub / batch call (lost or late notifications)
    if tier == 'quick':
        intr = {'budget': 1, 'phases': ['getiter', 'graphql', 'list_batches', 'put'],
                'kinds': ['label', 'review', 'status', 'batch_done']}
    else:
        intr = {'budget': 1, 'phases': ['getitem', 'getiter', 'graphql', 'list_batches', 'post_status', 'batch_submit', 'put'],
                'kinds': ['label', 'review', 'status', 'push', 'target_move', 'batch_done']}
    for e in range(len(ev2)):
        for r1 in range(2):
            hists.append({'npr': 1, 'k': 2, 'intr': intr, 'events': ev2, 'shard': {'ev0': e, 'init_review_1': r1},
                          'validate': 3})
    return steps, hists


def run(R):
    text = loader.read(SRC)
    found = set()
    for n in ast.walk(ast.parse(text)):
        if isinstance(n, (ast.FunctionDef, ast.AsyncFunctionDef)) and n.name in FUNCS:
            R.encode(f'{SRC}:{n.lineno} {n.name}', ast.get_source_segment(text, n))
            found.add(n.name)
    if set(FUNCS) - found:
        raise HarnessError(f'{SRC}: {sorted(set(FUNCS) - found)} no longer present')
    steps, hists = _plan(R.tier)
    k1, k2 = (3, 2) if R.tier == 'quick' else (4, 3)
    R.bounds = {
        'step': '1 PR: all fields symbolic (4 review states, 4 build states, 5 label bits, 2 status contexts x '
                '{absent, success, pending, failure}, batch none/Batch/MergeFailureBatch, sha ids 0..2, branch sha '
                'known/None, merge call accepted/refused); 2 PRs: reduced domains (labels WIP, prio:high; ci status '
                'present; other status absent/success/pending (thorough only; quick: absent); review approved/'
                'changes_requested; build none/success)',
        'history': f'1 PR: {k1} events; 2 PRs: {k2} events; initial review state of each PR required/approved; '
                   'event kinds push(fresh or any earlier head), review(4 decisions), label toggle(WIP, stacked PR, '
                   'prio:high), status(context ci-test or lint, any commit the PR ever had, 3 states), '
                   'batch_done(any running batch, success/failure), target_move, poll, push_late (head moves, its webhook reaches CI '
                   'only after the next event was processed); plus paginated-status histories: 1 PR whose '
                   f'head carries page_size-1 .. page_size+2 extra contexts (one possibly non-success at a symbolic position), '
                   f'{2 if R.tier == "quick" else 3} events from review/batch_done/status/poll',
    }
    R.assume(
        'GitHub and batch are fakes below ci.github (REST paths and the one GraphQL query the code sends, whose status '
        'contexts connection is served in pages of the `first:` size with `after:` cursors; batch '
        'list_batches filters on the attribute tokens the code uses, newest first); DB says every PR author is '
        'authorised and no batch is invalidated',
        'GitHub merge endpoint as documented: a request carrying `sha` different from the current PR head is refused '
        '(409), a request without `sha` merges whatever the head is now; GitHub may refuse otherwise (solver choice), '
        'and an accepted merge closes the PR and moves the target branch to a fresh commit',
        'webhooks are reliable and ordered: each external event is followed by notify_github_changed (batch completion: '
        'notify_batch_changed) before the next event; status posts by CI succeed; every status context is required',
        'oracle on the merged commit: what counts as merged is GitHub\'s head at the moment the merge is accepted; it '
        'must equal the commit CI verified (its source_sha), unconditionally, and the status / batch components are '
        'evaluated on that commit',
        'suspension points: in the histories "with an event delivered while an update waits" the fake GitHub/batch calls '
        '(branch ref, PR list, GraphQL page, list_batches, status post, batch submit, merge request — after the answer '
        'was computed, before CI reads it) are points where one more external change plus its real notify_* call may '
        'happen; the nested notify runs the real code (finds `updating` set, raises the real *_changed flag, returns)',
        'oracle under concurrency: a gate component counts against a merge when the ground truth violates it at the '
        'moment of the merge AND its last change precedes the start of the merging update run — i.e. CI had '
        'acknowledged the notification of that change (handler returned) before it began the run that merged; this '
        'follows from "merges only if approved / not do-not-merge / checks succeeded / tested on the current target": '
        'acting on a view CI has been told is outdated is a merge not justified by those facts. A change arriving '
        'WHILE the merging run is in flight (after its refresh) is the unavoidable race with GitHub and is tolerated; '
        'such merges are counted in the evidence (tolerated_merges_racing…)',
        '_start_build: git/shell, build.yaml parsing and BuildConfiguration.build are stubbed (the batch is created '
        'through the real code path with the real attributes)',
        'an AssertionError out of _update (is_mergeable asserts build_state == success when the ci status is success) '
        'aborts that update like in the service (logged) and the history continues',
        'deployable=False, frozen=False, mergeable=True',
    )
    R.extra['trusted_base'] = ['z3', 'vt/natsym.py (explored paths are re-executed on pinned models and must agree)',
                               'fakes in harness/C30_hist.py', 'gate formula in harness/C30_ci.py merge_spec']
    ctx = multiprocessing.get_context('spawn')
    with cf.ProcessPoolExecutor(max_workers=8, mp_context=ctx) as ex:
        sres = list(ex.map(_step_worker, steps))
        hres = list(ex.map(_hist_worker, hists))
    for r in sres + hres:
        if 'harness_error' in r:
            raise HarnessError(f'{r["spec"]}: {r["harness_error"]}')

    # ---- (a) step
    titles = {'gate': 'an accepted merge implies approved ∧ no do-not-merge label ∧ statuses non-empty and all SUCCESS '
                      '∧ batch.target_sha == branch.sha',
              'one_per_call': 'at most one accepted merge per try_to_merge call',
              'no_merge_before_refresh': 'after a merge a second try_to_merge (no refresh) merges nothing'}
    for r in sres:
        s = r['spec']
        R.validation_points += r['validation_points']
        R.states += r['paths']
        R.transitions += r['paths'] * 2
        tag = f'step {s["npr"]} PR{"s (reduced domains)" if s.get("reduced") else ""} {s["shard"]}'
        if r['coverage'] != 'unsat':
            R.ob(f'{tag}: explored paths cover all field valuations', 'not_discharged', 0.0, {'coverage': r['coverage']})
            continue
        for qn, q in r['queries'].items():
            name = f'{tag}: {titles[qn]}'
            det = {'paths': r['paths'], 'feasibility_queries': r['solver_calls'], 'disjuncts': q['disjuncts'],
                   'merge_reachable_in_shard': r['reach']}
            if q['result'] == 'unsat':
                R.ob(name, 'discharged', r['secs'] if qn == 'gate' else q['secs'], det,
                     nontrivial=(r['reach'] == 'sat' and (qn == 'gate' or s['npr'] > 1 or qn == 'no_merge_before_refresh')))
            elif q['result'] == 'sat':
                if not q['reproduced']:
                    raise HarnessError(f'{name}: counterexample does not reproduce: {q}')
                st = R.finding(f'try-to-merge-{qn.replace("_", "-")}-violated',
                               f'fields {q["vals"]} choices {q["choices"]}: merged {q["merged"]}, gate per PR {q["spec"]}',
                               {'kind': 'step', 'npr': s['npr'], 'query': qn, 'vals': q['vals'], 'choices': q['choices']})
                R.ob(name, st, q['secs'], {'witness': q['vals'], **det}, nontrivial=True)
            else:
                R.ob(name, 'not_discharged', q['secs'], {'solver': q['result']})
    R.sample({'step_shards': len(sres), 'paths': sum(r['paths'] for r in sres),
              'paths_where_is_mergeable_asserts': sum(r['assertion_paths'] for r in sres)})

    # ---- (b) history
    aborted = inflight = deliveries = 0
    for r in hres:
        s = r['spec']
        R.states += r['updates']
        R.transitions += r['events']
        R.traces_validated += r['validated']
        aborted += r['aborted_updates']
        inflight += r.get('inflight_merges', 0)
        deliveries += r.get('deliveries_during_updates', 0)
        for smp in r['samples'][:1]:
            R.sample({'history': s, **smp})
        fl = (f' with {s["flood"][s["shard"]["flood_m"]]} further status contexts on the head (GraphQL pages of the size '
              f'the query asks for; one context at a symbolic position may be non-success),') if s.get('flood') else ','
        if s.get('intr'):
            fl = (f' with {s["intr"]["budget"]} further event delivered while an update waits in a GitHub/batch call '
                  f'({len(s["intr"]["phases"])} kinds of suspension point),')
        name = (f'history {s["npr"]} PR{"s" if s["npr"] > 1 else ""}{fl} {s["k"]} events, shard {s["shard"]}: every accepted '
                f'merge is approved, unlabelled, all-success on the merged head, tested on the current target; '
                f'<= 1 merge per update / target commit')
        det = {'paths': r['paths'], 'paths_with_merge': r['merging_paths'], 'merges': r['merges'],
               'ci_updates_run': r['updates'], 'feasibility_queries': r['solver_calls'],
               'candidate_disjuncts': r['query']['disjuncts']}
        q = r['query']
        if q['result'] == 'unsat':
            R.ob(name, 'discharged', r['secs'], det, nontrivial=r['reach'] == 'sat')
        elif q['result'] == 'sat':
            status = 'discharged'
            for vio in r['violations']:
                if not vio['reproduced']:
                    raise HarnessError(f'{name}: counterexample does not reproduce: {vio}')
                cls = 'merge-' + vio['what'].split(': ')[-1].split(' — ')[0].replace(' ', '-').replace('(', '').replace(')', '').replace(',', '')
                if 'GitHub-merged-head' in cls:
                    cls = 'merge-of-a-commit-ci-had-not-verified'
                if 'status' in cls and 'not-success' in cls:
                    cls = 'merge-with-non-success-status-on-head'
                st = R.finding(cls, f'{vio["what"]}; events {vio["events"]}',
                               {'kind': 'history', 'npr': s['npr'], 'k': s['k'], 'pins': vio['pins'],
                                'events': s.get('events'), 'flood': s.get('flood'), 'intr': s.get('intr')})
                status = st if status == 'discharged' or st == 'violated' else status
            R.ob(name, status, r['secs'], det, nontrivial=True)
        else:
            R.ob(name, 'not_discharged', r['secs'], {'solver': q['result']})
    R.extra['updates_aborted_by_is_mergeable_assertion'] = aborted
    R.extra['events_delivered_while_an_update_was_suspended'] = deliveries
    R.extra['tolerated_merges_racing_with_a_change_during_the_merging_update'] = inflight


def replay(path):
    rp = json.load(open(path))['replay']
    from harness import C30_oblig
    if rp['kind'] == 'step':
        return C30_oblig.replay_step(rp)
    return C30_oblig.replay_history(rp)
