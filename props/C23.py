"""C23 — ranged reads return exactly the requested bytes (native symbolic execution of the real code + CrossHair)."""
import ast
import concurrent.futures as cf
import importlib
import json
import multiprocessing
import time

from vt import chrun, loader
from vt.common import HarnessError

LEVEL = 'other'
EXPLANATION = (
    'The real AsyncFS.read_range / read_from / open_from and the real GCS, S3, Azure and local _open_from + stream '
    'classes are executed by CPython on z3-backed integers (vt/natsym.py: every branch on a symbolic value is '
    'resolved by z3, all feasible paths are enumerated by re-execution, the verdict is one z3 query "some path '
    'violates the specification" per obligation). The Range header is produced by the real f-strings; the fake '
    'RFC 7233 server recovers the z3 terms of first/last from it. Mode "sym": object size, offsets AND lengths '
    'unbounded, returned bytes are slices of an uninterpreted z3 array (GCS all operations; S3/Azure read-to-end). '
    'Mode "tag": size and offsets unbounded, lengths of spans/blocks/chunks case-split up to B (quick 5, thorough '
    '10) with up to 2 short reads / chunk cuts chosen by the solver — this runs the block loops of '
    '_readexactly, TruncatedReadableBinaryIO and AzureReadableStream on real bytes. CrossHair additionally '
    'confirms the local back end over a pure-Python BinaryIO (sizes <= 3 quick / 5 thorough). Larger spans than B '
    'in the looping code are outside the claim.'
)

FILES = {
    'hail/python/hailtop/aiotools/fs/fs.py': ['open_from', 'read_from', 'read_range'],
    'hail/python/hailtop/aiotools/fs/stream.py': ['_ReadableStreamFromBlocking', 'EmptyReadableStream'],
    'hail/python/hailtop/aiotools/local_fs.py': ['TruncatedReadableBinaryIO', '_open_from'],
    'hail/python/hailtop/aiocloud/aiogoogle/client/storage_client.py': ['GetObjectStream', 'get_object', '_open_from'],
    'hail/python/hailtop/aiocloud/aioaws/fs.py': ['_open_from'],
    'hail/python/hailtop/aiocloud/aioazure/fs.py': ['AzureReadableStream', '_open_from'],
}


def _encode_sources(R):
    for rel, names in FILES.items():
        text = loader.read(rel)
        tree = ast.parse(text)
        found = set()
        for n in ast.walk(tree):
            if isinstance(n, (ast.FunctionDef, ast.AsyncFunctionDef, ast.ClassDef)) and n.name in names:
                R.encode(f'{rel}:{n.lineno} {n.name}', ast.get_source_segment(text, n))
                found.add(n.name)
        missing = set(names) - found
        if missing:
            raise HarnessError(f'{rel}: {sorted(missing)} no longer present')


def obligations(tier):
    B = 5 if tier == 'quick' else 10
    Bs = 4 if tier == 'quick' else 7      # sequences of sized reads: more case splits per path
    val = 60 if tier == 'quick' else 200
    specs = []
    for be in ('gcs', 's3', 'azure'):
        if be == 'gcs':
            specs.append(dict(backend=be, op='read_range', mode='sym'))
        for hl in (False, True):
            specs.append(dict(backend=be, op='open_read', mode='sym', haslen=hl))
        specs.append(dict(backend=be, op='read_from', mode='sym'))
    for be in ('gcs', 's3', 'azure', 'local'):
        specs.append(dict(backend=be, op='read_range', mode='tag', bound=B, shorts=2))
    for hl in (False, True):
        # local files are io.BufferedReader objects: read(n) is never short before EOF
        specs.append(dict(backend='local', op='open_read', mode='tag', bound=B, haslen=hl, shorts=0))
    specs.append(dict(backend='local', op='read_from', mode='tag', bound=B, shorts=0))
    for be in ('gcs', 's3', 'azure', 'local'):
        for hl in (False, True):
            specs.append(dict(backend=be, op='seq', mode='tag', bound=Bs, haslen=hl, k=2,
                              shorts=0 if be == 'local' else 1))
            specs.append(dict(backend=be, op='drain', mode='tag', bound=Bs, haslen=hl, shorts=1))
    for s in specs:
        s.setdefault('bound', B)
        s['validate'] = val
    return specs


def _name(s):
    extra = ''
    if s.get('haslen') is not None:
        extra = ' length given' if s['haslen'] else ' no length'
    if s['op'] == 'seq':
        extra += f' {s["k"]} sized reads then read()'
    b = 'unbounded' if s['mode'] == 'sym' else f'lengths<={s["bound"]}, short reads<={s.get("shorts", 0)}'
    return f'{s["backend"]} {s["op"]}{extra} [{s["mode"]}: {b}]'


def _worker(spec):
    from harness import C23_oblig
    try:
        return C23_oblig.decide(spec)
    except HarnessError as e:
        return {'spec': spec, 'harness_error': str(e)}


def run_native(R):
    specs = obligations(R.tier)
    ctx = multiprocessing.get_context('spawn')
    results = []
    with cf.ProcessPoolExecutor(max_workers=8, mp_context=ctx) as ex:
        for r in ex.map(_worker, specs):
            results.append(r)
    for r in results:
        s = r['spec']
        name = _name(s)
        if 'harness_error' in r:
            raise HarnessError(f'{name}: {r["harness_error"]}')
        R.validation_points += r['validation_points']
        R.states += r['paths']
        for smp in r['samples'][:1]:
            R.sample({'obligation': name, **smp})
        if r['coverage'] != 'unsat':
            R.ob(f'{name}: explored paths (+ regions cut by the length bound) cover the precondition', 'not_discharged',
                 0.0, {'coverage': r['coverage']})
            continue
        reach = r['reach']['returns_bytes'] == 'sat'
        det = {'paths': r['paths'], 'cut_by_bound': r['pruned'], 'feasibility_queries': r['solver_calls'],
               'reach': r['reach'], 'validated_paths': r['validation_points']}
        for q in r['queries']:
            label = f'{name}: no path returns other than the specified bytes / EOF signal'
            if q['class'] != 'new':
                label = f'{name}: … inside finding class {q["class"]}'
            if q['result'] == 'unsat':
                R.ob(label, 'discharged' if reach else 'not_discharged', r['secs'] if q['class'] == 'new' else q['secs'],
                     det, nontrivial=reach)
            elif q['result'] == 'sat':
                if not q['reproduced']:
                    raise HarnessError(f'{name}: counterexample does not reproduce on the concrete run: {q}')
                cls = q['class'] if q['class'] != 'new' else f'{s["backend"]}-{s["op"]}-returns-wrong-bytes'
                what = (f'{s["backend"]} {s["op"]} inputs={q["inputs"]} short_reads={q["short_reads"]}: got {q["got"]}, '
                        f'specified {q["accepted"]}; transport saw {q["requests"]}')
                st = R.finding(cls, what, {'kind': 'native', 'spec': s, 'inputs': q['inputs'],
                                           'short_reads': q['short_reads']})
                R.ob(label, st, q['secs'], {'witness': q['inputs'], **det}, nontrivial=True)
            else:
                R.ob(label, 'not_discharged', q['secs'], {'solver': q['result']})


def run_crosshair(R):
    from harness import C23_template as T
    sz = 3 if R.tier == 'quick' else 5
    pct = 100 if R.tier == 'quick' else 900
    gm = chrun.gen_module(f'C23_conditions_{sz}', T.source(sz))
    conds = [(k, i) for k in T.CONDS for i in range(sz + 1)]
    targets = [f'{gm}.{k}_s{i}' for k, i in conds] + [f'{gm}.{k}_reach' for k in T.CONDS]
    res = chrun.run(targets, per_condition_timeout=pct, workers=8)
    titles = {'rx': '_ReadableStreamFromBlocking.readexactly over a short-reading BinaryIO',
              'lrr': 'local read_range (TruncatedReadableBinaryIO + _readexactly, short reads)',
              'lor': 'local open_from + read() (BufferedReader semantics)'}
    mod = None
    for k, i in conds:
        v, msg, dt = res[f'{gm}.{k}_s{i}']
        rv, rmsg, _ = res[f'{gm}.{k}_reach']
        reach = rv == 'refuted'
        name = f'CrossHair {titles[k]}: size={i}, other integers <= {sz + 2}'
        if v == 'confirmed':
            R.ob(name, 'discharged' if reach else 'not_discharged', dt, {'twin': rmsg[:160]}, nontrivial=reach)
        elif v == 'refuted':
            args = chrun.parse_counterexample(msg, T.ARGNAMES[k])
            if args is None:
                raise HarnessError(f'cannot parse CrossHair counterexample: {msg}')
            if mod is None:
                mod = importlib.import_module('harness.C23_local')
            if _ch_holds(mod, k, args):
                raise HarnessError(f'CrossHair counterexample does not reproduce concretely: {msg}')
            st = R.finding(f'local-{k}-returns-wrong-bytes', f'{titles[k]} {args}', {'kind': 'crosshair', 'cond': k,
                                                                                    'args': args})
            R.ob(name, st, dt, {'cex': args}, nontrivial=True)
        else:
            R.ob(name, 'not_discharged', dt, {'crosshair': msg[-200:]})


def _ch_holds(mod, k, a):
    try:
        if k == 'rx':
            return mod.readexactly_ok(a['size'], a['pos'], a['n'], [a['s1'], a['s2']])
        if k == 'lrr':
            return mod.local_read_range_ok(a['size'], a['start'], a['end'], a['incl'], [a['s1'], a['s2']])
        return mod.local_open_read_ok(a['size'], a['start'], a['length'] if a['haslen'] else None)
    except Exception:
        return False


def run(R):
    B = 5 if R.tier == 'quick' else 10
    R.bounds = {
        'sym mode (GCS all operations, S3/Azure open_from+read(), read_from)': 'object size, start, end, length: unbounded',
        'tag mode (block loops)': f'object size and offsets unbounded; span/block/chunk lengths <= {B} '
                                  f'(<= {4 if R.tier == "quick" else 7} for read sequences); <= 2 short reads or chunk cuts',
        'CrossHair (local back end)': f'object size <= {3 if R.tier == "quick" else 5}, 2 short reads',
        'operations': 'read_range (inclusive/exclusive), open_from(start[, length]) + read(), read_from, '
                      'open_from + 2 sized reads + read(), open_from + read(n) until empty',
    }
    R.assume(
        'the object exists and is a file (isfile true, isdir false); start >= 0, length >= 0, end >= start-1 '
        '(end >= start when exclusive): negative arguments are outside the property',
        'transport stubs below the repository code: an RFC 7233 origin server (absent/unparsable/invalid Range '
        'ignored, first >= size -> 416, last clamped) behind GoogleStorageClient._session.get and behind '
        'boto3 get_object (416 = ClientError code InvalidRange); azure BlobClient.download_blob(offset, length) '
        'returns the size-clamped range and raises HttpResponseError(416) when offset >= size (the Azure SDK is not '
        'installed here: this 416 behaviour is taken from aioazure/fs.py itself — its comment "cannot set the '
        'default to 0 because this will fail on an empty file" and its status_code == 416 handler in the sized '
        'branch), chunks() yields non-empty chunks; builtin open() returns a BinaryIO over the object',
        'aiohttp StreamReader.readexactly raises asyncio.IncompleteReadError when fewer bytes remain; read(n) may '
        'return fewer than n bytes but not zero before EOF (also botocore StreamingBody)',
        'local files are io.BufferedReader: read(n) is not short before EOF (short reads are still explored for '
        'read_range and read-until-empty)',
        'an offset at or past the end of the object may be answered with UnexpectedEOFError instead of b"" by '
        'open_from/read_from (cloud back ends turn HTTP 416 into it); read_range with an empty span returns b""',
        'blocking_to_async runs the callable inline (no thread hop); under CrossHair fs.py asyncio.gather is '
        'sequential awaiting',
        'seek() on ranged streams is outside the property',
    )
    R.extra['trusted_base'] = ['z3', 'vt/natsym.py path explorer (each explored path is re-run concretely on a '
                               'model of its path condition and must give the same outcome; exhaustiveness of the '
                               'path set is a z3 query)', 'transport fakes in harness/C23_cloud.py', 'CrossHair']
    _encode_sources(R)
    t = time.time()
    run_native(R)
    R.log(f'[C23] native obligations done in {time.time() - t:.0f}s')
    run_crosshair(R)


def replay(path):
    d = json.load(open(path))
    rp = d['replay']
    if rp.get('kind') == 'crosshair':
        mod = importlib.import_module('harness.C23_local')
        ok = _ch_holds(mod, rp['cond'], rp['args'])
        print('holds' if ok else 'violated', rp)
        return 0 if ok else 1
    from harness import C23_oblig
    return C23_oblig.replay(rp)
