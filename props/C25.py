"""C25 — resource-size strings parse to their decimal value (E3 pyk: Float64 in SMT; E4 strlang: regexes)."""
import ast
import importlib
import json
import math
import re
import time
from fractions import Fraction

import z3

from vt import loader, pyk, strlang
from vt.common import HarnessError

LEVEL = 'other'
EXPLANATION = (
    'The real parse_cpu_in_mcpu / parse_memory_in_bytes / parse_storage_in_bytes are re-read from /repo and evaluated '
    'symbolically (vt/pyk.py, including module-level helpers and str operations on the shaped argument) on "a numeral with k '
    'fractional digits whose digits spell the symbolic integer N, followed by suffix s": float(numeral) is fp.div RNE(N, 10^k) in Float64, *, / are RNE, int() is fp.to_sbv RTZ, math.ceil is '
    'RTP. One SMT query (QF_BVFP; z3 4.8.12 and cvc5 in a portfolio) per (function, k, suffix) decides result == '
    'floor(N*1000/10^k) millicores (cpu; "m": floor(N/10^k)) resp. ceil(N*factor/10^k) bytes for ALL N below the bound; a '
    'second reading of the same AST in exact rational arithmetic separates "wrong formula" from "binary floating point '
    'artefact". Regular-language equalities (client parser = server validator = documented grammar; captured suffixes = '
    'conv_factor keys) are decided by z3 regex over strings of any length. Bounds: N < 2^14, k <= 3 (quick); N < 2^20, '
    'k <= 6 (thorough). Longer numerals are outside the claim.'
)

PARSE = 'hail/python/hailtop/batch_client/parse.py'
VALIDATE = 'batch/batch/front_end/validate.py'
HVALIDATE = 'hail/python/hailtop/utils/validate/validate.py'

# the documented grammar ({number}{suffix}; job.py docstrings) and the denoted values
SPEC_MEM = {None: 1, 'K': 1000, 'Ki': 1024, 'M': 1000 ** 2, 'Mi': 1024 ** 2, 'G': 1000 ** 3, 'Gi': 1024 ** 3,
            'T': 1000 ** 4, 'Ti': 1024 ** 4, 'P': 1000 ** 5, 'Pi': 1024 ** 5}
SPEC_CPU = {None: Fraction(1000), 'm': Fraction(1)}   # millicores per unit
FUNCS = {
    'parse_cpu_in_mcpu': dict(kind='cpu', key='cpu', units=SPEC_CPU, rounding='floor'),
    'parse_memory_in_bytes': dict(kind='memory', key='memory', units=SPEC_MEM, rounding='ceil'),
    'parse_storage_in_bytes': dict(kind='storage', key='storage', units=SPEC_MEM, rounding='ceil'),
}

DIGIT = z3.Range('0', '9')


def spec_language(kind):
    number = z3.Union(z3.Plus(DIGIT), z3.Concat(z3.Star(DIGIT), z3.Re('.'), z3.Plus(DIGIT)))
    if kind == 'cpu':
        return z3.Concat(z3.Option(z3.Re('+')), number, z3.Option(z3.Re('m')))
    suf = z3.Union(*[z3.Re(s) for s in SPEC_MEM if s])
    return z3.Concat(z3.Option(z3.Re('+')), number, z3.Option(suf), z3.Option(z3.Re('B')))


# ---- the parser's view of the argument string and of "the match object" ---------------------------------
class SymMatch:
    """re.Match of the REAL pattern on a shaped string: every group is mapped back from the spans the real pattern
    produces on renderings of the shape (digits rendered as 7s, unknown digit counts with several lengths)."""

    def __init__(self, groups, index):
        self.groups_ = groups      # [group 0, group 1, ...]: str | pyk.SStr | pyk.SDecStr | None
        self.index = index         # name -> group number

    def _one(self, i):
        if isinstance(i, str):
            i = self.index[i]
        return self.groups_[i]

    @pyk.native
    def group(self, *idx):
        if not idx:
            return self.groups_[0]
        if len(idx) == 1:
            return self._one(idx[0])
        return tuple(self._one(i) for i in idx)

    @pyk.native
    def groups(self, default=None):
        return tuple(default if g is None else g for g in self.groups_[1:])

    @pyk.native
    def groupdict(self, default=None):
        return {n: (default if self.groups_[i] is None else self.groups_[i]) for n, i in self.index.items()}

    def __getitem__(self, i):
        return self._one(i)

    def __bool__(self):
        return True


class SymPattern:
    def __init__(self, real, it):
        self.real = real
        self.it = it
        self.used = []

    def _do(self, how, s, *extra):
        it = self.it
        if extra:
            raise HarnessError('regex call with pos/endpos')
        self.used.append(how)
        if isinstance(s, str):
            return getattr(self.real, how)(s)
        if not isinstance(s, (pyk.SStr, pyk.SDecStr)):
            raise HarnessError(f'regex applied to {type(s).__name__}')
        segs = it._segs(s)
        outs = []
        for L in (1, 3, 6):
            text = it._render(segs, L, '7')
            m = getattr(self.real, how)(text)
            if m is None:
                outs.append(None)
                continue
            # positions of the segments in this rendering
            pos = []
            at = 0
            for q in segs:
                n = len(q) if isinstance(q, str) else (q.int_digits if q.int_digits is not None else L)
                pos.append((at, at + n, q))
                at += n
            groups = []
            for gi in range(self.real.groups + 1):
                a, b = m.span(gi)
                if a < 0:
                    groups.append(None)
                    continue
                parts = []
                for lo, hi, q in pos:
                    x, y = max(a, lo), min(b, hi)
                    if x >= y:
                        continue
                    if isinstance(q, str):
                        parts.append(q[x - lo:y - lo])
                    elif (x, y) == (lo, hi):
                        parts.append(q)
                    else:
                        raise HarnessError(f'group({gi}) cuts through the digits of the numeral')
                groups.append(it.mkstr(parts))
            outs.append(groups)
        if all(o is None for o in outs):
            return None
        if any(o is None for o in outs) or not all(it._same_shape(outs[0], o) for o in outs[1:]):
            raise HarnessError('the regex outcome depends on the number of digits of the numeral')
        return SymMatch(outs[0], dict(self.real.groupindex))

    @pyk.native
    def fullmatch(self, s, *extra):
        return self._do('fullmatch', s, *extra)

    @pyk.native
    def match(self, s, *extra):
        return self._do('match', s, *extra)

    @pyk.native
    def search(self, s, *extra):
        return self._do('search', s, *extra)


def shaped_argument(it, N, k, suffix, plus, empty_int, b):
    """The parser argument for one spelling shape: ['+'] numeral [suffix] ['B'] with symbolic digits N."""
    num = pyk.SDecStr(N, k, 0 if empty_int else None)
    return it.mkstr((['+'] if plus else []) + [num] + ([suffix] if suffix else []) + (['B'] if b else []))


def render(n, k, suffix, plus=False, b=False):
    d = str(n).rjust(k + 1, '0')
    num = d if k == 0 else d[:-k] + '.' + d[-k:]
    return ('+' if plus else '') + num + (suffix or '') + ('B' if b else '')


def expected(n, k, suffix, info):
    q = Fraction(n, 10 ** k) * info['units'][suffix]
    return math.floor(q) if info['rounding'] == 'floor' else math.ceil(q)


def interp_paths(mod, fname, node, k, suffix, mode, width, nmax, variant, on_function=None):
    """Symbolic evaluation of the real function on one shape.  Returns (interp, N, paths)."""
    it = pyk.Interp(width=width, float_mode=mode, on_function=on_function)
    N = it.int_var('N')
    it.assume(z3.And(N.t >= 0, N.t < nmax))
    if variant[1]:
        # empty integer part: the digits are the k fraction digits only
        it.assume(N.t < min(nmax, 10 ** k))
    globs = dict(vars(mod))
    pats = {}
    for name, v in list(globs.items()):
        if isinstance(v, re.Pattern):
            pats[name] = globs[name] = SymPattern(v, it)
    # helper functions of the module see the same (pattern-substituted) globals
    it.glob_overrides[id(vars(mod))] = globs
    arg = shaped_argument(it, N, k, suffix, *variant)
    paths = it.explore(lambda i: i.call_node(node, [arg], {}, globs))
    return it, N, paths, pats


def spec_term(it, N, k, suffix, info):
    """floor / ceil of N * unit / 10^k as a BV term (all operands non-negative, no overflow by choice of width)."""
    unit = Fraction(info['units'][suffix]) / 10 ** k
    num = N.t * it.bv(unit.numerator)
    den = it.bv(unit.denominator)
    if info['rounding'] == 'floor':
        return z3.UDiv(num, den)
    return z3.UDiv(num + den - it.bv(1), den)


def violation(it, paths, spec):
    """Or over paths: path taken and (does not return an int | a side condition fails | result != spec)."""
    out = []
    for p in paths:
        conds = list(p.pc)
        if p.kind == 'return' and isinstance(p.value, (pyk.SInt, int)) and not isinstance(p.value, bool):
            bad = z3.Or(z3.Not(z3.And(*p.side)) if p.side else z3.BoolVal(False), it.it(p.value) != spec)
        else:
            bad = z3.BoolVal(True)
        out.append(z3.And(*conds, bad) if conds else bad)
    return z3.Or(*out) if len(out) > 1 else out[0]


def result_term(it, paths):
    """single-term view of the result (for translator validation): ite over return paths"""
    acc = None
    for p in paths:
        if p.kind != 'return' or not isinstance(p.value, (pyk.SInt, int)) or isinstance(p.value, bool):
            return None
        t = it.it(p.value)
        acc = t if acc is None else z3.If(z3.And(*p.pc) if p.pc else z3.BoolVal(True), t, acc)
    return acc


def width_for(nmax, info, suffix, k):
    big = nmax * int(info['units'][suffix]) * 10 ** k * 8
    return 64 if big < (1 << 61) else 128


# ---- regular-language half --------------------------------------------------------------------------
def regex_half(R, mod):
    loader.install()
    val = importlib.import_module('batch.front_end.validate')
    hval = importlib.import_module('hailtop.utils.validate.validate')
    text = loader.read(PARSE)
    tree = ast.parse(text)
    vtext = loader.read(HVALIDATE)
    how_server = None
    for n in ast.walk(ast.parse(vtext)):
        if isinstance(n, ast.ClassDef) and n.name == 'RegexValidator':
            R.encode(f'{HVALIDATE}:{n.lineno} RegexValidator', ast.get_source_segment(vtext, n))
            hows = [c.func.attr for c in ast.walk(n) if isinstance(c, ast.Call) and isinstance(c.func, ast.Attribute)
                    and ast.unparse(c.func.value) == 'self.re_obj']
            if len(hows) == 1:
                how_server = hows[0]
    if how_server is None:
        raise HarnessError('RegexValidator.validate no longer applies self.re_obj in one call')
    vt = loader.read(VALIDATE)
    for n in ast.walk(ast.parse(vt)):
        if isinstance(n, ast.Dict):
            for kk, vv in zip(n.keys, n.values):
                if isinstance(kk, ast.Constant) and kk.value in ('cpu', 'memory', 'storage') and 'REGEX' in ast.unparse(vv):
                    R.encode(f'{VALIDATE}:{kk.lineno} job_validator resources.{kk.value}', ast.unparse(vv))
    charsets = []
    for fname, info in FUNCS.items():
        kind = info['kind']
        fn = [n for n in tree.body if isinstance(n, ast.FunctionDef) and n.name == fname]
        if not fn:
            raise HarnessError(f'{fname} not found')
        fn = fn[0]
        # the parser decides acceptance by exactly one regex call on its parameter
        calls = [c for c in ast.walk(fn) if isinstance(c, ast.Call) and isinstance(c.func, ast.Attribute)
                 and isinstance(c.func.value, ast.Name) and isinstance(vars(mod).get(c.func.value.id), re.Pattern)]
        if len(calls) != 1 or [ast.unparse(a) for a in calls[0].args] != [fn.args.args[0].arg]:
            raise HarnessError(f'{fname}: acceptance is no longer one regex call on the parameter')
        pat = vars(mod)[calls[0].func.value.id]
        how_client = calls[0].func.attr
        rt = strlang.ReTranslator()
        client = rt.language(pat, how_client)
        # server side: the real validator object
        chk = val.job_validator['resources'][info['key']]
        rvs = [chk] if isinstance(chk, hval.RegexValidator) else [c for c in getattr(chk, 'checkers', [])
                                                                  if isinstance(c, hval.RegexValidator)]
        others = [] if isinstance(chk, hval.RegexValidator) else [c for c in getattr(chk, 'checkers', [])
                                                                  if not isinstance(c, hval.RegexValidator)]
        if len(rvs) != 1:
            raise HarnessError(f'resources.{info["key"]}: expected exactly one RegexValidator')
        rv = rvs[0]
        server = rt.language(rv.re_obj, how_server)
        if rv.maxlen is not None:
            server = z3.Intersect(server, z3.Loop(z3.AllChar(z3.ReSort(z3.StringSort())), 0, rv.maxlen))
        spec = spec_language(kind)
        charsets += rt.charsets
        # translator validation on solver-chosen members / non-members
        pts = []
        for lang in (client, z3.Complement(client), strlang.difference(spec, client), strlang.difference(client, spec)):
            pts += strlang.members(lang, 6 if R.tier == 'quick' else 14)
        pts += ['', '1', '+1', '1.', '.5', '1.5m', '1Ki', '1KiB', '1B', '1iB', '1.5.5', '1e3', '-1', '1\n', '٣', '1 ', '++1', '1mB', '1KB']
        s = z3.String('s')
        for p in pts:
            want = getattr(pat, how_client)(p) is not None
            sol = z3.Solver()
            sol.add(s == z3.StringVal(p), z3.InRe(s, client))
            got = str(sol.check()) == 'sat'
            R.validation_points += 1
            if want != got:
                raise HarnessError(f'regex translator disagrees with re on {p!r} for {fname}')
            try:
                rv.validate('x', p)
                sw = True
            except hval.ValidationError:
                sw = False
            sol = z3.Solver()
            sol.add(s == z3.StringVal(p), z3.InRe(s, server))
            if sw != (str(sol.check()) == 'sat'):
                raise HarnessError(f'regex translator disagrees with RegexValidator on {p!r} for {info["key"]}')

        def decide(label, lang, cls, accept_fn, twin):
            r, w, dt = strlang.member(lang, timeout_ms=120000)
            nt = strlang.member(twin, timeout_ms=60000)[0] == 'sat'
            if r == 'unsat':
                R.ob(label, 'discharged', dt, nontrivial=nt)
            elif r == 'sat':
                real = accept_fn(w)
                if not real['differs']:
                    raise HarnessError(f'{label}: witness {w!r} does not reproduce')
                st = R.finding(cls, f'{label}: witness {w!r} {real["what"]}', {'kind': 'language', 'function': fname,
                                                                           'string': w, 'check': cls})
                R.ob(label, st, dt, {'witness': w}, nontrivial=True)
            else:
                R.ob(label, 'not_discharged', dt, {'solver': r})

        def cs(w):
            c = mod.__dict__[fname](w) is not None
            try:
                rv.validate('x', w)
                sv = True
            except hval.ValidationError:
                sv = False
            return {'differs': c != sv, 'what': f'client accepts={c} server accepts={sv}'}

        def sp(w):
            c = getattr(pat, how_client)(w) is not None
            sol = z3.Solver()
            sol.add(s == z3.StringVal(w), z3.InRe(s, spec))
            m = str(sol.check()) == 'sat'
            return {'differs': c != m, 'what': f'parser accepts={c} documented grammar={m}'}

        decide(f'{kind}: client-accepted minus server-accepted is empty', strlang.difference(client, server),
               'client-server-language-mismatch', cs, client)
        decide(f'{kind}: server-accepted minus client-accepted is empty', strlang.difference(server, client),
               'client-server-language-mismatch', cs, server)
        decide(f'{kind}: parser-accepted minus documented grammar is empty', strlang.difference(client, spec),
               'regex-differs-from-documented-grammar', sp, client)
        decide(f'{kind}: documented grammar minus parser-accepted is empty', strlang.difference(spec, client),
               'regex-differs-from-documented-grammar', sp, spec)
        for o in others:
            for name in sorted(getattr(o, 'valid', [])):
                sol = z3.Solver()
                sol.add(s == z3.StringVal(name), z3.InRe(s, client))
                R.ob(f'{kind}: validator alternative {name!r} is not a size string', 'discharged'
                     if str(sol.check()) == 'unsat' else 'not_discharged', 0.0, nontrivial=True)
    ok, det = strlang.high_plane_reduction(charsets + [[(48, 57)], [(43, 43)], [(46, 46)], [(66, 66)], [(105, 105)],
                                                       [(109, 109)]] + [[(ord(c), ord(c))] for c in 'KMGTP'])
    R.ob('regex alphabets: code points above U+2FFFF share a class signature with a lower one',
         'discharged' if ok else 'not_discharged', 0.0, det, nontrivial=True)


# ---- numeric half ------------------------------------------------------------------------------------
def numeric_half(R, mod):
    quick = R.tier == 'quick'
    nbits = 14 if quick else 20
    nmax = 1 << nbits
    ks = list(range(0, 4)) if quick else list(range(0, 7))
    fp_timeout = 100 if quick else 300
    R.bounds = {'N (all digits of the numeral read as one integer)': f'0 <= N < 2^{nbits}',
                'fractional digits k': f'{ks[0]}..{ks[-1]}', 'suffixes': 'all of the grammar (cpu: none, m; memory/storage: none, '
                'K Ki M Mi G Gi T Ti P Pi), with/without leading "+", empty integer part, trailing "B"',
                'string length (regex half)': 'unbounded'}
    text = loader.read(PARSE)
    tree = ast.parse(text)
    nodes = {n.name: n for n in tree.body if isinstance(n, ast.FunctionDef)}
    for n in tree.body:
        if isinstance(n, (ast.Assign, ast.AnnAssign)) and ('REGEX' in ast.unparse(n) or 'conv_factor' in ast.unparse(n)):
            R.encode(f'{PARSE}:{n.lineno} {ast.unparse(n.targets[0] if isinstance(n, ast.Assign) else n.target)}',
                     ast.get_source_segment(text, n))
    jobs = []      # (key, smt text)
    meta = {}
    dedupe = {}
    seen_fn = set()

    def on_fn(f, fnode, src):
        # helper functions the parsers call (interpreted like the parsers themselves)
        key = (f.__code__.co_filename, f.__code__.co_firstlineno)
        if key not in seen_fn:
            seen_fn.add(key)
            rel = f.__code__.co_filename.split('/python/', 1)[-1]
            R.encode(f'hail/python/{rel}:{f.__code__.co_firstlineno} {f.__qualname__}', src)
    for fname, info in FUNCS.items():
        node = nodes.get(fname)
        if node is None:
            raise HarnessError(f'{fname} not found in {PARSE}')
        R.encode(f'{PARSE}:{node.lineno} {fname}', ast.get_source_segment(text, node))
        real = getattr(mod, fname)
        for suffix in info['units']:
            for k in ks:
                width = width_for(nmax, info, suffix, k)
                variants = [(p, e, b) for p in (False, True) for e in ((False, True) if k else (False,))
                            for b in ((False, True) if info['kind'] != 'cpu' else (False,))]
                per_mode = {}
                for mode in ('exact', 'fp64'):
                    terms = {}
                    for var in variants:
                        it, N, paths, pats = interp_paths(mod, fname, node, k, suffix, mode, width, nmax, var, on_fn)
                        spec = spec_term(it, N, k, suffix, info)
                        vio = violation(it, paths, spec)
                        terms.setdefault(vio.sexpr(), (it, N, paths, spec, vio, var))
                    per_mode[mode] = list(terms.values())
                shape = f'{fname} k={k} suffix={suffix or "-"}'
                for mode in ('exact', 'fp64'):
                    for (it, N, paths, spec, vio, var) in per_mode[mode]:
                        key = (shape, mode, var)
                        pre = list(it.pre)
                        # reachability twin: some N reaches a return on some path
                        tw = z3.Solver()
                        tw.add(*pre)
                        tw.add(z3.Or(*[z3.And(*p.pc) if p.pc else z3.BoolVal(True) for p in paths if p.kind == 'return'] or [z3.BoolVal(False)]))
                        reach = str(tw.check()) == 'sat'
                        has_fp = 'fp.' in vio.sexpr() or 'to_fp' in vio.sexpr()
                        meta[key] = dict(fname=fname, info=info, k=k, suffix=suffix, mode=mode, var=var, it=it, N=N,
                                         paths=paths, spec=spec, vio=vio, reach=reach, has_fp=has_fp, real=real,
                                         n_variants=len(variants))
                        txt = pyk.smt2(pre + [vio], 'QF_BVFP' if has_fp else 'QF_BV')
                        dk = txt
                        meta[key]['dk'] = dk
                        if dk in dedupe:
                            meta[key]['same_as'] = dedupe[dk]
                        else:
                            dedupe[dk] = key
                            jobs.append((key, txt, ('z3old', 'cvc5') if has_fp else ('z3new',),
                                         fp_timeout if has_fp else 60))
    R.log(f'[C25] {len(meta)} obligations, {len(jobs)} distinct SMT queries')
    t0 = time.time()
    # hardest (large k, large factors) first
    jobs.sort(key=lambda j: -(meta[j[0]]['k'] * 10 + (0 if meta[j[0]]['suffix'] is None else len(meta[j[0]]['suffix']))))
    res = pyk.portfolio_many(jobs, workers=4)
    R.log(f'[C25] solver phase {time.time() - t0:.1f}s')

    exact_ok = {}
    status_cache = {}
    for mode in ('exact', 'fp64'):
        for key, m in meta.items():
            if m['mode'] != mode:
                continue
            shape = key[0]
            src = m.get('same_as', key)
            r, model, dt, solver = res[src]
            if src != key:
                dt = 0.0
            name = (f'{shape} [{"exact-rational reading" if mode == "exact" else "Float64 reading"}'
                    f'{"" if m["n_variants"] == 1 or len([1 for kk in meta if kk[0] == shape and kk[1] == mode]) == 1 else " spelling " + str(key[2])}]'
                    f': result == {m["info"]["rounding"]}(N*unit/10^k)')
            if r == 'unsat':
                if mode == 'exact':
                    exact_ok.setdefault(shape, True)
                R.ob(name, 'discharged' if m['reach'] else 'not_discharged', dt, {'solver': solver}, nontrivial=m['reach'])
                continue
            if r == 'error':
                raise HarnessError(f'{name}: solver error {str(model)[:600]}')
            if r != 'sat':
                if mode == 'exact':
                    exact_ok[shape] = False
                R.ob(name, 'not_discharged', dt, {'solver': solver, 'result': r})
                continue
            n = model.get('N')
            if not isinstance(n, int):
                raise HarnessError(f'{name}: model without N: {model}')
            it, N = m['it'], m['N']
            # encoding range: every side condition must hold at the witness
            for p in m['paths']:
                if all(pyk.eval_term(c, {N.t: n}) for c in p.pc):
                    for sc in p.side:
                        if not pyk.eval_term(sc, {N.t: n}):
                            raise HarnessError(f'{name}: witness N={n} leaves the encoded integer range')
            s = render(n, m['k'], m['suffix'], *[m['var'][0], m['var'][2]])
            if m['var'][1]:
                s = s.replace('0.', '.', 1) if s.lstrip('+').startswith('0.') else s
            want = expected(n, m['k'], m['suffix'], m['info'])
            try:
                got = m['real'](s)
            except Exception as e:
                got = f'{type(e).__name__}: {e}'
            if mode == 'exact':
                exact_ok[shape] = False
                # the exact reading is a reading, not the real function: it counts only if the real function is wrong too
                if got == want:
                    R.ob(name, 'not_discharged', dt, {'note': 'exact-rational reading differs from spec but real function agrees',
                                                      'witness': s})
                    continue
                cls = f'{m["info"]["kind"]}-wrong-in-exact-arithmetic'
            else:
                if got == want:
                    raise HarnessError(f'{name}: solver witness {s!r} does not reproduce on the real function '
                                       f'(real={got}, exact={want})')
                rt = result_term(it, m['paths'])
                if rt is not None and isinstance(got, int):
                    pred = pyk.eval_term(rt, {N.t: n})
                    R.validation_points += 1
                    if pred != got:
                        raise HarnessError(f'{name}: translator predicts {pred} for {s!r}, real function returns {got}')
                if exact_ok.get(shape) and isinstance(got, int):
                    cls = f'{m["info"]["kind"]}-float-rounding-artefact'
                elif not isinstance(got, int):
                    cls = f'{m["info"]["kind"]}-accepted-string-not-parsed'
                else:
                    cls = f'{m["info"]["kind"]}-wrong-in-exact-arithmetic'
            what = f'{m["fname"]}({s!r}) == {got!r}, the string denotes {want} ({m["info"]["rounding"]})'
            ck = (m['fname'], cls)
            if ck not in status_cache:
                status_cache[ck] = R.finding(cls, what, {'kind': 'value', 'function': m['fname'], 'string': s, 'expected': want})
            R.ob(name, status_cache[ck], dt, {'witness': s, 'got': got, 'expected': want, 'class': cls, 'solver': solver},
                 nontrivial=True)
            R.sample({'function': m['fname'], 'string': s, 'real': got, 'denotes': want, 'class': cls})

    # translator validation: solver-chosen points (BV queries: N*unit exact multiple of 10^k / not), plus corner values,
    # pushed through the real function and compared with the Float64 term evaluated at the same N
    for key, m in meta.items():
        if m['mode'] != 'fp64' or 'same_as' in m or key[2] != (False, False, False):
            continue
        rt = result_term(m['it'], m['paths'])
        if rt is None:
            continue
        N = m['N']
        pts = {0, 1, nmax - 1}
        unit = Fraction(m['info']['units'][m['suffix']]) / 10 ** m['k']
        for want_exact in (True, False):
            sol = z3.Solver()
            sol.set('timeout', 5000)
            sol.add(*m['it'].pre)
            sol.add(N.t > 9)
            rem = z3.URem(N.t * m['it'].bv(unit.numerator), m['it'].bv(unit.denominator))
            sol.add(rem == 0 if want_exact else rem != 0)
            if str(sol.check()) == 'sat':
                pts.add(sol.model().eval(N.t, model_completion=True).as_long())
        for n in sorted(pts):
            s = render(n, m['k'], m['suffix'])
            got = m['real'](s)
            pred = pyk.eval_term(rt, {N.t: n})
            R.validation_points += 1
            if got != pred:
                raise HarnessError(f'translator validation: {m["fname"]}({s!r}) real={got} encoded={pred}')


def run(R):
    loader.install()
    mod = importlib.import_module('hailtop.batch_client.parse')
    R.assume('float() of a decimal numeral is the correctly rounded binary64 value (CPython dtoa), independent of leading '
             'zeros and of a missing integer part; it equals fp.div RNE(N, 10^k) because N < 2^53 and 10^k (k <= 22) are exact',
             'Python int(float) truncates (RTZ), math.ceil(float) rounds toward +inf (RTP), float * and / are IEEE-754 RNE',
             'the parser argument is a shaped string: optional "+", a numeral with symbolic digits (integer part empty or of '
             'unknown length >= 1, k fraction digits), optional suffix, optional "B"; str operations on it and on the regex '
             'groups (in, isdigit, partition/split, strip, startswith/endswith, slicing, len, int/float/Fraction/Decimal) are '
             'decided per shape by running the REAL str method / regex / converter on several renderings (digits as 7s or '
             'private-use characters, unknown digit counts with several lengths) and requiring one structural answer; an '
             'operation whose answer would depend on digit values or on the number of leading zeros is refused (exit 2)',
             'helper functions defined in parse.py are interpreted like the parsers (with the same substituted regex objects)',
             'Fraction(...)/Decimal(...) of the numeral, if the code uses them, are read as exact rationals '
             '(Decimal context precision 28 is not modelled; operands here have < 28 significant digits)',
             'the denoted value of "{number}{suffix}" is number * unit with units K=10^3 Ki=2^10 ... P=10^15 Pi=2^50, '
             'cpu: 1 = 1000 millicores, "m" = millicores (documented grammar in hailtop/batch/job.py)')
    R.extra['trusted_base'] = ['z3 4.8.12 / cvc5 1.0.3 floating-point decision procedures (bit-blasting)', 'z3 5.1 regex solver',
                               'vt/pyk.py translation (validated each run against the real functions on solver-chosen points)',
                               'vt/strlang.py regex translation (validated each run against re)']
    regex_half(R, mod)
    numeric_half(R, mod)


def replay(path):
    d = json.load(open(path))
    rp = d['replay']
    loader.install()
    mod = importlib.import_module('hailtop.batch_client.parse')
    if rp['kind'] == 'value':
        try:
            got = getattr(mod, rp['function'])(rp['string'])
        except Exception as e:
            got = f'{type(e).__name__}: {e}'
        print(f"{rp['function']}({rp['string']!r}) = {got!r}; denotes {rp['expected']}")
        return 1 if got != rp['expected'] else 0
    val = importlib.import_module('batch.front_end.validate')
    hval = importlib.import_module('hailtop.utils.validate.validate')
    info = FUNCS[rp['function']]
    c = getattr(mod, rp['function'])(rp['string']) is not None
    if rp['check'] == 'client-server-language-mismatch':
        try:
            val.job_validator['resources'][info['key']].validate('x', rp['string'])
            sv = True
        except hval.ValidationError:
            sv = False
        print(f'client accepts={c} server accepts={sv}')
        return 1 if c != sv else 0
    s = z3.String('s')
    sol = z3.Solver()
    sol.add(s == z3.StringVal(rp['string']), z3.InRe(s, spec_language(info['kind'])))
    m = str(sol.check()) == 'sat'
    print(f'parser accepts={c} documented grammar={m}')
    return 1 if c != m else 0
