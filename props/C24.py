"""C24 - rate limiter never exceeds its rate and admits as soon as possible (symbolic scheduler harness)."""
import ast
import importlib
import json

from vt import loader, sched

LEVEL = 'other'
EXPLANATION = (
    'CrossHair (symbolic execution, z3) runs the real hailtop.utils.rate_limiter.RateLimiter (`async with limiter:`) for up to k '
    'concurrent entry tasks on the real asyncio scheduler under a director-controlled integer clock: time.time and '
    'asyncio.sleep are replaced in the module namespace by a virtual clock / timer list. count, the window length, every '
    'clock advance dt_s (so every arrival instant and every wake-up lateness) and the action of every step are symbolic. '
    'Two schedule families: (1) bodies end at once: per step an optional arrival, before or after the woken sleepers; '
    '(2) held bodies: an admitted entry stays inside its `async with` body until the director acts; per step one of nothing / '
    'arrival / entry i leaves its body normally or by raising / Task.cancel() of entry i (inside its body, sleeping in '
    '__aenter__, woken but not yet resumed, not yet run), before or after the woken sleepers. Asserted: no half-open window of '
    'the configured length holds more than count admissions, where an admission is counted from the instant __aenter__ '
    'returned whatever happens to the entry afterwards; an entry sleeps only when the window is full, for a positive '
    'time that never reaches past the first instant with room; every entry that is not cancelled is eventually admitted, even '
    'while every admitted entry is still inside its body. Only "Confirmed over all paths" discharges a shard. Bounded: quick '
    'family 1 k=5 steps, family 2 k=4 steps, count 1..2; thorough family 1 k=6 and k=7, count 1..3, family 2 k=4 (count 1..3) and '
    'k=5 (count 1..2, arrivals run in their own step); window 1..8, advances 0..10 (integers).'
)
SRC = 'hail/python/hailtop/utils/rate_limiter.py'
HM = 'harness.C24_rate'


def params(k, cmax):
    H = importlib.import_module(HM)
    return ([('count', 'int', 1, cmax), ('window', 'int', 1, H.WMAX)] + [(f'dt{i}', 'int', 0, H.DTMAX) for i in range(k)]
            + [(f'e{i}', 'bool') for i in range(1, k)] + [(f'o{i}', 'bool') for i in range(1, k)])


def params_h(k, cmax):
    """held bodies: a_s action of step s (0 nothing, 1 arrival, 2+2i entry i leaves its body, 3+2i entry task i is cancelled),
    o_s order of the action against a coinciding wake-up, g_s whether an arrival of step s runs before step s+1, r_i whether
    entry i leaves by raising"""
    H = importlib.import_module(HM)
    return ([('count', 'int', 1, cmax), ('window', 'int', 1, H.WMAX)] + [(f'dt{i}', 'int', 0, H.DTMAX) for i in range(k)]
            + [(f'a{i}', 'int', 0, 1 + 2 * i) for i in range(1, k)] + [(f'o{i}', 'bool') for i in range(1, k)]
            + [(f'g{i}', 'bool') for i in range(k - 1)] + [(f'r{i}', 'bool') for i in range(k - 1)])


def hold_groups(k, cmax, tier, depth=1, const=None):
    """Held-body family of k steps.  The first `depth` free actions a1..a_depth are enumerated here over their whole ranges
    (one generated module per combination, so the union is every schedule; combinations in which an action names an entry
    that cannot exist yet contain no well-formed schedule and are discharged vacuously, twin confirmed); inside a combination the shards are the values
    of count and, when the enumerated prefix contains a further arrival (the schedules with the most waiting), of the next
    action as well."""
    import itertools
    byname = {p[0]: p for p in params_h(k, cmax)}
    out = []
    names = [f'a{i}' for i in range(1, min(depth, k - 1) + 1)]
    for combo in itertools.product(*[range(byname[n][2], byname[n][3] + 1) for n in names]):
        on = {'count': list(range(1, cmax + 1))}
        nxt = f'a{len(names) + 1}'
        if 1 in combo and nxt in byname:
            on[nxt] = list(range(byname[nxt][2], byname[nxt][3] + 1))
        tag = ''.join(f'{n}{v}' for n, v in zip(names, combo))
        out += (sched.gen_shards(f'C24_{tier}_h{k}{tag}', HM, params_h(k, cmax), on, entry=(f'check_h{k}', f'reach_h{k}'),
                                    const={**dict(zip(names, combo)), **(const or {})}, prefix=f'h{k}_{tag}_',
                                    meta={'k': k, 'hold': True})[1])
    return [out]   # one group: the vacuity rule (some shard's twin is refuted) is applied to the family as a whole


def describe(a, meta):
    k = meta['k']
    steps = []
    if meta.get('hold'):
        def act(x):
            return {0: '', 1: ' arrive'}.get(x) if x < 2 else ((' leave%d' if x % 2 == 0 else ' cancel%d') % ((x - 2) // 2))
        for i in range(k):
            x = 1 if i == 0 else a[f'a{i}']
            steps.append(f'+{a[f"dt{i}"]}' + act(x) + ('(first)' if i and x and a[f'o{i}'] else '')
                         + ('(runs at next step)' if x == 1 and i < k - 1 and not a[f'g{i}'] else ''))
        return (f'RateLimiter(count={a["count"]}, window={a["window"]}) held bodies, raises=('
                + ','.join(str(a[f'r{i}'])[0] for i in range(k - 1)) + ') steps: ' + '; '.join(steps))
    for i in range(k):
        arr = True if i == 0 else a[f'e{i}']
        steps.append(f'+{a[f"dt{i}"]}' + (' arrive' if arr else '') + ('(first)' if i and arr and a[f'o{i}'] else ''))
    return f'RateLimiter(count={a["count"]}, window={a["window"]}) steps: ' + '; '.join(steps)


def run(R):
    text = loader.read(SRC)
    for n in ast.walk(ast.parse(text)):
        if isinstance(n, ast.ClassDef) and n.name in ('RateLimiter', 'RateLimit'):
            for f in n.body:
                if isinstance(f, (ast.FunctionDef, ast.AsyncFunctionDef)):
                    R.encode(f'{SRC}:{f.lineno} {n.name}.{f.name}', ast.get_source_segment(text, f))
    B = [False, True]
    groups = []
    if R.tier == 'quick':
        pct = 240
        groups.append(sched.gen_shards('C24_k5', HM, params(5, 2), {'count': [1, 2], 'e1': B}, entry=('check_5', 'reach_5'),
                                       prefix='k5_', meta={'k': 5})[1])
        groups += hold_groups(4, 2, 'q', 1)
        R.bounds = {'bodies end at once': 'k=5 steps, <= 5 entries (arrivals, clock advances, orders symbolic)',
                    'held bodies': 'k=4 steps, <= 4 entries; per step a clock advance and one action of: nothing / arrival / entry i '
                                   'leaves its body (normally or by raising) / entry task i is cancelled (in its body, sleeping in '
                                   '__aenter__, woken but not resumed, not run yet); all symbolic',
                    'count': '1..2', 'window': '1..8', 'clock advance per step': '0..10'}
    else:
        pct = 1300
        groups.append(sched.gen_shards('C24_k6', HM, params(6, 3), {'count': [1, 2, 3], 'e1': B, 'e2': B},
                                       entry=('check_6', 'reach_6'), prefix='k6_', meta={'k': 6})[1])
        groups.append(sched.gen_shards('C24_k7', HM, params(7, 3), {'count': [1, 2, 3], 'e1': B, 'e2': B, 'e3': B},
                                       entry=('check_7', 'reach_7'), prefix='k7_', meta={'k': 7})[1])
        groups += hold_groups(4, 3, 't', 1)
        groups += hold_groups(5, 2, 't', 2, const={f'g{i}': True for i in range(4)})
        R.bounds = {'bodies end at once': 'k=6 and k=7 steps, <= 7 entries, count 1..3',
                    'held bodies': 'k=4 steps, count 1..3, everything symbolic; k=5 steps, count 1..2, every arrival runs in its own '
                                   'step (no cancel of a task that has not run yet); per step a clock advance and one action of: '
                                   'nothing / arrival / entry i leaves its body (normally or by raising) / entry task i is cancelled',
                    'window': '1..8', 'clock advance per step': '0..10'}
    R.assume('the clock is integer-valued: the algorithm only adds, subtracts and compares times; rounding of a float '
             'time.time() (e.g. now - window_seconds losing low bits) is outside the claim',
             'time.time is stubbed by the director clock; asyncio.sleep(d) by a virtual timer that wakes the sleeper at the '
             'first director step whose clock is >= now+d (exactly at the deadline on some paths, late on others)',
             'the clock moves only between steps; each step is drained to quiescence (held-body family: a symbolic bit lets an '
             'arrival stay un-run until the next step, where it runs at that step\'s instant or is cancelled before it ever ran); '
             'the action of a step coinciding with a wake-up runs before or after the woken sleepers (symbolic)',
             'an admission is the instant __aenter__ returned (recorded by the first statement of the body); it stays counted '
             'when the entry later leaves normally, raises or is cancelled; an entry cancelled before it was admitted is not an '
             'admission and is not required to be admitted; cancelling a sleeper removes its virtual timer',
             'liveness: after the last step nobody leaves a body and the clock goes from deadline to deadline; every entry that '
             'was never cancelled must be admitted (the limiter bounds a rate, not the number of entries inside); the bodies '
             'still held are then ended normally',
             'step 0 has an arrival (idle steps before the first arrival only shift the clock; dt_0 is symbolic)',
             '"as soon as possible" is read per instant at which the entry runs: it may sleep only when the window is full '
             'and never past the first instant with room; which of several waiters gets a freed slot is not constrained',
             'event loop = asyncio.BaseEventLoop scheduler with a fixed clock and a null I/O selector (vt/sched.py DetLoop); '
             'counterexamples are replayed on the stock loop',
             'CrossHair 0.0.110 path exploration is exhaustive when it reports "Confirmed over all paths"')
    R.extra['trusted_base'] = ['CrossHair/z3', 'CPython asyncio', 'vt/sched.py', 'harness/C24_rate.py clock/timer stubs and oracle']
    H = importlib.import_module(HM)
    shards = [s for g in groups for s in g]
    sched.run_shards(shards, pct, workers=8)
    seen = {}
    for g in groups:
        sched.discharge(R, g, 'RateLimiter rate bound, as-soon-as-possible, liveness over all schedules', H.replay, describe, seen)


def replay(path):
    d = json.load(open(path))['replay']
    H = importlib.import_module(HM)
    ok, cls, why = H.replay(d['args'], d['meta'])
    print('property holds' if ok else f'property violated ({cls})', describe(d['args'], d['meta']), why)
    return 0 if ok else 1
