#!/bin/sh
# tools/seedrun.sh <seed dir> <scratch dir> <check id>... : apply a seeded change to a scratch copy of /repo and run checks on it
SEED=$1; SCR=$2; shift 2
rsync -a --delete --exclude .git /repo/ $SCR/ || exit 3
(cd $SCR && patch -p1 -s < $SEED/patch.diff) || { echo "PATCH-FAILED $SEED"; exit 3; }
(cd $SCR && /venv/bin/python -m pytest -q -p no:cacheprovider auth/test/test_auth_utils.py 2>&1 | tail -1)
for c in "$@"; do
  VERIF_REPO=$SCR /verif/check $c > /tmp/seedrun_$c.log 2>&1
  echo "exit($c)=$?"
  grep -E "VIOLATION|INCONCL|tier=" /tmp/seedrun_$c.log | cut -c1-260 | head -6
  echo "known-finding lines: $(grep -c KNOWN-FINDING /tmp/seedrun_$c.log)"
done
