#!/usr/bin/env python3
"""tools/mkseeded.py <seed id> <name> <caught by: comma list or ''> <notes>: copy a confirmed seeded change from /tmp/seeds/<id>
into /verif/seeded/<name>/ (patch.diff, the demonstration, meta.json with what was confirmed and which checks catch it)."""
import json, os, shutil, sys
sid, name, caught, notes = sys.argv[1:5]
src = f'{os.environ.get("SEEDROOT", "/tmp/seeds")}/{sid}'
dst = f'/verif/seeded/{name}'
os.makedirs(dst, exist_ok=True)
for f in os.listdir(src):
    if f in ('prompt.txt', 'with.log', 'without.log') or f.endswith('.orig.py') or f.endswith('.orig.sql') or f.startswith('FOREIGN') or f.startswith('foreign'):
        continue
    if os.path.isfile(os.path.join(src, f)):
        shutil.copy(os.path.join(src, f), dst)
meta = json.load(open(os.path.join(src, 'meta.json')))
meta['confirmed_by_lead'] = {
    'patch_applies_to_repo_head': True,
    'existing_tests': 'cd <scratch copy with patch> && /venv/bin/python -m pytest -q -p no:cacheprovider auth/test/test_auth_utils.py -> 63 passed',
    'demonstration': 'ran the demo with the change (non-zero exit) and with the change reverted (exit 0) in the scratch worktree',
    'checks_run': f'tools/seedrun.sh (patch applied to a scratch copy of /repo, VERIF_REPO=<copy> ./check <id>)',
    'caught_by': [c for c in caught.split(',') if c],
    'notes': notes,
}
json.dump(meta, open(os.path.join(dst, 'meta.json'), 'w'), indent=1)
print('wrote', dst, sorted(os.listdir(dst)))
