"""Source of truth for MANIFEST.json (run tools/mkmanifest.py after editing)."""
BASELINE = "cd /repo && /venv/bin/python -m pytest -ra -q -p no:cacheprovider --timeout=900 --continue-on-collection-errors"

ENGINES = [
    {"name": "chrun", "path": "vt/chrun.py", "serves_properties": ["C19"],
     "kind_free_text": "CrossHair (symbolic execution of the real Python with z3), one process per condition; only 'Confirmed over all paths' discharges"},
    {"name": "smt", "path": "vt/smt.py", "serves_properties": [],
     "kind_free_text": "SMT-LIB2 queries on z3 5.1 / z3 4.8.12 / cvc5 binaries with two-solver agreement"},
    {"name": "strlang", "path": "vt/strlang.py", "serves_properties": ["C28"],
     "kind_free_text": "Python re patterns / string-predicate ASTs -> z3 regular languages; inclusion decided by z3 for strings of any length"},
    {"name": "pathsym", "path": "vt/pathsym.py", "serves_properties": ["C28"],
     "kind_free_text": "path-condition extraction over guard-style Python functions, propositional implication by z3"},
]

# id -> dict(level, text, note, technique, design_ref, thorough(bool))
CHECKS = {
    "C28": dict(
        level="other",
        text="Language equivalence (both inclusions) between what the real validators accept and the specification "
             "languages, decided by z3's regex theory for strings of any length over all of Unicode; no bound. Call sites "
             "checked by path-condition implication. Right level: the property is a statement about all strings and the "
             "validators are regular.",
        note="Trusted: z3 sequence/regex solver; the AST/re-parser translation in vt/strlang.py (validated each run "
             "against the real functions on solver-chosen members of all four regions); lone surrogates excluded; "
             "code points above U+2FFFF handled by a checked class-signature reduction.",
        technique="z3 regular-language inclusion over the real validators' translated AST/regex (unbounded length)",
        design_ref="6/C28, 3.4"),
}

CHECKS["C19"] = dict(
    level="other",
    text="CrossHair symbolic execution (z3) of the real Batch._create_bunches with symbolic spec sizes, group/job split "
         "and limits; every path confirmed for N<=4 specs (quick) / N<=7 (thorough), sizes < max_bunch_bytesize <= 64. "
         "Bounded exhaustive-over-values claim, which is what a splitting loop with two interacting limits needs.",
    note="orjson.dumps replaced by an object of symbolic length (the method only uses len); method's own precondition "
         "n_bytes < max_bunch_bytesize assumed; longer lists and larger limits are outside the claim; trusted: CrossHair/z3.",
    technique="CrossHair symbolic execution of the real method, all paths confirmed within bounds",
    design_ref="6/C19")

NOT_APPLICABLE = {
    "C37": "Scala floating-point statistics calling Apache commons-math (gamma/beta, root finding); no scalac/JVM build of "
           "Hail in the sandbox, library source absent, transcendental FP is outside z3/cvc5's FP theory — nothing "
           "meaningful can be encoded for a solver.",
}
NOT_BUILT_REASON = "check not built yet in this round (design in DESIGN.md section 6); not claimed until it is"
