"""Source of truth for MANIFEST.json (run tools/mkmanifest.py after editing)."""
BASELINE = "cd /repo && /venv/bin/python -m pytest -ra -q -p no:cacheprovider --timeout=900 --continue-on-collection-errors"

ENGINES = [
    {"name": "irsem", "path": "vt/irsem.py", "serves_properties": ["C35", "C36"],
     "kind_free_text": "S-expression reader for Hail IR text + z3-valued big-step evaluator (ints as bit-vectors, bools, structs, guarded arrays/streams, agg/scan contexts) with scope and context checking"},
    {"name": "shapex", "path": "vt/shapex.py", "serves_properties": ["C35", "C36"],
     "kind_free_text": "path explorer for symbolic program builders: glue.choose-style forks on fresh z3 integers with z3 feasibility per fork, pinned prefixes for sharding, trace-replayed prefixes (determinism checked), streamed outcomes"},
    {"name": "sched", "path": "vt/sched.py", "serves_properties": ["C16", "C24", "C26", "C40"],
     "kind_free_text": "symbolic scheduler harness: CrossHair (z3) drives the real asyncio scheduler (BaseEventLoop, fixed clock, null I/O selector) through schedules of symbolic action numbers / drain bits / weights / clock increments; sharded into per-process conditions with reachability twins; counterexamples shrunk and replayed on the stock event loop"},
    {"name": "shapesym", "path": "vt/shapesym.py", "serves_properties": ["C17", "C18"],
     "kind_free_text": "region-directed native path explorer for symbolic program builders: z3 decides branch feasibility on proxy values (vt/glue SBool/SInt), alternatives are constraint regions (robust to nondeterministic branch order), per-path solver queries, solver-proved exhaustiveness"},
    {"name": "natsym", "path": "vt/natsym.py", "serves_properties": ["C22", "C23", "C30"],
     "kind_free_text": "native execution of the real (async) Python on z3-backed proxies, exhaustive path enumeration by re-execution, z3 queries over path conditions"},
    {"name": "sqlsym", "path": "vt/sqlsym/", "serves_properties": ["C01", "C02", "C03", "C04", "C05", "C06", "C07", "C08", "C09", "C10", "C14", "C39", "C41"],
     "kind_free_text": "MySQL-subset parser + symbolic/concrete interpreter over bounded key spaces (z3 terms, no path forking); routines read from the migrations in build.yaml order"},
    {"name": "glue", "path": "vt/glue.py", "serves_properties": ["C01", "C02", "C03", "C04", "C05", "C06", "C07", "C08", "C09", "C10", "C14", "C39", "C41"],
     "kind_free_text": "runs the real front-end/driver Python natively on the symbolic database with proxy values; DFS over branch decisions with z3 feasibility; merges paths by ite"},
    {"name": "chrun", "path": "vt/chrun.py", "serves_properties": ["C19"],
     "kind_free_text": "CrossHair (symbolic execution of the real Python with z3), one process per condition; only 'Confirmed over all paths' discharges"},
    {"name": "smt", "path": "vt/smt.py", "serves_properties": [],
     "kind_free_text": "SMT-LIB2 queries on z3 5.1 / z3 4.8.12 / cvc5 binaries with two-solver agreement"},
    {"name": "strlang", "path": "vt/strlang.py", "serves_properties": ["C28"],
     "kind_free_text": "Python re patterns / string-predicate ASTs -> z3 regular languages; inclusion decided by z3 for strings of any length"},
    {"name": "pathsym", "path": "vt/pathsym.py", "serves_properties": ["C28"],
     "kind_free_text": "path-condition extraction over guard-style Python functions, propositional implication by z3"},
]

# id -> dict(level, text, note, technique, design_ref, thorough(bool))
CHECKS = {
    "C28": dict(
        level="other",
        text="Language equivalence (both inclusions) between what the real validators accept and the specification "
             "languages, decided by z3's regex theory for strings of any length over all of Unicode; no bound. Call sites "
             "checked by path-condition implication. Right level: the property is a statement about all strings and the "
             "validators are regular.",
        note="Trusted: z3 sequence/regex solver; the AST/re-parser translation in vt/strlang.py (validated each run "
             "against the real functions on solver-chosen members of all four regions); lone surrogates excluded; "
             "code points above U+2FFFF handled by a checked class-signature reduction.",
        technique="z3 regular-language inclusion over the real validators' translated AST/regex (unbounded length)",
        design_ref="6/C28, 3.4"),
}

CHECKS["C19"] = dict(
    level="other",
    text="CrossHair symbolic execution (z3) of the real Batch._create_bunches with symbolic spec sizes, group/job split "
         "and limits; every path confirmed for N<=4 specs (quick) / N<=7 (thorough), sizes < max_bunch_bytesize <= 64. "
         "Bounded exhaustive-over-values claim, which is what a splitting loop with two interacting limits needs.",
    note="orjson.dumps replaced by an object of symbolic length (the method only uses len); method's own precondition "
         "n_bytes < max_bunch_bytesize assumed; longer lists and larger limits are outside the claim; trusted: CrossHair/z3.",
    technique="CrossHair symbolic execution of the real method, all paths confirmed within bounds",
    design_ref="6/C19")

SQL_NOTE = ("Trusted base: the vt/sqlsym MySQL-subset interpreter (semantics S1-S8 in DESIGN.md 3.1; no MySQL server in the "
            "sandbox), z3. Assumes each procedure call / @transaction body is atomic and serial (InnoDB locking, isolation, "
            "deadlocks out of scope), no integer overflow, one batch/user, bounded key spaces; front-end environment stubs "
            "(auth bypass, inst_coll selection, JSON, file store, clock, token randomness) return arbitrary values.")

CHECKS["C01"] = dict(
    level="model_checking",
    text="(a) jobs_after_update executed symbolically on an arbitrary OLD/NEW row: each of 13 counter deltas equals the "
         "recount indicator difference — loop-free LIA, all values. (b) Bounded model checking from the EMPTY database with "
         "the real front-end Python (run natively through a path-exploring glue layer) and the real stored procedures: "
         "symbolic batch shape (group tree, job->group, parents, always_run, cores, tokens), then every sequence of k=2 "
         "operation kinds with symbolic arguments plus named depth-4 scenarios; after each step token-sums of "
         "user_inst_coll_resources and job_group_inst_coll_cancellable_resources equal the recount. Counterexamples are "
         "replayed concretely on the real Python + concrete emulator. Bounded: J<=3 jobs, G<=3 groups, 2 updates, depth 2 (+4).",
    note=SQL_NOTE + " Scheduler/canceller enabledness comes from the candidate queries extracted from pool.py / canceller.py (vt/sqlsym/driverq.py); only the Python branch between the queries is read off the AST shape.",
    technique="z3 over a symbolic execution of the real SQL routines and front-end Python: trigger-step LIA proof + BMC from the empty database",
    design_ref="6/C01, 3.1")

CHECKS["C03"] = dict(
    level="other",
    text="Inductive step in z3 (LIA, unbounded integer values): from an arbitrary database state satisfying 'rollup<=end when "
         "both set', one call of each real routine that updates attempts (five stored procedures with the "
         "attempts_before_update trigger, and the real billing_update_1 heartbeat) with arbitrary arguments; the property's "
         "clauses on (OLD,NEW) and the invariant are asserted. Covers histories of any length/multiplicity; a source scan "
         "fails the check if a routine updating attempts is not driven.",
    note=SQL_NOTE + " Caller contract assumed: non-NULL end/timestamps for existing attempts, reasons are the callers' literals, "
         "only mark_job_complete may carry a NULL start; permissive reading of the 'unless' clause (see DESIGN 6/C03).",
    technique="z3 LIA inductive step over symbolically executed SQL triggers/procedures and the real heartbeat handler",
    design_ref="6/C03")

BMC_LEVEL = ("Bounded model checking decided by z3: from the EMPTY database the real front-end Python (run natively through "
             "the path-exploring glue layer) and the real stored procedures/triggers (parsed from the migrations) are executed "
             "on a batch whose shape (group tree, job->group, parents, always_run, cores, tokens, times) is symbolic; every "
             "sequence of 2 operation kinds with symbolic arguments plus named deeper scenarios (up to 5 operations) is one "
             "query; counterexamples are replayed concretely on the real Python + concrete emulator. Bounds: <=3-4 jobs, <=3 "
             "groups, 2 updates, <=2 instances, 2 attempts/job, 2 tokens. Histories beyond the depth are outside the claim. ")
for _pid, _what, _tech in [
    ("C04", "Asserted after every step: each job's (old,new) state is an allowed lifecycle edge, rows never vanish, and the "
            "completed/succeeded/failed/cancelled tallies of every group equal the terminal jobs in its subtree.", "lifecycle edges + tallies"),
    ("C05", "Asserted after every step: Ready/Creating/Running only with all parents terminal; n_pending_parents = non-terminal "
            "parents; cancelled mark iff a terminal parent did not succeed; cancelled non-always-run jobs never Creating/Running.",
     "dependency gating"),
    ("C06", "Asserted after every step: job_groups/batches state complete iff every committed job in the subtree is terminal, "
            "n_jobs equals that count, tallies equal the recount.", "completion state"),
    ("C07", "Asserted after every step: no non-always-run job of a previously cancelled subtree moves into Creating/Running; no "
            "job/group row appears under a cancelled group and bunches are all-or-nothing; repeated cancel changes no table; jobs "
            "outside the subtree keep their cancelled status; schedule/creating/started always answer with a result row.",
     "cancellation confinement"),
    ("C10", "Asserted after every step: live instance free cores = cores - cores of unended attempts on it; inactive => all free.",
     "free-core accounting"),
    ("C41", "Asserted after every step (update 2 late/never, and update 1 itself uncommitted): uncommitted jobs are not selectable "
            "by the scheduler queries, stay in their inserted state, are not counted in user counters, and n_jobs/completion/"
            "tallies are functions of committed jobs only. Two genuine defects are listed as known findings.", "inertness of uncommitted updates"),
]:
    CHECKS[_pid] = dict(level="model_checking", text=BMC_LEVEL + _what, note=SQL_NOTE + " Scheduler/canceller enabledness comes from "
                        "the candidate queries extracted from pool.py / canceller.py; instances are set up as rows.",
                        technique="z3 bounded model checking of the real SQL routines + front-end Python from the empty database (" + _tech + ")",
                        design_ref="6/" + _pid + ", 3.1")

for _pid, _what, _tech in [
    ("C02", "Asserted after every step, per resource: per-job, per-job-group (with descendants, over tokens), per billing "
            "project/user (over tokens) and per-day aggregates equal sum(quantity x billed duration) over the relevant "
            "attempts; the real compaction functions keep every per-key total. Operations include the real billing heartbeat, "
            "add_attempt_resources and both compaction functions. Quantities are constants (3, 5), times/tokens/dates symbolic.",
     "billing aggregates"),
    ("C08", "The real validate_and_clean_jobs + _create_jobs path is driven with bunches whose dependencies and job ids are "
            "symbolic choices including invalid ones; accepted bunches must only record dependencies on earlier jobs and ids in "
            "the reserved range, rejected bunches change nothing, committed jobs never wait on a missing parent.",
     "acceptance of job graphs"),
    ("C09", "Asserted in every history with re-sent requests (create_batch, create_update, job bunch, commit; another client's "
            "update interleaved; update 1 committed or not): a repeat changes no table; update id ranges contiguous/disjoint/"
            "ordered; job ids inside their range; no double counting. Plus an unbounded z3 equality of the client's and the "
            "server's id arithmetic lifted from both ASTs.", "idempotent submission"),
    ("C39", "REDUCED claim — bounded safety and deadlock-freedom of the DB-level protocol, fairness assumed: single current "
            "attempt; a running batch always has a Ready/Creating/Running job; every Ready job is in a running group with the "
            "scheduler's or canceller's gate open and selected by its candidate query; enabled actions make progress "
            "(schedule -> Running incl. always-run in cancelled groups, complete -> terminal, unschedule -> Ready). Not a "
            "liveness proof of the running service.", "deadlock-freedom / progress at DB level"),
]:
    CHECKS[_pid] = dict(level="model_checking", text=BMC_LEVEL + _what, note=SQL_NOTE + " Scheduler/canceller enabledness comes "
                        "from the candidate queries extracted from pool.py / canceller.py; instances are set up as rows.",
                        technique="z3 bounded model checking of the real SQL routines + front-end/driver Python from the empty database (" + _tech + ")",
                        design_ref="6/" + _pid + ", 10.1")
CHECKS["C14"] = dict(
    level="other",
    text="Every route registered in front_end.routes: the real decorator stack is executed natively (innermost handler "
         "replaced by a sentinel, auth._fetch_userdata stubbed with a symbolic outcome, billing-project membership rows "
         "symbolic, _user_can_access SQL run by sqlsym); for each feasible path reaching the sentinel z3 refutes 'path "
         "condition and not the route class's requirement' (classes from the property text). Owner filters: the real handlers "
         "that add jobs/groups/updates or commit are run completely as a non-owner member on a batch built by the real code; "
         "every path must end in 401/403/404 and change no table. Exhaustive over routes and caller kinds; bounded database.",
    note=SQL_NOTE + " Session lookup is a stub; bodies of read handlers and the auth service are outside the claim; the closed "
         "`close` endpoint is not driven (it fails with an SQL error for every caller).",
    technique="native execution of the real decorator stacks with z3-driven path exploration + z3 refutation per path; sqlsym for the SQL",
    design_ref="6/C14, 10.1")

CHECKS["C23"] = dict(level="other", text="Real read_range/read_from/open_from + real GCS/S3/Azure/local _open_from and stream classes executed natively on z3-backed integers (vt/natsym); per backend/operation one z3 query 'some feasible path returns other than data[start:start+len] / UnexpectedEOFError'. Size, offsets and (GCS; S3/Azure read-to-end) lengths unbounded; block loops (_readexactly, TruncatedReadableBinaryIO, AzureReadableStream chunks) with lengths <=5/10 and <=2 solver-chosen short reads; CrossHair cross-check of the local backend (sizes <=3/5). Function-level, no transition system: 'other'.", note="Fake transports below the repo code: RFC 7233 origin server (GCS session.get, boto get_object), azure download_blob(offset,length) with 416 past EOF (taken from aioazure/fs.py's own comment/handler; SDK not installed), builtin open(); object exists and is a file; start>=0, length>=0; at/after EOF either b'' or UnexpectedEOFError accepted; blocking_to_async inline; seek outside. Two Azure known findings.", technique="native symbolic execution with z3 path exploration + CrossHair", design_ref="6/C23")
CHECKS["C30"] = dict(level="model_checking", text="Real ci.github PR/WatchedBranch under vt/natsym. Step: try_to_merge on fully symbolic PR fields => accepted merge implies approved, no WIP/stacked label, >=1 status and all SUCCESS, batch target sha == branch sha; <=1 merge per call; no merge before refresh. History (BMC): real _update/_update_github/_update_batch/_heal/_start_build/merge against fake GitHub+batch, k events (1 PR k<=3/4, 2 PRs k<=2/3), ground-truth snapshot at every accepted merge must be approved, unlabelled, all-success on the merged head, tested on the current target, <=1 merge per update/target commit. Bounded transition-system exploration: model_checking.", note="Fakes for GitHub REST/GraphQL, batch client, DB (all authors authorised); reliable ordered webhooks; GitHub rejects merge with stale head sha and moves target on merge; _start_build shell/build.yaml stubbed; AssertionError from is_mergeable aborts that update as in the service; 2-PR step with reduced domains.", technique="native symbolic execution + bounded event-history exploration, z3 over path conditions", design_ref="6/C30")
CHECKS["C22"] = dict(level="other", text="PARTIAL. (a) integer expressions of _copy_file_multi_part_main/_copy_part/LocalMultiPartCreate lifted from the AST each run; z3 (NIA, one div/mod, unbounded; cvc5 cross-check) proves parts [i*P,i*P+size_i) tile [0,size) exactly, per-part ranged reads are contiguous and cover the part, local part writer seeks to the source offset. (b) real Transfer/Copier/SourceCopier decision code under vt/natsym against a symbolic FS oracle (src file/dir/both/none, dest file/dir/none, dest/basename type, slashes, treat_dest_as, list source, answer delays): outcome equals the documented rule (destination path or exactly the documented error) in all 24 configuration groups. Function-level: 'other'.", note="No end-to-end byte identity through real file I/O; stream semantics (write appends from the seek offset; open_from+readexactly = C23) assumed; oracle FS models dest and dest/basename only, fixed 2-file source tree, one transfer; documented rule validated against all 324 entries of copy_test_specs.py each run; interleavings varied only through FS answer delays.", technique="AST-to-z3 lifting (NIA) + native symbolic execution with z3 path exploration", design_ref="6/C22")

CHECKS["C17"] = dict(level="other", text="Real hailtop.batch DSL + LocalBackend executed natively on all pipelines of N jobs whose dependency shape (explicit/resource/both edges in either direction, self-dependencies, mention flavour, always_run call order) is chosen by solver integers and whose always_run flags and command exit statuses are z3 booleans; per explored path one z3 query decides path-condition and not(cycle => BatchException before any subprocess call, ids 1..N topological, execution in order, exact skip set, raises iff a job failed), one query per shard proves the path conditions cover the bounded space. quick: N=3 all shapes + N=4 all DAGs (explicit); thorough adds N=4 cyclic <=4 edges, N=4 all DAGs (resource), N=3 always_run-before-command, N=3 both-kind edges. 'other' because it is bounded function-level exploration, not a transition-system model.", note="subprocess in hailtop.batch.backend replaced by a recording fake (exit status = symbolic bit); bash jobs only; programs the DSL refuses while being built are counted, not violations; trusted: z3, vt/shapesym.py + vt/glue.py proxies, harness/C17_pipeline.py oracle.", technique="native symbolic path exploration (z3 branch feasibility + per-path z3 obligation + exhaustiveness query)", design_ref="6/C17")
CHECKS["C18"] = dict(level="other", text="Real hailtop.batch DSL + ServiceBackend._async_run + aioclient.Batch (only HTTP fake) on all pipelines of N bash jobs chosen by solver integers (output kind, reads of input files/groups/earlier outputs whole or by member, fan-in, external outputs, 12 global variants incl. reverse creation order, names needing quoting, literal noise, local inputs); an independent oracle abstractly executes the submitted specs (shell word parsing, remote store, per-job local FS) and checks upload=download, consumer child of producer, byte-identical command text with references replaced by ${BATCH_TMPDIR}+shlex.quote(path), path injectivity; exhaustiveness of the explored path conditions proved by z3 per shard. quick N=3 (+small N=4), thorough N=3 full kinds/fan-in and N=4. 3 known finding classes (predicates over the shape variables), everything else would be a VIOLATION.", note="stubs: orjson(json), rich progress/track, validate_file, copy_from_dict(recorded); uid counters reset per pipeline; random tokens as drawn; bash jobs and gs:// or local inputs only; programs refused by the front end before submission are logged, not violations; trusted: z3, vt/shapesym.py, harness/C18_shell.py, harness/C18_service.py.", technique="native symbolic shape exploration (z3-driven) + abstract execution oracle", design_ref="6/C18")

CHECKS["C16"] = dict(level="other",
 text="CrossHair symbolic execution of the real FIFOWeightedSemaphore under a director on the real asyncio scheduler; weights 1..4 (capacity 4), step actions and drain bits symbolic; every path confirmed for 3 jobs k=4 (quick), 3 jobs k=5 with drain bits, 3 jobs k=6 and 4 jobs k=7 fully drained (thorough). Asserts no over-grant, capacity accounting, FIFO at quiescence, head-of-queue liveness. Bounded exhaustive-over-schedules claim; 'any number of jobs' only up to 4.",
 note="No cancellation (not in C16); jobs use `async with sem(w)`; FIFO compared at quiescent points (order inside one callback burst not compared); event loop = BaseEventLoop with fixed clock/null selector; trusted: CrossHair/z3, CPython asyncio, harness oracle.",
 technique="CrossHair on the real class in a symbolic asyncio scheduler harness, all paths confirmed per shard", design_ref="6/C16, 3.2")
CHECKS["C40"] = dict(level="other",
 text="Same harness on the real WeightedSemaphore/_AcquireManager with cancel and error-exit actions and a 3-valued drain (none / one loop iteration / quiescent); asserts weights inside <= max and, after every task has exited, value == max and a fresh acquire(max) is granted. Shapes: 2 tasks cap 2 k=4 (quick); plus 2 tasks k=5 and 3 tasks cap 3 k=4 (thorough). Schedules partitioned by what cancel() hits so each leak mechanism is a separate obligation; counterexamples replayed on the stock asyncio loop.",
 note="Found two capacity-leak classes on the original tree (cancelled-queued-waiter-later-granted, granted-then-cancelled-before-resume), repaired by a fix: commit; the obligations now discharge. Partition predicate reads Task._fut_waiter (never the oracle). Trusted: CrossHair/z3, CPython asyncio, harness oracle.",
 technique="CrossHair symbolic schedules (with cancellation) on the real class; replay on plain asyncio", design_ref="6/C40, 3.2")
CHECKS["C24"] = dict(level="other",
 text="CrossHair on the real RateLimiter.__aenter__ with up to k concurrent entries under a director-controlled integer clock; count, window (1..8), every clock advance (0..10), arrivals and arrival/wake order symbolic. Asserts t[i+count]-t[i] >= window for all admissions, sleeps only when the window is full and never past the first instant with room, and eventual admission. k=5, count<=2 (quick); k=6,7, count<=3 (thorough); every path confirmed.",
 note="time.time/asyncio.sleep stubbed in the module namespace by a virtual clock and timer list (wake exactly at or after the deadline); integer clock - float rounding of real clocks outside the claim; 'as soon as possible' read per instant the entry runs. Trusted: CrossHair/z3, the stubs.",
 technique="CrossHair symbolic arrival/clock schedules on the real class with a virtual clock", design_ref="6/C24, 3.2")
CHECKS["C26"] = dict(level="other",
 text="CrossHair on the real TimeLimitedMaxSizeCache.lookup with 2-3 concurrent lookup tasks, a director-controlled load (value or LoadError), clock and cancellations; num_slots 1..2, lifetime 1..4, 2 keys, actions/keys/dt/drain bits symbolic; k=4 (quick, 2 tasks), 3 tasks k=4 and 2 tasks k=5 (thorough). Asserts size <= num_slots, returned values younger than lifetime, one in-flight load per key, a lookup raises only its key's LoadError or its own cancellation, and liveness. Counterexamples replayed on the stock loop.",
 note="Two known-finding classes on the current tree (cancelled-waiter-cancels-shared-load, cancelled-loader-caller-fails-other-waiters); passes on a candidate fix (shielded shared load task). prometheus metrics inert; prometheus_async.aio.time(metric, fut) modelled as a coroutine awaiting fut (package absent); clock advances only at quiescent points; shutdown() not exercised.",
 technique="CrossHair symbolic lookup/load/cancel/clock schedules on the real class; replay on plain asyncio", design_ref="6/C26, 3.2")

CHECKS["C35"] = dict(level="other", text="Bounded-exhaustive over expression DAG shapes (<=3 non-leaf nodes for the full kind sets, <=4/5/6 for the reduced families listed in evidence bounds; arrays <=2 elements; both direct hail.ir construction and construction through hl.* calls), and for ALL leaf values per shape: the text of the real CSERenderer denotes the same value as the text of the real PlainRenderer, every lifted Let/AggLet is in scope and in the right eval/agg/scan context, the text is well formed and the renderer does not raise; in the stream-free strict family error behaviour (ArrayRef) agrees too. One z3 validity query per batch of <=300 shapes over shape integers and leaf variables. 'other' because it is a bounded function-level equivalence check, not a transition system.", note="Trusted: vt/irsem.py (reader + z3 big-step evaluator: total semantics, no missing values, strict Let, Sum/AggFilter/AggLet/StreamAgg/StreamAggScan only; node layouts cross-checked against Parser.scala cases each run), vt/shapex.py explorer, builder well-formedness (types/scopes), z3. Token-identical texts contribute false. Aggregator registry entry Sum(int64) re-registered with real type objects (parsimonious absent). Known finding: cse-print-pass-binding-site-id-depth-collision. Shapes outside the bounds, NA semantics, and other agg ops are not covered.", technique="native solver-forked shape exploration + z3 equivalence of both rendered IR texts", design_ref="6/C35")
CHECKS["C36"] = dict(level="other", text="(A) For Python literals built from ints (all of Z), bools, nested lists (depth<=3, len<=3), tuples and str-keyed dicts: every path of the real impute_type/typecheck/hl.literal (AST interpreted to z3 path conditions) returns exactly the type an independent oracle demands for the int32/int64/out-of-range region of each leaf, the value passes typecheck against that type, values outside int64 are rejected, and hl.literal(int) builds I32/I64 with the reported dtype; decided by z3 validity per path, each path validated on the real functions. (B) For every program of <=4 chained API calls over the listed expression/Table/MatrixTable operations (bounded exhaustive, shapes as z3 integers), after every accepted call the front end's reported types equal the IR's cached type, a deep recomputation by the real _compute_type, and a type inferred from the IR text by engine-side rules read from the Scala operator tables. 'other': bounded function/program-level check.", note="Trusted: vt/pyk.py + harness/C36_lit.Interp (set/dict/nested comprehensions, try/except, typecheck-decorated functions entered at __wrapped__, ir.I32/I64/construct_expr as recording intrinsics), the oracle in harness/C36_lit.want, harness/C36_types.py rule table (nodes outside it are 'not inferred'), vt/shapex.py, harness/C31_peg.py stand-in for parsimonious, stub Env._hc (logger only), aggregator registry refilled via real register_aggregators(). Part B uses representative leaf values; floats/str/sets/loci as symbolic literal leaves, backend calls, aggregators and methods/ are out. Field order of a struct unified from list elements is hash-seed dependent in the front end and is not part of the claim.", technique="pyk AST->z3 path conditions + validity per path (literals); solver-forked bounded program exploration with three type oracles", design_ref="6/C36")

CHECKS["C20"] = dict(level="other", text="CrossHair (z3) symbolic execution of the real bounded_gather2_return_exceptions / bounded_gather2_raise_exceptions (cancel_on_error on/off) / WithoutSemaphore / OnlineBoundedGather2 / bounded_gather on the real asyncio scheduler with 3 (thorough also 4) workers awaiting director-owned futures: resolve order, per-future value-or-exception, drain depth between resolutions and result values are symbolic; parallelism 1-2; caller holding a permit or top-level via bounded_gather. Proves per configuration: <=P workers at once during the call and afterwards, results in submission order, exceptions in place / first raised propagated, no pending task and no uncancelled work after return where promised, call returns, permits restored - except aspects reported as (known) findings. Bounded function-level exploration of finite schedules, not a transition-system model, hence 'other'.", note="asyncio.BaseEventLoop with null selector, constant clock and a task factory that keeps tasks alive; `asyncio` in hailtop.utils.utils is a proxy that records create_task/Semaphore; each future resolved exactly once; outer cancellation, >4 workers, PoolShutdownError path and direct bounded_gather2 calls from non-permit-holders (router_fs._async_ls) not covered; a second defect inside an already-excused aspect of the same configuration would be masked; known findings: permit inflation after failed gather (3 classes), OnlineBoundedGather2 exit before cancelled tasks finish.", technique="CrossHair symbolic scheduler harness on real asyncio + real code, aspect-wise classification with concrete replay", design_ref="6/C20")
CHECKS["C21"] = dict(level="other", text="CrossHair (z3) runs the real retry_transient_errors_with_debug_string with the real is_transient_error/is_limited_retries_error/is_rate_limit_error on failure sequences whose exception kind (catalogue derived from the classifiers' isinstance branches, 24 kinds), HTTP status/errno (-2..100000), message choice and cause-chain depth are symbolic: position sweeps up to failure 8 (quick) / 12 (thorough) and all sequences of <=4 / <=6 failures over one representative per reachable classification; proves retried iff rate-limit or transient or (limited-retry and tries<=5), else that exception raised at once, one in-bounds sleep per retry equal to delay_ms_for_try(tries)/1000. delay_ms_for_try is translated AST->z3 integers and its bounds proved for all tries>=0 and all random draws (defaults and symbolic base/max; cvc5 cross-check in thorough). Function-level bounded symbolic execution plus an unbounded arithmetic lemma: 'other'.", note="loop driven by hand (asyncio.sleep, random.randrange, time_msecs, log stubbed in utils' namespace; delay_ms_for_try wrapped by a recorder); aiodocker/urllib3/requests/botocore exception classes are real-shaped stand-ins; OSError-family kinds use Python properties for errno/strerror; 'transient' etc. mean what the real classifiers return; jitter in loop runs is min/mid/max (the loop's /1000.0 realises symbolic ints) - all draws covered by the z3 lemma; exception classes outside the catalogue not covered; ClientPayloadError is assumed to carry a message (aiohttp always passes one).", technique="CrossHair on the real retry loop + AST->z3 proof of the delay kernel with per-run translator validation", design_ref="6/C21")
CHECKS["C27"] = dict(level="other", text="CrossHair (z3) runs the real gear.database retry_transient_mysql_errors / transaction / Database.start / Transaction (and the Database one-statement methods, execute_many, check_call_procedure) on the real asyncio scheduler against a fake pool with a committed/pending store and a fault plan whose operation index, error class (Operational/Internal/Integrity/Programming/ValueError) and integer code (-1..100000) are symbolic for each of <=2 (thorough <=3) attempts, 1-3 statements: proves retry iff (Operational and code in {1040,1213,2003,2013}) or (Internal and 1205), any other error raised at once as the same object, committed store untouched by failed/retried attempts and holding the writes exactly once after success, one back-off per retry, no connection leak. Bounded function-level symbolic execution: 'other'.", note="pymysql.err is a real-shaped stub hierarchy installed before gear.database is imported; aiomysql never reached (fake pool); faults fire before the operation takes effect, one per attempt; ROLLBACK/release never fail (a rollback failure on a dead connection would replace the original error - not explored); sleep_before_try, log, traceback.format_stack, prometheus metrics stubbed in gear.database's namespace; cancellation in flight, fetchall generators, Database.async_init not covered.", technique="CrossHair symbolic fault-plan harness on the real transaction code with a two-level fake store", design_ref="6/C27")

NOT_APPLICABLE = {
    "C37": "Scala floating-point statistics calling Apache commons-math (gamma/beta, root finding); no scalac/JVM build of "
           "Hail in the sandbox, library source absent, transcendental FP is outside z3/cvc5's FP theory — nothing "
           "meaningful can be encoded for a solver.",
}
NOT_BUILT_REASON = "check not built yet in this round (design in DESIGN.md section 6); not claimed until it is"
