#!/usr/bin/env python3
import json, os, sys
sys.path.insert(0, os.path.dirname(__file__))
import importlib, manifest_src as m
V = os.path.dirname(os.path.dirname(os.path.abspath(__file__)))
ids = [json.loads(l)['id'] for l in open(os.path.join(V, 'properties.jsonl'))]
checks = []
for pid in ids:
    if pid in m.CHECKS:
        c = m.CHECKS[pid]
        e = {"property_id": pid, "quick_cmd": f"./check {pid} --tier quick",
             "evidence_file": f"evidence/{pid}.json", "replay_cmd_template": f"./check {pid} --replay {{path}}",
             "engine": c.get('engine', ''), "level_claimed": {"category": c['level'], "text": c['text'], "design_ref": c.get('design_ref', '')},
             "level_note": c['note'], "technique": c['technique']}
        if c.get('thorough', True):
            e["thorough_cmd"] = f"./check {pid} --tier thorough"
        checks.append(e)
na = []
for pid in ids:
    if pid in m.CHECKS:
        continue
    na.append({"property_id": pid, "reason": m.NOT_APPLICABLE.get(pid, m.NOT_BUILT_REASON)})
man = {"version": 1, "setup_cmd": "./setup.sh",
       "hooks": {"guard": "HAIL_VERIF", "enable": "none needed: all stubbing is done from outside by vt/loader.py; no hook commits in /repo",
                 "baseline_off_cmd": m.BASELINE, "source_commits": [], "add_only": True},
       "engines": m.ENGINES, "checks": checks, "not_applicable": na,
       "notes": "Solver-based checking of the real code (z3/cvc5/CrossHair). Exit 0 held / known findings only; 1 VIOLATION (replayed); 2 INCONCLUSIVE harness error. See DESIGN.md."}
json.dump(man, open(os.path.join(V, 'MANIFEST.json'), 'w'), indent=1)
try:
    import jsonschema
    jsonschema.validate(man, json.load(open('/root/.vp/MANIFEST.schema.json')))
    print('MANIFEST valid;', len(checks), 'checks;', len(na), 'not claimed')
except ImportError:
    print('written (jsonschema not importable here)')
