#!/usr/bin/env python3
"""Regenerate DESIGN.md section 10.9 (per-property as-built summary) from tools/manifest_src.py."""
import os, re, sys, json
sys.path.insert(0, os.path.dirname(__file__))
import manifest_src as M
BEGIN = '<!-- BEGIN GENERATED 10.9 -->'
END = '<!-- END GENERATED 10.9 -->'
out = [BEGIN, '### 10.9 Every claimed check as built (generated from `tools/manifest_src.py`; the same text is in MANIFEST.json)', '']
for pid in sorted(M.CHECKS):
    c = M.CHECKS[pid]
    out.append(f'**{pid}** — *{c["technique"]}* (level `{c["level"]}`).')
    out.append(f'Decided: {c["text"]}')
    if c.get('note'):
        out.append(f'Trusted / outside the claim: {c["note"]}')
    out.append('')
out.append('Not claimed:')
for pid, why in sorted(M.NOT_APPLICABLE.items()):
    out.append(f'* **{pid}** — {why}')
out.append(END)
p = os.path.join(os.path.dirname(__file__), '..', 'DESIGN.md')
s = open(p).read()
blk = '\n'.join(out)
if BEGIN in s:
    s = s[:s.index(BEGIN)] + blk + s[s.index(END) + len(END):]
else:
    s = s.rstrip('\n') + '\n\n' + blk + '\n'
open(p, 'w').write(s)
print('10.9 regenerated:', len(M.CHECKS), 'checks')
