#!/usr/bin/env python3
"""tools/mkseedprompt.py <root> <suffix> <id>... : create scratch worktrees /tmp/wt/<id><suffix> and prompt files <root>/<id>/prompt.txt
for independent seed agents (they get the property record only)."""
import json, os, subprocess, sys
root, suffix, ids = sys.argv[1], sys.argv[2], sys.argv[3:]
props = {json.loads(l)['id']: json.loads(l) for l in open('/verif/properties.jsonl')}
for pid in ids:
    wt = f'/tmp/wt/{pid}{suffix}'
    os.makedirs(f'{root}/{pid}', exist_ok=True)
    if not os.path.exists(wt):
        subprocess.run(['git', '-C', '/repo', 'worktree', 'add', '-q', '--detach', wt, 'HEAD'], check=True)
    p = props[pid]
    prop = json.dumps({k: p[k] for k in ('id', 'title', 'statement', 'quantifier', 'anchors')}, indent=1)
    t = f'''You are given ONE semantic property of a repository. The repository (populationgenomics/hail monorepo: Python batch job-scheduler service with MySQL stored procedures under batch/, auth/, ci/, gear/, and the Hail query front end and client libraries under hail/python) is checked out for you as a scratch git worktree at {wt} — work ONLY there (never touch /repo or /verif, and do not read anything under /verif or /tmp/seeds*).

THE PROPERTY (id {pid}):
{prop}

YOUR TASK: produce ONE realistic change to the repository's source (not its tests) that BREAKS this property while the code still compiles/imports and the existing test-suite still passes, and that needs something SPECIFIC to manifest — a particular interleaving or schedule, a fault or cancellation at a particular point, a multi-step sequence of operations, an unusual input (a boundary value, a rare character, an empty or maximal size), a particular combination of options, or two cooperating sites that each look fine alone — not something ordinary use would expose at once. The change must alter what the code computes (do not submit a change that only removes locking). Keep it small (1–15 changed lines) and plausible as a refactoring, optimisation or slip a maintainer could make; the normal path must still work.

Sandbox facts: no network; no MySQL server, no scalac/JVM build of Hail; python is /venv/bin/python (3.12) but many third-party packages are missing there (aiohttp is present; orjson, numpy-dependent hail imports etc. may fail), so import the changed module directly by file path or stub what is missing. The only offline test-suite is: cd {wt} && /venv/bin/python -m pytest -q -p no:cacheprovider auth/test/test_auth_utils.py (63 tests) — run it with your change applied and report the result. Do NOT use `git stash` (shared between worktrees); to run something without your change use `git apply -R` on your own patch and re-apply it afterwards.

DELIVERABLES, written to {root}/{pid}/ :
1. patch.diff — `git -C {wt} diff` of your change (must apply with `git apply` to the worktree's HEAD).
2. A demonstration that fails WITH the change and passes WITHOUT it: an executable test or small program (demo_test.py / demo.py, runnable with /venv/bin/python from any directory, exit code non-zero with the change and 0 without; it must locate the repository through the environment variable SEED_REPO, default {wt}); if the affected code truly cannot be executed in this sandbox, a faithful small model driven by the text of the changed code, plus demo.md with the exact inputs / schedule / history and the correct vs wrong observable.
3. meta.json — {{"property": "{pid}", "summary": "...", "files_changed": [...], "needs_to_manifest": "<the specific schedule / sequence / input / option combination>", "why_tests_pass": "...", "what_you_ran": ["commands and their results"]}}.
Leave the worktree with your change applied. Your final message: a 10-line summary (what you changed, what it needs to manifest, what you ran).'''
    open(f'{root}/{pid}/prompt.txt', 'w').write(t)
    print('prepared', pid, wt)
