import z3, time, sys
J=int(sys.argv[1]); K=int(sys.argv[2]); T=2
# states: 0 Pending 1 Ready 2 Creating 3 Running 4 Success 5 Failed 6 Cancelled
def B(b): return z3.If(b,1,0)
s = z3.Solver()
st=[z3.Int(f'st0_{j}') for j in range(J)]; can=[z3.Bool(f'can0_{j}') for j in range(J)]
ar=[z3.Bool(f'ar_{j}') for j in range(J)]; cores=[z3.Int(f'c_{j}') for j in range(J)]
grp_can = z3.BoolVal(False)
for j in range(J):
    s.add(z3.Or(st[j]==0, st[j]==1), z3.Not(can[j]), cores[j]>0)
# counters sharded by token
def recount(st,can,gc):
    nr=sum(B(z3.And(st[j]==1, z3.Or(ar[j], z3.Not(z3.Or(can[j],gc))))) for j in range(J))
    rc=sum(z3.If(z3.And(st[j]==1, z3.Or(ar[j], z3.Not(z3.Or(can[j],gc)))), cores[j], 0) for j in range(J))
    nrun=sum(B(z3.And(st[j]==3, z3.Or(ar[j], z3.Not(z3.Or(can[j],gc))))) for j in range(J))
    ncr=sum(B(z3.And(st[j]==1, z3.Not(ar[j]), z3.Or(can[j],gc))) for j in range(J))
    return nr,rc,nrun,ncr
cnt=[[z3.Int(f'cnt0_{t}_{i}') for i in range(4)] for t in range(T)]
r0=recount(st,can,grp_can)
for i in range(4):
    s.add(sum(cnt[t][i] for t in range(T))==r0[i])
viol=[]
for k in range(K):
    op=z3.Int(f'op_{k}'); tgt=z3.Int(f'j_{k}'); tok=z3.Int(f'tok_{k}'); ns=z3.Int(f'ns_{k}')
    s.add(op>=0, op<5, tgt>=0, tgt<J, tok>=0, tok<T, ns>=4, ns<=6)
    nst=[]; ncan=[]
    ngc = z3.If(op==4, True, grp_can)
    delta=[z3.IntVal(0)]*4
    for j in range(J):
        sel = tgt==j
        eff_can = z3.And(z3.Not(ar[j]), z3.Or(can[j], grp_can))
        # op0 schedule: Ready & not cancelled -> Running ; op1 complete: Ready/Creating/Running -> ns ; op2 unschedule: Running->Ready ; op3 parent-fail mark cancelled (and Pending->Ready)
        new_s = z3.If(z3.And(sel, op==0, st[j]==1, z3.Not(eff_can)), 3,
                z3.If(z3.And(sel, op==1, st[j]>=1, st[j]<=3), ns,
                z3.If(z3.And(sel, op==2, st[j]==3), 1,
                z3.If(z3.And(sel, op==3, st[j]==0), 1, st[j]))))
        new_c = z3.If(z3.And(sel, op==3), True, can[j])
        # trigger deltas computed with cur group cancelled (old value, as in trigger reading OLD group state)
        def ind(s_, c_):
            mc = z3.Or(c_, grp_can); cancelled = z3.And(z3.Not(ar[j]), mc)
            return (B(z3.And(s_==1, z3.Not(cancelled))), z3.If(z3.And(s_==1, z3.Not(cancelled)), cores[j], 0), B(z3.And(s_==3, z3.Not(cancelled))), B(z3.And(s_==1, cancelled)))
        a=ind(st[j],can[j]); b=ind(new_s,new_c)
        delta=[delta[i]+(b[i]-a[i]) for i in range(4)]
        nst.append(new_s); ncan.append(new_c)
    # op4 cancel group: move cancellable totals (only if not already cancelled)
    cancellable=[sum(B(z3.And(st[j]==1, z3.Not(ar[j]), z3.Not(can[j]))) for j in range(J)),
                 sum(z3.If(z3.And(st[j]==1, z3.Not(ar[j]), z3.Not(can[j])), cores[j], 0) for j in range(J)),
                 sum(B(z3.And(st[j]==3, z3.Not(ar[j]), z3.Not(can[j]))) for j in range(J))]
    do_cancel = z3.And(op==4, z3.Not(grp_can))
    ncnt=[]
    for t in range(T):
        row=[]
        for i in range(4):
            d = z3.If(tok==t, delta[i], 0)
            if t==0:
                cd = [ -cancellable[0], -cancellable[1], -cancellable[2], cancellable[0] ][i]
                d = d + z3.If(do_cancel, cd, 0)
            v=z3.Int(f'cnt{k+1}_{t}_{i}'); s.add(v==cnt[t][i]+d); row.append(v)
        ncnt.append(row)
    st2=[z3.Int(f'st{k+1}_{j}') for j in range(J)]; can2=[z3.Bool(f'can{k+1}_{j}') for j in range(J)]
    for j in range(J): s.add(st2[j]==nst[j], can2[j]==ncan[j])
    gc2=z3.Bool(f'gc{k+1}'); s.add(gc2==ngc)
    st,can,grp_can,cnt=st2,can2,gc2,ncnt
    r=recount(st,can,grp_can)
    viol.append(z3.Or(*[sum(cnt[t][i] for t in range(T))!=r[i] for i in range(4)]))
s.add(z3.Or(*viol))
t=time.time(); res=s.check(); print(J,K,res,round(time.time()-t,2))
if res==z3.sat:
    m=s.model(); print([ (m[z3.Int(f'op_{k}')], m[z3.Int(f'j_{k}')]) for k in range(K)])
