import sys, types, importlib.abc, importlib.machinery, importlib.util

class _Stub(types.ModuleType):
    __path__ = []
    def __getattr__(self, name):
        if name.startswith('__') and name.endswith('__'):
            raise AttributeError(name)
        full = self.__name__ + '.' + name
        # class-like stub usable as base class, decorator, callable
        obj = _mkclass(full)
        setattr(self, name, obj)
        return obj

class _Meta(type):
    def __getattr__(cls, name):
        if name.startswith('__') and name.endswith('__'):
            raise AttributeError(name)
        obj = _mkclass(cls.__qualname__ + '.' + name)
        setattr(cls, name, obj)
        return obj
    def __getitem__(cls, item):
        return cls
    def __or__(cls, o): return cls
    def __ror__(cls, o): return cls

def _mkclass(qual):
    def __init__(self, *a, **k): pass
    def __call__(self, *a, **k):
        if len(a) == 1 and callable(a[0]) and not k:
            return a[0]
        return _mkclass(qual + '()')()
    def __getattr__(self, name):
        if name.startswith('__') and name.endswith('__'):
            raise AttributeError(name)
        return _mkclass(qual + '.' + name)()
    return _Meta(qual.split('.')[-1] or 'X', (), {'__init__': __init__, '__call__': __call__, '__getattr__': __getattr__, '__qualname__': qual, '__iter__': lambda self: iter(()), '__enter__': lambda s: s, '__exit__': lambda s,*a: False})

class Finder(importlib.abc.MetaPathFinder, importlib.abc.Loader):
    def __init__(self, roots): self.roots = roots; self.made = []
    def find_spec(self, name, path, target=None):
        if name.split('.')[0] in self.roots:
            return importlib.machinery.ModuleSpec(name, self, is_package=True)
        return None
    def create_module(self, spec):
        m = _Stub(spec.name); self.made.append(spec.name); return m
    def exec_module(self, module): pass

def install(roots):
    f = Finder(roots); sys.meta_path.append(f); return f
