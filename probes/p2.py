import sys, importlib, os, types
sys.path[:0] = ['/repo/hail/python']
import autostub
# decorator shim
d = types.ModuleType('decorator')
import functools
def decorator(caller):
    def deco(f):
        @functools.wraps(f)
        def w(*a, **k): return caller(f, *a, **k)
        return w
    return deco
d.decorator = decorator; sys.modules['decorator'] = d
for n in ('hailtop.version','hail.version'):
    v = types.ModuleType(n); v.__pip_version__='0.0.0'; v.__version__='0.0.0-dead'; v.__revision__='dead'; sys.modules[n]=v
missing = {'avro','azure','bokeh','boto3','botocore','cryptography','dateutil','deprecated','google','google_auth_oauthlib','humanize','janus','jproperties','jwt','msal','nest_asyncio','numpy','orjson','pandas','parsimonious','plotly','py4j','pyspark','requests','rich','scipy','urllib3','aiohttp_session','tabulate','typer','uvloop','regex','IPython','ipykernel'}
autostub.install(missing)
import hail as hl
print('hail imported')
x = hl.int32(3) + 5
print(x, x.dtype, x._ir, x._ir.typ)
s = hl.struct(a=x, b=hl.array([1,2,3]).map(lambda y: y + x))
print(s.dtype, s._ir.typ)
from hail.ir.renderer import CSERenderer
print(CSERenderer()(s._ir))
