import sys, types, os
for k,v in dict(HAIL_SHA='dead',HAIL_DEFAULT_NAMESPACE='default',HAIL_SCOPE='test',CLOUD='gcp',HAIL_DOCKER_ROOT_IMAGE='x',HAIL_DOCKER_PREFIX='x',KUBERNETES_SERVER_URL='x',INTERNAL_GATEWAY_IP='1.1.1.1',HAIL_BATCH_STORAGE_URI='gs://x',HAIL_QUERY_STORAGE_URI='gs://q',HAIL_DOMAIN='h.is',HAIL_QUERY_ACCEPTABLE_JAR_SUBFOLDER='/jars').items(): os.environ.setdefault(k,v)
sys.path[:0] = ['/repo/batch','/repo/gear','/repo/web_common','/repo/hail/python', '/tmp/probe/ch']
import autostub
for n in ('hailtop.version',):
    v = types.ModuleType(n); v.__pip_version__='0.0.0'; v.__version__='0.0.0-dead'; v.__revision__='dead'; sys.modules[n]=v
autostub.install({'aiohttp_jinja2','aiohttp_session','aiomysql','azure','botocore','boto3','cryptography','dateutil','dictdiffer','google','google_auth_oauthlib','googlecloudprofiler','humanize','janus','jinja2','jproperties','jwt','kubernetes_asyncio','msal','nest_asyncio','orjson','pandas','plotly','prometheus_async','prometheus_client','pymysql','pythonjsonlogger','requests','rich','sass','urllib3','uvloop','aiodocker','tabulate','typer','numpy'})
import gear.cloud_config as cc
cc.read_config_secret = lambda p: {'cloud':'gcp','domain':'h.is','default_namespace':'default','gcp_project':'p','gcp_region':'r','gcp_zone':'z','docker_prefix':'x','docker_root_image':'x','batch_gcp_regions':'["r"]','batch_logs_bucket':'b','hail_query_gcs_path':'gs://q','hail_test_gcs_bucket':'t','kubernetes_server_url':'x','internal_ip':'1.1.1.1','ip':'1.1.1.1','organization_domain':'o'}
try:
    from batch.driver.instance_collection.pool import PoolScheduler
except Exception as e:
    import traceback; traceback.print_exc(); raise

class FakeDB:
    def __init__(self, recs): self.recs = recs
    def execute_and_fetchall(self, sql, args=None, query_name=None):
        async def gen():
            for r in self.recs: yield r
        return gen()
class FakePool: name = 'standard'

def run(coro):
    try:
        coro.send(None)
    except StopIteration as e:
        return e.value
    raise RuntimeError('suspended')

def check(r0: int, q0: int, r1: int, q1: int, free: int) -> bool:
    """
    pre: 0 <= r0 <= 64 and 0 <= q0 <= 64 and 0 <= r1 <= 64 and 0 <= q1 <= 64
    pre: q0 + r0 > 0 and q1 + r1 > 0
    pre: -4 <= free <= 200
    post: _
    """
    s = PoolScheduler.__new__(PoolScheduler)
    s.pool = FakePool()
    recs = [dict(user='a', n_ready_jobs=1, ready_cores_mcpu=q0, n_running_jobs=1, running_cores_mcpu=r0),
            dict(user='b', n_ready_jobs=1, ready_cores_mcpu=q1, n_running_jobs=1, running_cores_mcpu=r1)]
    s.db = FakeDB(recs)
    res = run(PoolScheduler._compute_fair_share(s, free))
    a0 = res['a']['allocated_cores_mcpu']; a1 = res['b']['allocated_cores_mcpu']
    ok = 0 <= a0 <= q0 and 0 <= a1 <= q1
    ok = ok and a0 + a1 <= max(free, 0) + 1
    if free > 0 and q0 + q1 >= free:
        ok = ok and a0 + a1 >= free - 1
    return ok
