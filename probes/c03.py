import z3
# nullable ints: (is_null, val)
def N(name): return (z3.Bool(name+'_n'), z3.Int(name))
def isnull(x): return x[0]
def ite(c,a,b): return (z3.If(c,a[0],b[0]), z3.If(c,a[1],b[1]))
NULL=(z3.BoolVal(True), z3.IntVal(0))
def lt(a,b): # SQL a<b true (not null & less)
    return z3.And(z3.Not(a[0]), z3.Not(b[0]), a[1] < b[1])
def ge(a,b): return z3.And(z3.Not(a[0]), z3.Not(b[0]), a[1] >= b[1])
def gt(a,b): return z3.And(z3.Not(a[0]), z3.Not(b[0]), a[1] > b[1])
REASONS=4 # 0 none(null) 1 activation_timeout 2.. others
def trigger(O, Nw):
    os,orr,oe,orea = O; ns,nr,ne,nrea = Nw
    c1 = z3.And(z3.Not(os[0]), z3.Or(ns[0], lt(os,ns)))
    ns = ite(c1, os, ns)
    c2 = z3.And(z3.Not(nrea[0]), nrea[1]==1)
    ns = ite(c2, NULL, ns)
    c3 = z3.And(z3.Not(orea[0]), z3.Or(oe[0], ne[0], ge(ne,oe)))
    ne = ite(c3, oe, ne); nrea = ite(c3, orea, nrea)
    c4 = z3.And(z3.Not(nr[0]), z3.Not(orr[0]), nr[1] < orr[1])
    nr = ite(c4, orr, nr)
    c5 = z3.And(z3.Not(nr[0]), z3.Not(ns[0]), nr[1] < ns[1])
    nr = ite(c5, orr, nr)
    c6 = z3.And(z3.Not(nr[0]), z3.Not(ne[0]), nr[1] > ne[1])
    nr = ite(c6, ne, nr)
    return ns,nr,ne,nrea
def billed(s,r):
    return z3.If(z3.Or(s[0],r[0]), 0, z3.If(r[1]-s[1] > 0, r[1]-s[1], 0))
O = (N('os'),N('or'),N('oe'),N('orea'))
t = z3.Int('t'); t2 = z3.Int('t2'); rea = z3.Int('rea')
P=lambda v:(z3.BoolVal(False), v)
stmts = {
 'started': (P(t), P(t), O[2], O[3]),                 # SET start=t, rollup=t
 'heartbeat': (O[0], P(t), O[2], O[3]),               # SET rollup=t
 'unschedule/deactivate': (O[0], P(t), P(t), P(rea)), # SET rollup=t,end=t,reason
 'complete': (N('cs'), N('ce'), None, P(rea)),        # start=new_start(nullable), rollup=end=new_end(nullable)
}
ce = stmts['complete'][1]; stmts['complete'] = (stmts['complete'][0], ce, ce, P(rea))
def inv(S):
    s,r,e,rea_ = S
    return z3.And(
        z3.Or(r[0], e[0], r[1] <= e[1]),
        z3.Or(rea_[0], z3.And(rea_[1]>=1, rea_[1]<REASONS)),
        #z3.Implies(z3.Not(e[0]), z3.Not(rea_[0])),
    )
for name, Nw in stmts.items():
    S = trigger(O, Nw)
    b0 = billed(O[0],O[1]); b1 = billed(S[0],S[1])
    props = {
      'nonneg': b1 >= 0,
      'bounded': z3.Implies(z3.And(z3.Not(S[2][0]), z3.Not(S[0][0])), b1 <= z3.If(S[2][1]-S[0][1]>0, S[2][1]-S[0][1], 0)),
      'monotone': z3.Or(b1 >= b0, lt(S[2],O[2]), z3.And(z3.Not(S[3][0]), S[3][1]==1)),
      'start_earlier': z3.Implies(z3.And(z3.Not(O[0][0]), z3.Not(S[0][0])), S[0][1] <= O[0][1]),
      'end_only_earlier': z3.Implies(z3.Not(O[3][0]), z3.Or(z3.And(S[2][0]==O[2][0], z3.Or(S[2][0], S[2][1]==O[2][1])), lt(S[2],O[2]))),
      'inv': inv(S),
    }
    for pn, p in props.items():
        s = z3.Solver(); s.add(inv(O), z3.And(rea>=1, rea<REASONS), z3.Not(p))
        r = s.check()
        if r == z3.sat:
            m = s.model()
            def show(x): return 'NULL' if z3.is_true(m.eval(x[0], model_completion=True)) else m.eval(x[1], model_completion=True)
            print(name, pn, 'CEX old=', [show(x) for x in O], 'new=', [show(x) for x in Nw], 'res=', [show(x) for x in S])
        else: print(name, pn, r)
