import z3, time
# python regex ^[a-z0-9]([.\-]?[a-z0-9])*[a-z0-9]?$ with re.match: $ matches at end or before trailing \n
def rng(a,b): return z3.Range(a,b)
alnum = z3.Union(rng('a','z'), rng('0','9'))
sep = z3.Union(z3.Re('.'), z3.Re('-'))
core = z3.Concat(alnum, z3.Star(z3.Concat(z3.Option(sep), alnum)), z3.Option(alnum))
impl = z3.Concat(core, z3.Option(z3.Re('\n')))
spec = z3.Concat(z3.Plus(alnum), z3.Star(z3.Concat(sep, z3.Plus(alnum))))
s = z3.String('s')
for name,a,b in (('impl-not-spec',impl,spec),('spec-not-impl',spec,impl)):
    sol = z3.Solver(); sol.add(z3.InRe(s,a), z3.Not(z3.InRe(s,b)))
    t=time.time(); r=sol.check(); print(name, r, repr(sol.model()[s]) if r==z3.sat else '', round(time.time()-t,3))
