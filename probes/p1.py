import sys, importlib, os
os.environ.setdefault('HAIL_SHA','deadbeef')
sys.path[:0] = ['/repo/batch', '/repo/gear', '/repo/web_common', '/repo/hail/python', '/repo/auth', '/repo/ci']
import autostub
missing = set()
f = autostub.install(missing)
import types
v = types.ModuleType('hailtop.version'); v.__pip_version__='0.0.0'; v.__version__='0.0.0-dead'; v.__revision__='dead'; sys.modules['hailtop.version']=v
_v=v
v2 = types.ModuleType('hail.version'); v2.__pip_version__='0.0.0'; v2.__version__='0.0.0-dead'; v2.__revision__='dead'; sys.modules['hail.version']=v2
target = sys.argv[1]
INREPO=('batch','gear','web_common','hailtop','auth','ci','hail')
for i in range(80):
    try:
        importlib.import_module(target)
        print('OK imported', target, 'stubs:', sorted(missing)); break
    except ModuleNotFoundError as e:
        root = e.name.split('.')[0]
        if root in INREPO:
            import traceback; traceback.print_exc(); break
        if root in missing: print('loop', e); break
        missing.add(root)
        for k in list(sys.modules):
            if k.split('.')[0] in INREPO and k not in ('hailtop.version','hail.version'): del sys.modules[k]
    except Exception as e:
        import traceback; traceback.print_exc(); print('stubs:', sorted(missing)); break
