import asyncio, sys
sys.path.insert(0, '/repo/batch')
import importlib.util
spec = importlib.util.spec_from_file_location('semaphore_real', '/repo/batch/batch/semaphore.py')
m = importlib.util.module_from_spec(spec); spec.loader.exec_module(m)
FIFOWeightedSemaphore = m.FIFOWeightedSemaphore

CAP = 4
class DetLoop(asyncio.SelectorEventLoop):
    _t = 0.0
    def time(self):
        return self._t

async def _run(w0, w1, w2, a0, a1, a2, a3, a4):
    sem = FIFOWeightedSemaphore(CAP)
    weights = [w0, w1, w2]
    held = [False]*3
    started = [False]*3
    tasks = [None]*3
    order = []
    granted = []
    async def worker(i):
        await sem.acquire(weights[i])
        held[i] = True
        granted.append(i)
    for a in (a0, a1, a2, a3, a4):
        # action: 0..2 start acquire i ; 3..5 release i
        if a < 3:
            i = a
            if not started[i]:
                started[i] = True
                order.append(i)
                tasks[i] = asyncio.ensure_future(worker(i))
        else:
            i = a - 3
            if held[i]:
                held[i] = False
                sem.release(weights[i])
        for _ in range(3):
            await asyncio.sleep(0)
        # safety
        tot = 0
        for i in range(3):
            if held[i]:
                tot += weights[i]
        assert tot <= CAP, 'overgrant'
        assert tot + sem.value == CAP, 'accounting'
    # FIFO: granted order is a prefix-consistent subsequence of arrival order
    assert granted == order[:len(granted)], 'fifo'
    for t in tasks:
        if t is not None and not t.done():
            t.cancel()
    return True

def check(w0: int, w1: int, w2: int, a0: int, a1: int, a2: int, a3: int, a4: int) -> bool:
    """
    pre: 1 <= w0 <= 4 and 1 <= w1 <= 4 and 1 <= w2 <= 4
    pre: 0 <= a0 < 6 and 0 <= a1 < 6 and 0 <= a2 < 6 and 0 <= a3 < 6 and 0 <= a4 < 6
    post: _
    """
    loop = DetLoop()
    try:
        return loop.run_until_complete(_run(w0, w1, w2, a0, a1, a2, a3, a4))
    finally:
        loop.close()
