import sys, types
sys.path.insert(0, '/repo/auth')
ex = types.ModuleType('auth.exceptions')
import importlib.util
pkg = types.ModuleType('auth'); pkg.__path__ = ['/repo/auth/auth']; sys.modules['auth'] = pkg
class AuthUserError(Exception):
    def __init__(self, message, severity): super().__init__(message); self.message = message
ex.AuthUserError = AuthUserError; sys.modules['auth.exceptions'] = ex
spec = importlib.util.spec_from_file_location('auth.auth_utils', '/repo/auth/auth/auth_utils.py')
m = importlib.util.module_from_spec(spec); sys.modules['auth.auth_utils'] = m; spec.loader.exec_module(m)

def spec_username(s: str) -> bool:
    if len(s) == 0: return False
    prev_h = True  # treat start as hyphen-adjacent: first char may not be '-'
    for c in s:
        if c == '-':
            if prev_h: return False
            prev_h = True
        elif ('a' <= c <= 'z') or ('0' <= c <= '9'):
            prev_h = False
        else:
            return False
    return not prev_h

def check_username(s: str) -> bool:
    """
    pre: len(s) <= 4
    post: _
    """
    return m.is_valid_username(s) == spec_username(s)
