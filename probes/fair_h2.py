from fair_h import *
import ast, inspect, textwrap
import batch.driver.instance_collection.pool as poolmod
mod = ast.parse(open(poolmod.__file__).read())
fn = [n for c in mod.body if isinstance(c, ast.ClassDef) and c.name == 'PoolScheduler' for n in c.body if isinstance(n, ast.AsyncFunctionDef) and n.name == '_compute_fair_share'][0]
tree = ast.Module(body=[fn], type_ignores=[])
class Cut(ast.NodeTransformer):
    # int(X + 0.5) where X = A / N  ->  (2*A + N) // (2*N) ; int(X + 0.5) with X int-valued -> X
    def visit_Call(self, node):
        self.generic_visit(node)
        if isinstance(node.func, ast.Name) and node.func.id == 'int' and len(node.args) == 1:
            a = node.args[0]
            if isinstance(a, ast.BinOp) and isinstance(a.op, ast.Add) and isinstance(a.right, ast.Constant) and a.right.value == 0.5:
                x = a.left
                if isinstance(x, ast.BinOp) and isinstance(x.op, ast.Div):
                    A, N = x.left, x.right
                    return ast.parse(f'(2*({ast.unparse(A)}) + ({ast.unparse(N)})) // (2*({ast.unparse(N)}))', mode='eval').body
                return x
        return node
tree = ast.fix_missing_locations(Cut().visit(tree))
ns = dict(poolmod.__dict__)
exec(compile(tree, 'cut', 'exec'), ns)
cut_fn = ns['_compute_fair_share']

def check2(r0: int, q0: int, r1: int, q1: int, free: int) -> bool:
    """
    pre: 0 <= r0 <= 64 and 0 <= q0 <= 64 and 0 <= r1 <= 64 and 0 <= q1 <= 64
    pre: q0 + r0 > 0 and q1 + r1 > 0
    pre: -4 <= free <= 200
    post: _
    """
    s = PoolScheduler.__new__(PoolScheduler)
    s.pool = FakePool()
    recs = [dict(user='a', n_ready_jobs=1, ready_cores_mcpu=q0, n_running_jobs=1, running_cores_mcpu=r0),
            dict(user='b', n_ready_jobs=1, ready_cores_mcpu=q1, n_running_jobs=1, running_cores_mcpu=r1)]
    s.db = FakeDB(recs)
    res = run(cut_fn(s, free))
    a0 = res['a']['allocated_cores_mcpu']; a1 = res['b']['allocated_cores_mcpu']
    ok = 0 <= a0 <= q0 and 0 <= a1 <= q1
    ok = ok and a0 + a1 <= max(free, 0) + 1
    if free > 0 and q0 + q1 >= free:
        ok = ok and a0 + a1 >= free - 1
    return ok
