import sys, types, os, functools
sys.path[:0] = ['/repo/hail/python', '/tmp/probe/ch']
import autostub
for n in ('hailtop.version',):
    v = types.ModuleType(n); v.__pip_version__='0.0.0'; v.__version__='0.0.0-dead'; v.__revision__='dead'; sys.modules[n]=v
autostub.install({'orjson','azure','botocore','boto3','cryptography','dateutil','google','google_auth_oauthlib','humanize','janus','jproperties','jwt','msal','nest_asyncio','requests','rich','urllib3','tabulate','uvloop','typer'})
from hailtop.batch_client import aioclient

class _B(bytes):
    pass
class FakeBytes:
    def __init__(self, n): self.n = n
    def __len__(self): return self.n
class _Orjson:
    @staticmethod
    def dumps(spec): return FakeBytes(spec['n'])
aioclient.orjson = _Orjson

def check(n0: int, n1: int, n2: int, n3: int, g: int, maxb: int, maxs: int) -> bool:
    """
    pre: 0 <= g <= 4
    pre: 1 <= maxs <= 5 and 2 <= maxb <= 40
    pre: 1 <= n0 < maxb and 1 <= n1 < maxb and 1 <= n2 < maxb and 1 <= n3 < maxb
    post: _
    """
    ns = [n0, n1, n2, n3]
    jg = [{'n': ns[i], 'id': i} for i in range(g)]
    js = [{'n': ns[i], 'id': i} for i in range(g, 4)]
    bunches = aioclient.Batch._create_bunches(None, jg, js, maxb, maxs)
    flat = [sb for b in bunches for sb in b]
    ok = len(flat) == 4
    for i, sb in enumerate(flat):
        ok = ok and sb.spec_bytes.n == ns[i] and (sb.typ == (aioclient.SpecType.JOB_GROUP if i < g else aioclient.SpecType.JOB))
    for b in bunches:
        tot = 0
        for sb in b: tot += sb.n_bytes
        ok = ok and len(b) >= 1 and len(b) <= maxs and tot < maxb
    return ok
