import asyncio, sys, importlib.util
spec = importlib.util.spec_from_file_location('ws_real', '/repo/hail/python/hailtop/aiotools/weighted_semaphore.py')
m = importlib.util.module_from_spec(spec); spec.loader.exec_module(m)
WeightedSemaphore = m.WeightedSemaphore
CAP = 2
class DetLoop(asyncio.SelectorEventLoop):
    _t = 0.0
    def time(self): return self._t

async def _run(w0, w1, acts, drains):
    sem = WeightedSemaphore(CAP)
    weights = [w0, w1]
    gates = [asyncio.Event(), asyncio.Event()]
    inside = [False, False]
    tasks = [None, None]
    async def worker(i):
        async with sem.acquire_manager(weights[i]):
            inside[i] = True
            try:
                await gates[i].wait()
            finally:
                inside[i] = False
    for a, d in zip(acts, drains):
        kind, i = a // 2, a % 2
        if kind == 0:
            if tasks[i] is None:
                tasks[i] = asyncio.ensure_future(worker(i))
        elif kind == 1:
            gates[i].set()
        else:
            if tasks[i] is not None:
                tasks[i].cancel()
        if d:
            for _ in range(4):
                await asyncio.sleep(0)
        tot = (weights[0] if inside[0] else 0) + (weights[1] if inside[1] else 0)
        assert tot <= CAP
    for g in gates: g.set()
    for _ in range(8):
        await asyncio.sleep(0)
    ok = sem.value == CAP
    for t in tasks:
        if t is not None:
            ok = ok and t.done()
            if not t.done(): t.cancel()
    return ok

def check(w0: int, w1: int, a0: int, a1: int, a2: int, a3: int, d0: bool, d1: bool, d2: bool, d3: bool) -> bool:
    """
    pre: 1 <= w0 <= 2 and 1 <= w1 <= 2
    pre: 0 <= a0 < 6 and 0 <= a1 < 6 and 0 <= a2 < 6 and 0 <= a3 < 6
    post: _
    """
    loop = DetLoop()
    try:
        return loop.run_until_complete(_run(w0, w1, [a0, a1, a2, a3], [d0, d1, d2, d3]))
    finally:
        loop.close()
