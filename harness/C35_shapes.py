"""C35 symbolic program builder: typed expression DAGs with sharing, generated top-down.

A shape is a sequence of integer choices c0,c1,... (symbolic under vt.glue.Explorer: `choose` forks on
`c_k == i`).  Generation is DFS pre-order from the root: each operand slot is filled by a pooled leaf, a
variable in scope, an already *completed* node of the right type whose free variables are in scope
(sharing), or a new node while budget remains.  Every ordered DAG of <= N nodes over the kinds below is
produced exactly once (first visit = creation, later visits = sharing).

The spec is realised twice: `to_ir` (hail.ir constructors, one Python object per spec node, so sharing is
object identity exactly as the front end produces it) and, for the API family, `to_expr` (hl.* calls).
"""
from vt import loader

loader.install()
import hail as hl  # noqa: E402
from hail import ir  # noqa: E402
from hail.expr.types import tarray, tbool, tint32, tint64  # noqa: E402

# The aggregator registry is filled at import time from dtype strings; the dtype-string parser (parsimonious) is
# absent here, so the one signature the builder uses is re-registered through the real register_aggregator with
# real type objects (same signature as hail/ir/register_aggregators.py: Sum () (int64) -> int64).
from hail.ir import ir as _irmod  # noqa: E402

_irmod._aggregator_registry['Sum'] = []
_irmod.register_aggregator('Sum', (), (tint64,), tint64)
_irmod._aggregator_registry['Count'] = []
_irmod.register_aggregator('Count', (), (), tint64)

# result types: i int32, b bool, a array<int32>, s stream<int32>, t struct{a:int32,b:int32}, l int64
# kinds: name -> (result type, [operand slots]); a slot is (type, binds) where binds = names bound in it
#   ctx of a slot: 'e' same as parent, 'A' aggregation scope of the parent (seq-op argument, AggFilter cond)
KINDS = {
    'SUB': ('i', 'ii'), 'LT': ('b', 'ii'), 'IF': ('T', 'bTT'), 'LET': ('T', 'iT'), 'MKS': ('t', 'ii'),
    'GETA': ('i', 't'), 'GETB': ('i', 't'), 'MKA': ('a', 'ii'), 'MKA1': ('a', 'i'), 'TOS': ('s', 'a'),
    'TOA': ('a', 's'), 'SMAP': ('s', 'si'), 'SFILT': ('s', 'sb'), 'FOLD': ('i', 'sii'), 'ALEN': ('i', 'a'),
    'AREF': ('i', 'ai'),
    # int64 world for the aggregation / scan families: l int64, B array<int64>, S stream<int64>
    'LSUB': ('l', 'll'), 'LLT': ('b', 'll'), 'LETL': ('l', 'll'), 'IFL': ('l', 'bll'), 'TOSL': ('S', 'B'),
    'TOAL': ('B', 'S'), 'SMAPL': ('S', 'Sl'),
    # SUM(seq arg in agg scope), AGGF(cond in agg scope, aggregation body), SAGG(stream, body aggregating over it)
    'SUM': ('l', 'l'), 'AGGF': ('l', 'bl'), 'SAGG': ('l', 'Sl'),
    # scans: SCAN / SCANF as above in the scan scope; SSCAN(stream, body) yields the stream of running results
    'SCAN': ('l', 'l'), 'SCANF': ('l', 'bl'), 'SSCAN': ('S', 'Sl'),
    # grouping / exploding aggregation nodes (agg twins, then scan twins).  D dict<int64,int64>, P struct{a:int64,b:D},
    # E/F stream/array of D, G/H stream/array of P, A2 = MakeArray of two int64 (fixed length 2)
    'COUNT': ('l', ''), 'GRP': ('D', 'll'), 'EXPL': ('l', 'Sl'), 'APE': ('B', 'Ql'), 'MKAL': ('Q', 'll'),
    'COUNTS': ('l', ''), 'GRPS': ('D', 'll'), 'EXPLS': ('l', 'Sl'), 'APES': ('B', 'Ql'),
    'PAIR': ('P', 'lD'), 'SAGGD': ('D', 'SD'), 'SAGGP': ('P', 'SP'), 'SAGGB': ('B', 'SB'),
    'SSCAND': ('E', 'SD'), 'SSCANP': ('G', 'SP'), 'SSCANB': ('I', 'SB'),
    'TOALD': ('F', 'E'), 'TOALP': ('H', 'G'), 'TOALB': ('J', 'I'),
}
SEQ_SLOT0 = ('SUM', 'SCAN', 'AGGF', 'SCANF', 'GRP', 'GRPS', 'EXPL', 'EXPLS', 'APE', 'APES')
AGG_KINDS = ('SUM', 'AGGF', 'COUNT', 'GRP', 'EXPL', 'APE')
SCAN_KINDS = ('SCAN', 'SCANF', 'COUNTS', 'GRPS', 'EXPLS', 'APES')
SAGG_KINDS = ('SAGG', 'SAGGD', 'SAGGP', 'SAGGB')
SSCAN_KINDS = ('SSCAN', 'SSCAND', 'SSCANP', 'SSCANB')
WRAP = {'agg': {'l': ('SAGG', None), 'D': ('SAGGD', None), 'P': ('SAGGP', None), 'B': ('SAGGB', None)},
        'scan': {'l': ('SSCAN', 'TOAL'), 'D': ('SSCAND', 'TOALD'), 'P': ('SSCANP', 'TOALP'), 'B': ('SSCANB', 'TOALB')}}

FAMILIES = {
    # value family: everything in the statement's quantifier
    'value': dict(kinds=['SUB', 'LT', 'IF', 'LET', 'MKS', 'GETA', 'GETB', 'MKA', 'TOS', 'TOA', 'SMAP', 'SFILT',
                         'FOLD', 'ALEN'], roots='ibat', if_types='ia', let_types='ia',
                  leaves={'i': ['x', 'c'], 'b': ['p'], 'a': ['A'], 's': ['SA']}),
    # smaller value family for the quick tier (no struct round trip through If/Let of arrays)
    'value-core': dict(kinds=['SUB', 'LT', 'IF', 'LET', 'MKS', 'GETA', 'MKA', 'TOS', 'TOA', 'SMAP', 'SFILT', 'FOLD'],
                       roots='iat', if_types='i', let_types='i',
                       leaves={'i': ['x', 'c'], 'b': ['p'], 'a': ['A'], 's': ['SA']}),
    # small aggregation / scan families that reach AggLet lifting within few nodes
    'aggcore': dict(kinds=['LSUB', 'LLT', 'SUM', 'AGGF', 'SAGG'], roots='l', if_types='', let_types='',
                    leaves={'b': ['p'], 'l': ['y', 'd'], 'S': ['SB']}),
    'scancore': dict(kinds=['LSUB', 'LLT', 'SCAN', 'SCANF', 'SSCAN', 'TOAL'], roots='B', if_types='', let_types='',
                     leaves={'b': ['p'], 'l': ['y', 'd'], 'S': ['SB']}),
    # grouping families: the root is always StreamAgg(ToStream B, e, body) resp. ToArray(StreamAggScan(ToStream B, e,
    # body)) (not counted); `body` (int64, dict, struct{a:int64,b:dict} or per-element array) is generated
    'grp': dict(wrap='agg', kinds=['LSUB', 'SUM', 'COUNT', 'AGGF', 'LLT', 'GRP', 'PAIR', 'EXPL'], roots='lDP',
                if_types='', let_types='', leaves={'b': ['p'], 'l': ['y', 'd'], 'S': ['SB']}),
    'grps': dict(wrap='scan', kinds=['LSUB', 'SCAN', 'COUNTS', 'SCANF', 'LLT', 'GRPS', 'PAIR', 'EXPLS'], roots='lDP',
                 if_types='', let_types='', leaves={'b': ['p'], 'l': ['y', 'd'], 'S': ['SB']}),
    'ape': dict(wrap='agg', kinds=['LSUB', 'SUM', 'COUNT', 'APE', 'MKAL', 'GRP'], roots='BD',
                if_types='', let_types='', leaves={'l': ['y', 'd'], 'S': ['SB']}),
    'apes': dict(wrap='scan', kinds=['LSUB', 'SCAN', 'COUNTS', 'APES', 'MKAL', 'GRPS'], roots='BD',
                 if_types='', let_types='', leaves={'l': ['y', 'd'], 'S': ['SB']}),
    # binder-centred family for 4 nodes; two-kind families for 5 nodes
    'bind4': dict(kinds=['SUB', 'IF', 'LET', 'SMAP', 'FOLD', 'TOA'], roots='ia', if_types='i', let_types='i',
                  leaves={'i': ['x'], 'b': ['p'], 's': ['SA']}),
    'let5': dict(kinds=['SUB', 'LET'], roots='i', if_types='i', let_types='i', leaves={'i': ['x']}),
    'if5': dict(kinds=['SUB', 'IF'], roots='i', if_types='i', let_types='i', leaves={'i': ['x'], 'b': ['p']}),
    # strict family: no streams, ArrayRef may fail -> error behaviour must be equal as well
    'strict': dict(kinds=['SUB', 'LT', 'IF', 'LET', 'MKS', 'GETA', 'MKA', 'AREF', 'ALEN'], roots='iat',
                   if_types='ia', let_types='ia', leaves={'i': ['x', 'c'], 'b': ['p'], 'a': ['A'], 's': ['SA']}),
    'strict4': dict(kinds=['SUB', 'IF', 'LET', 'AREF', 'MKA'], roots='ia', if_types='i', let_types='i',
                    leaves={'i': ['x', 'c'], 'b': ['p'], 'a': ['A']}),
    # aggregation family: StreamAgg nests anywhere; Let vs AggLet placement is decided by evaluation
    'agg': dict(kinds=['LSUB', 'LLT', 'LETL', 'IFL', 'TOSL', 'SMAPL', 'SUM', 'AGGF', 'SAGG'], roots='l',
                if_types='', let_types='', leaves={'b': ['p'], 'l': ['y', 'd'], 'B': ['B'], 'S': ['SB']}),
    'scan': dict(kinds=['LSUB', 'LLT', 'LETL', 'IFL', 'TOSL', 'TOAL', 'SMAPL', 'SCAN', 'SCANF', 'SSCAN'], roots='Bl',
                 if_types='', let_types='', leaves={'b': ['p'], 'l': ['y', 'd'], 'B': ['B'], 'S': ['SB']}),
}
LEAF_TYPES = {'x': 'i', 'c': 'i', 'p': 'b', 'A': 'a', 'y': 'l', 'd': 'l', 'B': 'B', 'SA': 's', 'SB': 'S'}


class Node:
    __slots__ = ('kind', 'typ', 'ops', 'names', 'fv', 'afv', 'aggk', 'idx')

    def __init__(self, kind, typ, idx):
        self.kind = kind
        self.typ = typ
        self.ops = []
        self.names = ()
        self.fv = frozenset()      # bound variables used in eval position
        self.afv = frozenset()     # bound variables used inside seq-op args / filter conds (agg or scan scope)
        self.aggk = None           # 'agg' / 'scan' when the node contains an aggregation needing that context
        self.idx = idx

    def __repr__(self):
        nm = ('[' + ','.join(self.names) + ']') if self.names else ''
        return f'{self.kind}{self.idx}{nm}({",".join(map(repr, self.ops))})'


class Leaf:
    __slots__ = ('name', 'typ')
    afv = frozenset()
    aggk = None

    def __init__(self, name, typ):
        self.name = name
        self.typ = typ

    @property
    def fv(self):
        return frozenset()

    def __repr__(self):
        return self.name


class Var(Leaf):
    __slots__ = ()

    @property
    def fv(self):
        return frozenset([self.name])


class DeadEnd(Exception):
    """The partial shape cannot be completed to a well-formed program (dropped, not counted)."""


_VAR_OF_STREAM = {'s': 'i', 'S': 'l'}


class Builder:
    """`choose(options)` returns one element; under glue it forks.  n = max number of new nodes."""

    def __init__(self, family, n, choose, shadow=False):
        self.fam = FAMILIES[family]
        self.family = family
        self.budget = n
        self.choose = choose
        self.done = []
        self.count = 0
        self.nbind = 0
        self.shadow = shadow
        self.vartyp = {}

    def fresh(self, typ, acc=False):
        if self.shadow:
            name = 'g' if acc else {'i': 'e', 'l': 'f'}[typ]
        else:
            self.nbind += 1
            name = f'v{self.nbind}'
        self.vartyp[name] = typ
        return name

    def kinds_for(self, typ):
        out = []
        for k in self.fam['kinds']:
            rt = KINDS[k][0]
            if rt == typ or (rt == 'T' and typ in self.fam['if_types' if k == 'IF' else 'let_types']):
                out.append(k)
        return out

    def root(self):
        rt = self.choose([('root', t) for t in self.fam['roots']])[1]
        wrap = self.fam.get('wrap')
        if wrap is None:
            return self.gen(rt, (), None)
        inner_kind, outer_kind = WRAP[wrap][rt]
        v = self.fresh('l')
        nd = Node(inner_kind, KINDS[inner_kind][0], 0)
        nd.names = (v,)
        if wrap == 'agg':
            body = self.gen(rt, (), ('agg', (v,)))
        else:
            body = self.gen(rt, (v,), ('scan', (v,)))
        # scans are exclusive prefixes: 3 candidate rows (array C) so that some row sees 2 earlier rows
        nd.ops = [Leaf('SB' if wrap == 'agg' else 'SC', 'S'), body]
        if outer_kind is None:
            return nd
        top = Node(outer_kind, KINDS[outer_kind][0], 0)
        top.ops = [nd]
        return top

    def gen(self, typ, scope, agg):
        """scope: eval-scope bound names; agg: None or (kind, names): the agg / scan scope visible here."""
        opts = []
        for lf in self.fam['leaves'].get(typ, []):
            opts.append(('leaf', lf))
        for v in dict.fromkeys(scope):
            if self.vartyp[v] == typ:
                opts.append(('var', v))
        for nd in self.done:
            if nd.typ == typ and nd.fv <= set(scope) and (
                    nd.aggk is None or (agg is not None and agg[0] == nd.aggk and nd.afv <= set(agg[1]))):
                opts.append(('share', nd))
        if self.budget > 0:
            for k in self.kinds_for(typ):
                if k in AGG_KINDS and (agg is None or agg[0] != 'agg'):
                    continue
                if k in SCAN_KINDS and (agg is None or agg[0] != 'scan'):
                    continue
                opts.append(('new', k))
        if not opts:
            raise DeadEnd()
        o = self.choose(opts)
        if o[0] == 'leaf':
            return Leaf(o[1], typ)
        if o[0] == 'var':
            return Var(o[1], typ)
        if o[0] == 'share':
            return o[1]
        return self.new(o[1], typ, scope, agg)

    def new(self, kind, typ, scope, agg):
        self.budget -= 1
        self.count += 1
        nd = Node(kind, typ, self.count)
        sig = KINDS[kind][1].replace('T', typ)
        ops = []
        fv = set()
        afv = set()
        aggk = None
        for i, st in enumerate(sig):
            bound = ()
            aggbound = ()
            sc, ag = scope, agg
            mode = 'eval'
            if kind in ('LET', 'LETL') and i == 1:
                bound = (self.fresh('i' if kind == 'LET' else 'l'),)
            elif kind in ('SMAP', 'SFILT', 'SMAPL') and i == 1:
                bound = (self.fresh(_VAR_OF_STREAM[sig[0]]),)
            elif kind == 'FOLD' and i == 2:
                bound = (self.fresh('i', acc=True), self.fresh('i'))
            elif kind in SEQ_SLOT0 and i == 0:
                mode = 'seq'          # evaluated per aggregated row, in the agg / scan scope
                sc, ag = tuple(agg[1]), None
            elif kind in ('EXPL', 'EXPLS') and i == 1:
                aggbound = (self.fresh('l'),)          # the exploded element, bound in the agg / scan scope only
                nd.names = aggbound
                ag = (agg[0], tuple(agg[1]) + aggbound)
            elif kind in ('APE', 'APES') and i == 1:
                aggbound = (self.fresh('l'),)          # element (agg / scan scope) and index (eval scope, int32)
                bound = (self.fresh('i'),)
                nd.names = aggbound + bound
                ag = (agg[0], tuple(agg[1]) + aggbound)
            elif kind in SAGG_KINDS and i == 1:
                mode = 'aggbody'      # eval scope unchanged; agg scope = eval scope + element
                bound = (self.fresh('l'),)
                sc, ag = scope, ('agg', tuple(scope) + bound)
            elif kind in SSCAN_KINDS and i == 1:
                mode = 'scanbody'     # eval scope + element; scan scope = eval scope + element
                bound = (self.fresh('l'),)
                sc, ag = tuple(scope) + bound, ('scan', tuple(scope) + bound)
            if bound and not nd.names:
                nd.names = bound
            if mode == 'eval':
                sc = tuple(scope) + bound
            o = self.gen(st, sc, ag)
            ops.append(o)
            if mode == 'seq':
                if o.aggk is not None:
                    raise DeadEnd()
                afv |= set(o.fv)
                aggk = agg[0]
            elif mode in ('aggbody', 'scanbody'):
                # the aggregation is closed here: what the body used in agg/scan scope is an eval use outside
                fv |= (set(o.fv) | set(o.afv)) - set(bound)
            else:
                fv |= set(o.fv) - set(bound)
                if o.aggk is not None:
                    if aggk is not None and aggk != o.aggk:
                        raise DeadEnd()
                    aggk = o.aggk
                    afv |= set(o.afv) - set(aggbound)
        if kind in AGG_KINDS:
            aggk = 'agg'
        if kind in SCAN_KINDS:
            aggk = 'scan'
        if kind in ('SMAP', 'SFILT', 'SMAPL', 'FOLD') and aggk is not None:
            raise DeadEnd()        # aggregations under a stream lambda are not generated
        nd.ops = ops
        nd.fv = frozenset(fv)
        nd.afv = frozenset(afv)
        nd.aggk = aggk
        self.done.append(nd)
        return nd


def nodes_of(root):
    seen = {}

    def go(n):
        if isinstance(n, Node) and id(n) not in seen:
            seen[id(n)] = n
            for o in n.ops:
                go(o)
    go(root)
    return list(seen.values())


def shared_count(root):
    """number of Node objects with >= 2 incoming edges"""
    cnt = {}

    def go(n):
        if isinstance(n, Node):
            cnt[id(n)] = cnt.get(id(n), 0) + 1
            if cnt[id(n)] == 1:
                for o in n.ops:
                    go(o)
    go(root)
    return sum(1 for v in cnt.values() if v > 1)


# ---- realisation with the real hail.ir constructors ---------------------------------------------------
def to_ir(root):
    memo = {}
    leaves = {'x': ir.Ref('x', tint32), 'c': ir.I32(7), 'p': ir.Ref('p', tbool), 'A': ir.Ref('A', tarray(tint32)),
              'y': ir.Ref('y', tint64), 'd': ir.I64(7), 'B': ir.Ref('B', tarray(tint64)),
              'C': ir.Ref('C', tarray(tint64))}
    vars_ = {}
    types = {'i': tint32, 'l': tint64}

    def var(name, typ):
        if name not in vars_:
            vars_[name] = ir.Ref(name, types[typ])
        return vars_[name]

    def go(n):
        if isinstance(n, Var):
            return var(n.name, n.typ)
        if isinstance(n, Leaf):
            if n.name in ('SA', 'SB', 'SC'):      # pooled stream leaf: a fresh ToStream over the free array (streams are
                return ir.ToStream(leaves[n.name[1]])     # not values and are never shared)
            return leaves[n.name]
        if id(n) in memo:
            return memo[id(n)]
        k = n.kind
        o = [go(x) for x in n.ops]
        if k in ('SUB', 'LSUB'):
            r = ir.ApplyBinaryPrimOp('Subtract', o[0], o[1])
        elif k in ('LT', 'LLT'):
            r = ir.ApplyComparisonOp('LT', o[0], o[1])
        elif k in ('IF', 'IFL'):
            r = ir.If(o[0], o[1], o[2])
        elif k in ('LET', 'LETL'):
            r = ir.Let(n.names[0], o[0], o[1])
        elif k == 'MKS':
            r = ir.MakeStruct([('a', o[0]), ('b', o[1])])
        elif k == 'GETA':
            r = ir.GetField(o[0], 'a')
        elif k == 'GETB':
            r = ir.GetField(o[0], 'b')
        elif k in ('MKA', 'MKA1'):
            r = ir.MakeArray(o, tarray(tint32))
        elif k in ('TOS', 'TOSL'):
            r = ir.ToStream(o[0])
        elif k in ('TOA', 'TOAL', 'TOALD', 'TOALP', 'TOALB'):
            r = ir.ToArray(o[0])
        elif k in ('SMAP', 'SMAPL'):
            r = ir.StreamMap(o[0], n.names[0], o[1])
        elif k == 'SFILT':
            r = ir.StreamFilter(o[0], n.names[0], o[1])
        elif k == 'FOLD':
            r = ir.StreamFold(o[0], o[1], n.names[0], n.names[1], o[2])
        elif k == 'ALEN':
            r = ir.ArrayLen(o[0])
        elif k == 'AREF':
            r = ir.ArrayRef(o[0], o[1])
        elif k == 'SUM':
            r = ir.ApplyAggOp('Sum', [], [o[0]])
        elif k == 'SCAN':
            r = ir.ApplyScanOp('Sum', [], [o[0]])
        elif k == 'AGGF':
            r = ir.AggFilter(o[0], o[1], False)
        elif k == 'SCANF':
            r = ir.AggFilter(o[0], o[1], True)
        elif k in SAGG_KINDS:
            r = ir.StreamAgg(o[0], n.names[0], o[1])
        elif k in SSCAN_KINDS:
            r = ir.StreamAggScan(o[0], n.names[0], o[1])
        elif k in ('COUNT', 'COUNTS'):
            r = (ir.ApplyAggOp if k == 'COUNT' else ir.ApplyScanOp)('Count', [], [])
        elif k in ('GRP', 'GRPS'):
            r = ir.AggGroupBy(o[0], o[1], k == 'GRPS')
        elif k in ('EXPL', 'EXPLS'):
            r = ir.AggExplode(o[0], n.names[0], o[1], k == 'EXPLS')
        elif k in ('APE', 'APES'):
            r = ir.AggArrayPerElement(o[0], n.names[0], n.names[1], o[1], k == 'APES')
        elif k == 'MKAL':
            r = ir.MakeArray(o, tarray(tint64))
        elif k == 'PAIR':
            r = ir.MakeStruct([('a', o[0]), ('b', o[1])])
        else:
            raise ValueError(k)
        memo[id(n)] = r
        return r
    return go(root)


# ---- realisation through the public expression API --------------------------------------------------------
def to_expr_agg(root):
    """Wrapped aggregation / scan families through the public API: `B.aggregate(lambda e: ...)` with hl.agg.count / sum /
    filter / group_by / explode / array_agg, resp. `C._to_stream()._aggregate_scan(lambda e: ...).to_array()` with the
    hl.scan twins.  Free leaves are top-level references (what table fields are), as the aggregator API demands.
    Shapes the API refuses (ExpressionException) are not programs and are dropped by the caller."""
    from hail.expr.expressions.typed_expressions import construct_expr
    scan = root.kind.startswith('TOAL')
    inner = root.ops[0] if scan else root
    A = hl.scan if scan else hl.agg

    def top(name, t):
        return construct_expr(ir.TopLevelReference(name, t), t)
    leaves = {'y': top('y', tint64), 'd': hl.int64(7), 'p': top('p', tbool), 'B': top('B', tarray(tint64)),
              'C': top('C', tarray(tint64))}
    memo = {}

    def go(n, env):
        if isinstance(n, Var):
            return env[n.name]
        if isinstance(n, Leaf):
            return leaves[n.name[-1]] if n.name in ('SB', 'SC') else leaves[n.name]
        if id(n) in memo:
            return memo[id(n)]
        k = n.kind
        if k in ('EXPL', 'EXPLS'):
            r = A.explode(lambda x: go(n.ops[1], {**env, n.names[0]: x}), go(n.ops[0], env))
        elif k in ('APE', 'APES'):
            r = A.array_agg(lambda x: go(n.ops[1], {**env, n.names[0]: x}), go(n.ops[0], env))
        else:
            o = [go(x, env) for x in n.ops]
            if k == 'LSUB':
                r = o[0] - o[1]
            elif k == 'LLT':
                r = o[0] < o[1]
            elif k in ('SUM', 'SCAN'):
                r = A.sum(o[0])
            elif k in ('COUNT', 'COUNTS'):
                r = A.count()
            elif k in ('AGGF', 'SCANF'):
                r = A.filter(o[0], o[1])
            elif k in ('GRP', 'GRPS'):
                r = A.group_by(o[0], o[1])
            elif k == 'PAIR':
                r = hl.struct(a=o[0], b=o[1])
            elif k == 'MKAL':
                r = hl.array([o[0], o[1]])
            elif k == 'TOSL':
                r = o[0]
            else:
                raise ValueError(k)
        memo[id(n)] = r
        return r
    src = leaves['C' if scan else 'B']
    if scan:
        return src._to_stream()._aggregate_scan(lambda e: go(inner.ops[1], {inner.names[0]: e})).to_array()
    return src.aggregate(lambda e: go(inner.ops[1], {inner.names[0]: e}))


def to_expr(root):
    """The same spec built with hl.* calls (operators, if_else, bind, struct, array, map/filter/fold, len).  Free
    leaves are expression variables (what a table field reference is to the front end); sharing = reuse of the
    Python expression object, exactly how user code creates shared IR nodes.  Returns the root Expression."""
    from hail.expr.expressions.typed_expressions import construct_variable
    leaves = {'x': construct_variable('x', tint32), 'c': hl.int32(7), 'p': construct_variable('p', tbool),
              'A': construct_variable('A', tarray(tint32))}
    memo = {}

    def go(n, env):
        if isinstance(n, Var):
            return env[n.name]
        if isinstance(n, Leaf):
            return leaves['A'] if n.name == 'SA' else leaves[n.name]
        if id(n) in memo:
            return memo[id(n)]
        k = n.kind
        if k == 'LET':
            r = hl.bind(lambda v: go(n.ops[1], {**env, n.names[0]: v}), go(n.ops[0], env))
        elif k == 'SMAP':
            r = go(n.ops[0], env).map(lambda v: go(n.ops[1], {**env, n.names[0]: v}))
        elif k == 'SFILT':
            r = go(n.ops[0], env).filter(lambda v: go(n.ops[1], {**env, n.names[0]: v}))
        elif k == 'FOLD':
            r = hl.fold(lambda a, v: go(n.ops[2], {**env, n.names[0]: a, n.names[1]: v}), go(n.ops[1], env),
                        go(n.ops[0], env))
        else:
            o = [go(x, env) for x in n.ops]
            if k == 'SUB':
                r = o[0] - o[1]
            elif k == 'LT':
                r = o[0] < o[1]
            elif k == 'IF':
                r = hl.if_else(o[0], o[1], o[2])
            elif k == 'MKS':
                r = hl.struct(a=o[0], b=o[1])
            elif k == 'GETA':
                r = o[0].a
            elif k == 'GETB':
                r = o[0].b
            elif k == 'MKA':
                r = hl.array([o[0], o[1]])
            elif k in ('TOS', 'TOA'):
                r = o[0]
            elif k == 'ALEN':
                r = hl.len(o[0])
            else:
                raise ValueError(k)
        memo[id(n)] = r
        return r
    return go(root, {})
