"""Generates the CrossHair condition functions for C11: one per (N users, ordering of the running cores).
The orderings r_p0 <= r_p1 <= ... over all permutations p cover every input (ties included); they shard the
path space across processes."""
import itertools

TEMPLATE = '''
def check{N}_{S}({ARGS}, free: int) -> bool:
    """
    pre: {RANGE}
    pre: {ORDER}
    pre: -{CAP} <= free < {CAP}
    post: _
    """
    return H.property_holds([{RS}], [{QS}], free)


def reach{N}_{S}({ARGS}, free: int) -> bool:
    """
    pre: {RANGE}
    pre: {ORDER}
    pre: -{CAP} <= free < {CAP}
    post: _
    """
    # reachability twin: must be REFUTED (some input leaves a user short with a positive allocation)
    return not H.some_user_short([{RS}], [{QS}], free)
'''


def shards(n):
    return list(itertools.permutations(range(n)))


def source(ns, abits, nmax):
    cap = 1 << abits
    out = ['import harness.C11_fair as H\n', f'H.configure({abits}, {nmax})\n']
    names = []
    for n in ns:
        for s, perm in enumerate(shards(n)):
            rs = [f'r{i}' for i in range(n)]
            qs = [f'q{i}' for i in range(n)]
            args = ', '.join(f'{r}: int, {q}: int' for r, q in zip(rs, qs))
            rng = ' and '.join(f'0 <= {x} < {cap}' for x in rs + qs)
            order = ' and '.join(f'r{perm[i]} <= r{perm[i + 1]}' for i in range(n - 1)) or 'True'
            out.append(TEMPLATE.format(N=n, S=s, ARGS=args, RANGE=rng, ORDER=order, CAP=cap,
                                       RS=', '.join(rs), QS=', '.join(qs)))
            names.append((n, s, perm))
    return '\n'.join(out), names


def argnames(n):
    out = []
    for i in range(n):
        out += [f'r{i}', f'q{i}']
    return out + ['free']
