"""Generates the CrossHair condition functions for C11: one per (N users, ordering of the running cores[,
ordering of the totals]).  The orderings r_p0 <= r_p1 <= ... (and t_p0 <= t_p1 <= ..., t = running + ready)
over all permutations, taken lexicographically with the user index as tie-breaker (strict `<` where the indices
descend), partition the inputs: every input, ties included, is in exactly one shard."""
import itertools

TEMPLATE = '''
def check{N}_{S}({ARGS}, free: int) -> bool:
    """
    pre: {RANGE}
    pre: {ORDER}
    pre: -{CAP} <= free < {CAP}
    post: _
    """
    return H.property_holds([{RS}], [{QS}], free)


def S_check{N}_{S}({ARGS}, free: int) -> bool:
    """
    pre: {RANGE}
    pre: {ORDER}
    pre: -{CAP} <= free < {CAP}
    post: _
    """
    # search-mode twin (cut helpers without side conditions; proposes counterexamples only, discharges nothing)
    H.LIMITS.search = True
    return H.property_holds([{RS}], [{QS}], free)


def reach{N}_{S}({ARGS}, free: int) -> bool:
    """
    pre: {RANGE}
    pre: {ORDER}
    pre: -{CAP} <= free < {CAP}
    post: _
    """
    # reachability twin: must be REFUTED (some input leaves a user short with a positive allocation)
    return not H.some_user_short([{RS}], [{QS}], free)
'''


def shards(n):
    """(order of the running cores, order of the totals running+ready or None).  N >= 3 is sharded on both."""
    rp = list(itertools.permutations(range(n)))
    if n < 3:
        return [(p, None) for p in rp]
    return [(p, t) for p in rp for t in rp]


def source(ns, abits, nmax):
    cap = 1 << abits
    out = ['import harness.C11_fair as H\n', f'H.configure({abits}, {nmax})\n']
    names = []
    for n in ns:
        for s, (perm, tperm) in enumerate(shards(n)):
            rs = [f'r{i}' for i in range(n)]
            qs = [f'q{i}' for i in range(n)]
            args = ', '.join(f'{r}: int, {q}: int' for r, q in zip(rs, qs))
            rng = ' and '.join(f'0 <= {x} < {cap}' for x in rs + qs)
            # lexicographic order on (value, user index): `<=` when the indices ascend, `<` when they descend, so the
            # shards PARTITION the input space (every input, ties included, belongs to exactly one shard)
            def rel(a, b):
                return '<=' if a < b else '<'

            order = ' and '.join(f'r{perm[i]} {rel(perm[i], perm[i + 1])} r{perm[i + 1]}' for i in range(n - 1)) or 'True'
            if tperm is not None:
                order += ' and ' + ' and '.join(
                    f'r{tperm[i]} + q{tperm[i]} {rel(tperm[i], tperm[i + 1])} r{tperm[i + 1]} + q{tperm[i + 1]}'
                    for i in range(n - 1))
            out.append(TEMPLATE.format(N=n, S=s, ARGS=args, RANGE=rng, ORDER=order, CAP=cap,
                                       RS=', '.join(rs), QS=', '.join(qs)))
            names.append((n, s, (perm, tperm)))
    return '\n'.join(out), names


def argnames(n):
    out = []
    for i in range(n):
        out += [f'r{i}', f'q{i}']
    return out + ['free']
