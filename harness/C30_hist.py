"""C30 history world: the real WatchedBranch._update against a fake GitHub and a fake batch service.

Model of the environment (stated in the evidence):
  * GitHub is the ground truth: per open PR its head commit, labels, review decision; per COMMIT a map
    context -> state (what `statusCheckRollup` of that commit reports; every context is "required");
    the target branch's head.  CI's own status posts (`POST …/statuses/<sha>`) land on the commit they name.
  * A merge request `PUT …/pulls/N/merge {sha}` is refused (HTTP 409) when `sha` is not the PR's current head
    (documented GitHub behaviour), may be refused for other reasons (solver choice), and otherwise closes the PR
    and moves the target branch to a fresh commit.  At that moment the truth is snapshotted — that snapshot is what
    the property is judged on.
  * Webhooks are reliable and ordered: every external GitHub event is followed by
    WatchedBranch.notify_github_changed, every batch completion by notify_batch_changed, before the next event.
  * The batch service lists batches newest first and filters on the attributes the code queries.
"""
import io
import re

import z3

from harness.C30_ci import CTX, OTHER, G, HTTPException
from vt import natsym
from vt.common import HarnessError
from vt.natsym import SEnum, choose

import logging  # noqa: E402

from hailtop.batch_client.aioclient import Batch  # noqa: E402

logging.getLogger('ci').disabled = True

DECISIONS = ['APPROVED', 'REVIEW_REQUIRED', 'CHANGES_REQUESTED', None]
STATES = ['SUCCESS', 'PENDING', 'FAILURE']
DO_NOT_MERGE = ('WIP', 'stacked PR')


class FakeBatch(Batch):
    def __init__(self, svc, attributes):  # pylint: disable=super-init-not-called
        self.svc = svc
        self._attrs = dict(attributes)
        self._fid = None
        self.state = 'open'

    @property
    def id(self):
        return self._fid

    @property
    def attributes(self):
        return self._attrs

    async def submit(self, *a, **k):
        self.svc.n += 1
        self._fid = self.svc.n
        self.state = 'running'
        self.svc.batches.insert(0, self)
        if self.svc.world is not None:
            await self.svc.world.suspend('batch_submit')

    async def cancel(self):
        if self.state in ('running', 'open'):
            self.state = 'cancelled'

    async def status(self):
        return {'state': self.state, 'complete': self.state in ('success', 'failure', 'cancelled'), 'id': self._fid}


class FakeBatchClient:
    def __init__(self):
        self.batches = []
        self.n = 0
        self.world = None

    def create_batch(self, attributes=None, callback=None, **k):
        return FakeBatch(self, attributes or {})

    def list_batches(self, q):
        toks = q.split()
        sel = []
        for b in self.batches:
            ok = True
            for t in toks:
                if t == 'user:ci':
                    continue
                if t == '!complete':
                    ok = ok and b.state == 'running'
                elif t == '!open':
                    ok = ok and b.state != 'open'
                elif '=' in t:
                    k, val = t.split('=', 1)
                    ok = ok and str(b.attributes.get(k)) == val
                else:
                    raise HarnessError(f'unmodelled batch query token {t!r}')
            if ok:
                sel.append(b)

        async def it():
            if self.world is not None:
                await self.world.suspend('list_batches')
            for b in sel:
                yield b
        return it()


class FakeDB:
    async def execute_and_fetchone(self, sql, *a):
        if 'authorized_shas' in sql:
            return {'sha': a[0]}
        if 'invalidated_batches' in sql:
            return None
        raise HarnessError(f'unmodelled SQL {sql!r}')

    async def select_and_fetchone(self, sql, *a):
        return None

    async def execute_insertone(self, *a):
        return None


class FakeGitHub:
    def __init__(self, npr):
        self.ncommit = 0
        self.target = self.fresh('t')
        self.prs = {}
        self.status = {}
        self.merges = []
        self.merge_attempts = 0
        self.graphql_pages = 0
        self.world = None
        self.clock = 1
        self.changed = {}      # component of the ground truth -> logical time of its last change
        for n in range(1, npr + 1):
            self.prs[n] = {'head': self.fresh('c'), 'labels': set(), 'review': 'REVIEW_REQUIRED', 'open': True,
                           'history': []}
            self.prs[n]['history'].append(self.prs[n]['head'])

    def fresh(self, p):
        self.ncommit += 1
        return f'{p}{self.ncommit}'

    def touch(self, *key):
        self.clock += 1
        self.changed[key] = self.clock

    # ---- REST / GraphQL surface used by ci.github
    async def _suspend(self, label):
        if self.world is not None:
            await self.world.suspend(label)

    async def getitem(self, url):
        if url == '/repos/o/r/git/refs/heads/main':
            r = {'object': {'sha': self.target}}
            await self._suspend('getitem')      # the answer is on the wire: GitHub may change before CI reads it
            return r
        raise HarnessError(f'unmodelled GET {url}')

    def getiter(self, url):
        if url != '/repos/o/r/pulls?state=open&base=main':
            raise HarnessError(f'unmodelled GET {url}')
        items = [self._pr_json(n) for n, p in sorted(self.prs.items()) if p['open']]

        async def it():
            await self._suspend('getiter')
            for x in items:
                yield x
        return it()

    def _pr_json(self, n):
        p = self.prs[n]
        return {'number': n, 'title': f'pr {n}', 'body': None, 'user': {'login': 'someone'}, 'assignees': [],
                'requested_reviewers': [], 'labels': [{'name': l} for l in sorted(p['labels'])],
                'head': {'sha': p['head'], 'ref': f'b{n}', 'repo': {'owner': {'login': 'u'}, 'name': 'r'}}}

    def _val(self, x):
        return x.value() if isinstance(x, SEnum) else x

    async def post(self, url, data=None):
        if url == '/graphql':
            m = re.search(r'pullRequest \(number: (\d+)\)', data['query'])
            p = self.prs[int(m.group(1))]
            st = self.status.get(p['head'], {})
            # the contexts connection is served in pages exactly as the query asks: `first: N[, after: "<cursor>"]`
            q = data['query']
            mf = re.search(r'contexts \(first: (\d+)(?:, after: "([^"]*)")?\)', q)
            if not mf:
                raise HarnessError('GraphQL query no longer pages the status contexts with first/after')
            first, after = int(mf.group(1)), mf.group(2)
            allctx = sorted(st.items())
            lo = 0 if after is None else int(after)
            hi = min(len(allctx), lo + first)
            self.graphql_pages += 1
            nodes = [{'__typename': 'StatusContext', 'context': c, 'state': self._val(s), 'isRequired': True}
                     for c, s in allctx[lo:hi]]
            rollup = None if not allctx else {'contexts': {'nodes': nodes, 'pageInfo': {
                'hasNextPage': hi < len(allctx), 'endCursor': str(hi)}}}
            r = {'data': {'repository': {'pullRequest': {
                'reviewDecision': self._val(p['review']),
                'commits': {'nodes': [{'commit': {'statusCheckRollup': rollup}}]}}}}}
            await self._suspend('graphql')
            return r
        m = re.fullmatch(r'/repos/o/r/statuses/(\w+)', url)
        if m:
            self.status.setdefault(m.group(1), {})[data['context']] = data['state'].upper()
            self.touch('status', m.group(1), data['context'])
            await self._suspend('post_status')
            return {}
        raise HarnessError(f'unmodelled POST {url}')

    async def put(self, url, data=None):
        m = re.fullmatch(r'/repos/o/r/pulls/(\d+)/merge', url)
        if not m:
            raise HarnessError(f'unmodelled PUT {url}')
        n = int(m.group(1))
        p = self.prs[n]
        self.merge_attempts += 1
        await self._suspend('put')              # the merge request is on the wire
        # GitHub's documented rule: `sha` is optional; when given it must equal the PR's current head, else 409
        # "Head branch was modified"; without it GitHub merges whatever the head is now
        if not p['open'] or ('sha' in (data or {}) and data['sha'] != p['head']):
            raise HTTPException(409)
        if not choose(f'gh_accepts_merge_{self.merge_attempts}', [True, False]):
            raise HTTPException(405)
        self.merges.append({'pr': n, 'head': p['head'], 'requested_sha': (data or {}).get('sha'),
                            'target_before': self.target, 'labels': set(p['labels']),
                            'review': p['review'], 'status': dict(self.status.get(p['head'], {}))})
        p['open'] = False
        self.target = self.fresh('t')
        self.touch('target')
        return {}


class _BuildConfiguration:
    def __init__(self, code, text, scope=None):
        pass

    def namespace(self):
        return 'ns'

    def deployed_services(self):
        return []

    def build(self, batch, code, scope=None):
        pass


def flood(gh, n, m):
    """Other CI systems have reported `m` further required contexts chk00… on PR n's head commit: all SUCCESS except
    possibly one, at the symbolic position flood_pos (== m: none) with the symbolic state flood_state."""
    pos, bad = z3.Int('flood_pos'), z3.Int('flood_state')
    st = gh.status.setdefault(gh.prs[n]['head'], {})
    for j in range(m):
        st[f'chk{j:02d}'] = SEnum(z3.If(pos == j, bad, z3.IntVal(0)), STATES)


PHASES = ['getitem', 'getiter', 'graphql', 'list_batches', 'post_status', 'batch_submit', 'put']
INTR_KINDS = ['label', 'review', 'status', 'push', 'target_move', 'batch_done']


def truth_of(gh, n):
    p = gh.prs[n]
    return {'head': p['head'], 'labels': set(p['labels']), 'review': p['review'],
            'status': dict(gh.status.get(p['head'], {})), 'target': gh.target}


class World:
    def __init__(self, npr, intr=None):
        self.gh = FakeGitHub(npr)
        self.bc = FakeBatchClient()
        self.gh.world = self
        self.bc.world = self
        self.intr = intr          # {'budget': n, 'phases': [...], 'kinds': [...]} or None (atomic updates)
        self.intr_used = 0
        self.hook_no = 0
        self.depth = 0
        self.run_id = 0
        self.delivering = False
        self.run_phases = set()
        self.run_start_clock = 0
        self.inflight = 0
        self.pending_github_notification = False
        self.db = FakeDB()
        self.wb = G.WatchedBranch(0, G.FQBranch(G.Repo('o', 'r'), 'main'), deployable=False, mergeable=True, developers=[])
        self.merge_seen = []      # what CI believed at each accepted merge (for the staleness oracle)
        self.updates = 0
        self.aborted_updates = []
        self.conflict_next = False
        self.trace = []

        async def noop(*a, **k):
            return None

        async def sha_out(*a, **k):
            if self.conflict_next:
                self.conflict_next = False
                raise RuntimeError('merge conflict')
            return (b'merged\n', b'')

        G.check_shell = noop
        G.check_shell_output = sha_out
        G.open = lambda *a, **k: io.StringIO('')
        G.BuildConfiguration = _BuildConfiguration
        G.add_deployed_services = noop
        real_put = self.gh.put

        async def put(url, data=None):
            before = len(self.gh.merges)
            r = await real_put(url, data)
            if len(self.gh.merges) > before:
                n = self.gh.merges[-1]['pr']
                pr = self.wb.prs[n]
                self.merge_seen.append({'pr': n, 'update': self.run_id, 'run_start_clock': self.run_start_clock, 'changed': dict(self.gh.changed),
                                        'batch': pr.batch, 'wb_sha': self.wb.sha, 'source_sha': pr.source_sha})
            return r
        self.gh.put = put

    async def suspend(self, label):
        """A point where the running update waits for GitHub / batch.  While it waits the director may deliver one more
        event: the external change plus the webhook it triggers (the real notify_* — which finds `updating` set)."""
        if (self.intr is None or self.depth == 0 or self.delivering or self.intr_used >= self.intr['budget']
                or label not in self.intr['phases'] or label in self.run_phases):
            return
        self.run_phases.add(label)
        self.hook_no += 1
        if not choose(f'intr{self.hook_no}', [False, True]):
            return
        self.intr_used += 1
        self.delivering = True
        try:
            kind = apply_event(self, f'in{self.hook_no}', self.intr['kinds'], during=label)
            if kind is not None:
                self.inflight += 1
                await self.ci(kind)
        finally:
            self.delivering = False

    async def ci(self, kind):
        self.updates += 1
        outer = self.depth == 0
        if outer:
            self.run_id += 1
            self.run_phases = set()
            self.gh.clock += 1
            self.run_start_clock = self.gh.clock
        self.depth += 1
        try:
            if kind == 'github':
                await self.wb.notify_github_changed(self.db, self.bc, self.gh, False)
            elif kind == 'batch':
                await self.wb.notify_batch_changed(self.db, self.bc, self.gh, False)
            else:
                await self.wb.update(self.db, self.bc, self.gh, False)
        except AssertionError as e:
            # the service logs the failed update (webhook answers 500 / update_loop logs) and carries on
            self.aborted_updates.append((self.updates, repr(e)[:120]))
        finally:
            self.depth -= 1


EVENTS = ['push', 'review', 'label', 'status', 'batch_done', 'target_move', 'poll', 'push_late']


def apply_event(w, tag, events, during=None):
    """One external event (a solver choice among those applicable): changes the ground truth and returns which webhook
    it triggers ('github' | 'batch' | 'full'), or None when nothing is applicable."""
    open_prs = [n for n, p in sorted(w.gh.prs.items()) if p['open']]
    running = [b for b in w.bc.batches if b.state == 'running']
    applicable = [e for e in events if not (e in ('push', 'push_late', 'review', 'label', 'status') and not open_prs)
                  and not (e == 'batch_done' and not running)]
    if not applicable:
        return None
    ev = choose(f'{tag}', applicable)
    n = open_prs[0] if open_prs else 1
    if ev in ('push', 'push_late', 'review', 'label', 'status') and len(open_prs) > 1:
        n = choose(f'{tag}_pr', open_prs)
    p = w.gh.prs[n]
    note = (ev,) if during is None else (f'{ev} [while the update waits in {during}]',)
    if ev == 'push_late':
        # the author pushes, GitHub's head moves, but the webhook reaches CI only after the NEXT event was processed
        p['head'] = w.gh.fresh('c')
        p['history'].append(p['head'])
        w.gh.touch('head', n)
        w.pending_github_notification = True
        w.trace.append(note + (n, p['head'], 'webhook delayed'))
        return 'none'
    if ev == 'push':
        olds = p['history'][:-1]
        tgt = choose(f'{tag}_to', ['fresh'] + olds) if olds else 'fresh'
        p['head'] = w.gh.fresh('c') if tgt == 'fresh' else tgt
        p['history'].append(p['head'])
        w.gh.touch('head', n)
        w.trace.append(note + (n, p['head']))
        return 'github'
    if ev == 'review':
        p['review'] = SEnum(z3.Int(f'{tag}_decision'), DECISIONS)
        w.gh.touch('review', n)
        w.trace.append(note + (n, p['review']))
        return 'github'
    if ev == 'label':
        lab = choose(f'{tag}_label', ['WIP', 'stacked PR', 'prio:high'] if during is None else ['WIP'])
        p['labels'] ^= {lab}
        w.gh.touch('labels', n)
        w.trace.append(note + (n, lab))
        return 'github'
    if ev == 'status':
        commits = list(dict.fromkeys(p['history']))
        c = choose(f'{tag}_commit', commits[::-1]) if len(commits) > 1 else commits[0]
        ctx = choose(f'{tag}_ctx', [OTHER, CTX])
        w.gh.status.setdefault(c, {})[ctx] = SEnum(z3.Int(f'{tag}_state'), STATES)
        w.gh.touch('status', c, ctx)
        w.trace.append(note + (n, c, ctx))
        return 'github'
    if ev == 'batch_done':
        b = choose(f'{tag}_batch', running) if len(running) > 1 else running[0]
        b.state = choose(f'{tag}_result', ['success', 'failure'])
        w.trace.append(note + (b.id, b.state))
        return 'batch'
    if ev == 'target_move':
        w.gh.target = w.gh.fresh('t')
        w.gh.touch('target')
        w.trace.append(note + (w.gh.target,))
        return 'github'
    w.trace.append(note)
    return 'full'


async def history(npr, k, events=EVENTS, flood_sizes=None, intr=None):
    """Initial full update, then k events, each a solver choice, each followed by the webhook-triggered update.
    With `intr`, up to intr['budget'] further events are delivered WHILE an update is suspended in a fake API call."""
    w = World(npr, intr)
    if flood_sizes:
        m = choose('flood_m', list(flood_sizes))
        w.flood_m = m
        flood(w.gh, 1, m)
    for n, p in sorted(w.gh.prs.items()):
        p['review'] = choose(f'init_review_{n}', ['REVIEW_REQUIRED', 'APPROVED'])
    await w.ci('full')
    for step in range(k):
        late = w.pending_github_notification
        kind = apply_event(w, f'ev{step}', events)
        if kind is not None and kind != 'none':
            await w.ci(kind)
        if late and w.pending_github_notification:
            w.pending_github_notification = False
            w.trace.append(('delayed push webhook arrives',))
            await w.ci('github')
    if w.pending_github_notification:
        w.pending_github_notification = False
        w.trace.append(('delayed push webhook arrives',))
        await w.ci('github')
    return w


def judge(w):
    """-> list of (description, z3 formula 'this accepted merge violates the property') for the finished world.

    A component of the gate (approval, labels, each status context of the merged head, the batch/target pair) counts
    against a merge when GitHub's truth violates it AT THE MOMENT OF THE MERGE and its last change happened BEFORE THE
    MERGING UPDATE RUN STARTED.  Every change is notified at once in this model, so CI had acknowledged that
    notification (the webhook handler had returned) before it began the run that merged: "merges only if …" was then
    decided on information CI had been told is outdated.  The merged COMMIT is judged unconditionally: GitHub's head at
    the moment of the merge must be the commit CI verified (the merge endpoint's `sha` guard makes that enforceable),
    and statuses / batch are those of that commit.  A change of review, labels, a status or the target that arrives
    while the merging run itself is in flight is the unavoidable race with GitHub and is tolerated (counted in World.inflight_merges).  With atomic
    updates every change precedes the run, and this is the plain 'truth at merge time' oracle."""
    bad = []
    per_update = {}
    w.inflight_merges = 0
    for m, seen in zip(w.gh.merges, w.merge_seen):
        per_update[seen['update']] = per_update.get(seen['update'], 0) + 1
        n, head, t0, ch = m['pr'], m['head'], seen['run_start_clock'], seen['changed']
        rv, st = m['review'], m['status']
        bad.append((f'merge of pr {n}: GitHub merged head {head} but CI had verified {seen["source_sha"]} (merge request '
                    f'carried sha={m["requested_sha"]})', z3.BoolVal(head != seen['source_sha'])))
        comps = [('not approved', z3.Not(rv.is_('APPROVED')) if isinstance(rv, SEnum) else z3.BoolVal(rv != 'APPROVED'),
                  [('review', n)]),
                 ('do-not-merge label', z3.BoolVal(any(l in DO_NOT_MERGE for l in m['labels'])), [('labels', n)]),
                 ('no status on the merged head commit', z3.BoolVal(len(st) == 0), [])]
        for c, s in st.items():
            comps.append((f'status {c} of the merged head commit is not success',
                          z3.Not(s.is_('SUCCESS')) if isinstance(s, SEnum) else z3.BoolVal(s != 'SUCCESS'),
                          [('status', head, c)]))
        b = seen['batch']
        okb = (b is not None and isinstance(b, FakeBatch) and b.state == 'success'
               and b.attributes.get('source_sha') == head and b.attributes.get('target_sha') == m['target_before'])
        comps.append(('test batch did not succeed on (merged head, current target commit)', z3.BoolVal(not okb),
                      [('target',)]))
        for what, f, keys in comps:
            known_before_run = all(ch.get(k, 0) < t0 for k in keys)
            if not known_before_run:
                if not z3.is_false(z3.simplify(f)):
                    w.inflight_merges += 1
                continue
            bad.append((f'merge of pr {n} ({head} onto {m["target_before"]}): {what} — at merge time, unchanged since '
                        f'before the merging update started', f))
    for u, cnt in per_update.items():
        bad.append((f'{cnt} merges within one update', z3.BoolVal(cnt > 1)))
    targets = [m['target_before'] for m in w.gh.merges]
    bad.append(('two merges onto the same target commit', z3.BoolVal(len(targets) != len(set(targets)))))
    return bad


def domain_constraints(k, hooks=0):
    c = []
    for tag in [f'ev{step}' for step in range(k)] + [f'in{j}' for j in range(1, hooks + 1)]:
        d, s = z3.Int(f'{tag}_decision'), z3.Int(f'{tag}_state')
        c += [d >= 0, d < len(DECISIONS), s >= 0, s < len(STATES)]
    return c


def explore_history(npr, k, constraints=(), events=EVENTS, max_paths=400000, flood_sizes=None, intr=None):
    cons = domain_constraints(k, 12 * (k + 1) if intr else 0) + list(constraints)
    if flood_sizes:
        pos, bad = z3.Int('flood_pos'), z3.Int('flood_state')
        cons += [pos >= 0, pos <= max(flood_sizes), bad >= 0, bad < len(STATES)]
    ex = natsym.Explorer(constraints=cons, max_paths=max_paths, max_decisions=4000)
    outs = ex.run(lambda: history(npr, k, events, flood_sizes, intr))
    return outs, ex
