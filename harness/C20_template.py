"""Generates the CrossHair condition functions for C20 (CrossHair reads contracts from source text)."""

HEAD = 'from harness import C20_gather as H\n'

COND = '''
def {NAME}(perm: int, {ARGS}) -> bool:
    """
    pre: {LO} <= perm < {HI}
    pre: {PRE}
    post: _
    """
    return H.violated({MODE!r}, {HOLDER}, {P}, {N}, perm, [{OUTS}], [{DRAINS}], [{VALS}], {EXC}) == 0
'''

TWIN = '''
def {NAME}(perm: int, {ARGS}) -> bool:
    """
    pre: {LO} <= perm < {HI}
    pre: {PRE}
    post: _
    """
    # reachability twin: must be REFUTED (some schedule reaches the end of the oracle with a worker exception raised)
    return not H.reach({MODE!r}, {HOLDER}, {P}, {N}, perm, [{OUTS}], [{DRAINS}], [{VALS}])
'''


def cond_name(mode, holder, P, n, lo, hi, exc):
    return f'c_{mode}_{"h" if holder else "n"}_{P}_{n}_p{lo}_{hi}_x{exc}'


def twin_name(mode, holder, P, n, lo, hi):
    return f't_{mode}_{"h" if holder else "n"}_{P}_{n}_p{lo}_{hi}'


def _kw(mode, holder, P, n, lo, hi, dmax):
    o = [f'o{i}' for i in range(n)]
    d = [f'd{i}' for i in range(n - 1)]
    v = [f'v{i}' for i in range(n)]
    pre = ' and '.join([f'0 <= {x} <= 1' for x in o] + [f'0 <= {x} <= {dmax}' for x in d])
    return dict(ARGS=', '.join(f'{x}: int' for x in o + d + v), PRE=pre, LO=lo, HI=hi, MODE=mode,
                HOLDER=holder, P=P, N=n, OUTS=', '.join(o), DRAINS=', '.join(d), VALS=', '.join(v))


def argnames(n):
    return ['perm'] + [f'o{i}' for i in range(n)] + [f'd{i}' for i in range(n - 1)] + [f'v{i}' for i in range(n)]


def source(conds, twins, dmax):
    """conds: list of (mode, holder, P, n, lo, hi, excused_mask); twins: list of (mode, holder, P, n, lo, hi)"""
    out = [HEAD]
    for mode, holder, P, n, lo, hi, exc in conds:
        out.append(COND.format(NAME=cond_name(mode, holder, P, n, lo, hi, exc), EXC=exc,
                               **_kw(mode, holder, P, n, lo, hi, dmax)))
    for mode, holder, P, n, lo, hi in twins:
        out.append(TWIN.format(NAME=twin_name(mode, holder, P, n, lo, hi), **_kw(mode, holder, P, n, lo, hi, dmax)))
    return '\n'.join(out)
