"""Generates the CrossHair condition functions for C20 (CrossHair reads contracts from source text).

A condition is described by a tuple  (mode, holder, P, n, lo, hi, fam, omax, dmax, umax):
  lo..hi   range of the resolve-order index explored by this shard
  fam      'S' no outer cancellation (cpoint = NEVER) / 'C' the caller is cancelled at a symbolic point
  omax     per-resolution outcomes 0..omax (1: value/exception, 2: also the worker's own CancelledError)
  dmax     drain choices 0..dmax between resolutions; -1: always drain until quiescent (not symbolic)
  umax     worker unwind turns 0..umax
"""

HEAD = 'from harness import C20_gather as H\n'

COND = '''
def {NAME}(perm: int, {ARGS}) -> bool:
    """
    pre: {LO} <= perm < {HI}
    pre: {PRE}
    post: _
    """
    return H.violated({MODE!r}, {HOLDER}, {P}, {N}, perm, [{OUTS}], [{DRAINS}], [{VALS}], {CP}, {CD}, {UW}, {EXC}) == 0
'''

TWIN = '''
def {NAME}(perm: int, {ARGS}) -> bool:
    """
    pre: {LO} <= perm < {HI}
    pre: {PRE}
    post: _
    """
    # reachability twin: must be REFUTED (family S: some schedule ends with a worker exception raised; family C: the
    # outer cancel takes effect while a worker is inside its body)
    return not H.reach({MODE!r}, {HOLDER}, {P}, {N}, perm, [{OUTS}], [{DRAINS}], [{VALS}], {CP}, {CD}, {UW})
'''


OCOND = '''
def {NAME}({ARGS}) -> bool:
    """
    pre: {PRE}
    post: _
    """
    return H.program_violated({P}, {N}, [{STEPS}], [{DRAINS}], [{VALS}], uw, {OMAX}, {ALLOWC}, {EXC}, {ALLOWX}) == 0
'''

OTWIN = '''
def {NAME}({ARGS}) -> bool:
    """
    pre: {PRE}
    post: _
    """
    # reachability twin: must be REFUTED (a valid program with a pool.call after an earlier task completed runs to the end)
    return not H.program_reach({P}, {N}, [{STEPS}], [{DRAINS}], [{VALS}], uw, {OMAX}, {ALLOWC}, {ALLOWX})
'''


def fam_fixed2(c):
    """family O shards with two fixed leading steps carry hi = 1000 + second step code"""
    return c[6].startswith('O') and c[5] >= 1000


def is_program(c):
    return c[6].startswith('O')


def _okw(c, twin):
    """family O: c = ('online', True, P, n, a0, a0 + 1, 'O<k>' or 'O<k>c', omax, dmax, umax); a0 = fixed first step code,
    or -1 (twin: first step symbolic too).  dmax -1 / -2: one symbolic drain mode for the whole schedule (none / quiescent [/ one tick]);
    >= 0: one symbolic drain choice 0..dmax per step."""
    mode, holder, P, n, a0, _, fam, omax, dmax, umax = c
    k = int(fam[1:].rstrip('cx'))
    allowc = 'c' in fam
    allowx = 'x' in fam
    end = 4 + 4 * n + (3 if allowx else 0)
    first = 0 if (a0 >= 0 and not twin) else -1
    a1 = c[5] - 1000 if (first == 0 and fam_fixed2(c)) else -1
    a = [f'a{j}' for j in range((2 if a1 >= 0 else 1) if first == 0 else 0, k)]
    v = [f'v{i}' for i in range(n)]
    d = ['dm'] if dmax < 0 else [f'd{j}' for j in range(k)]
    pre = [f'0 <= {x} <= {end}' for x in a] + [f'0 <= {x} <= {-dmax if dmax < 0 else dmax}' for x in d] + [f'0 <= uw <= {umax}']
    steps = ([str(a0)] if first == 0 else []) + ([str(a1)] if a1 >= 0 else []) + a
    return dict(ARGS=', '.join(f'{x}: int' for x in a + d + v + ['uw']), PRE=' and '.join(pre), P=P, N=n,
                STEPS=', '.join(steps), DRAINS=', '.join(['dm'] * k) if dmax < 0 else ', '.join(d), VALS=', '.join(v),
                OMAX=omax, ALLOWC=allowc, ALLOWX=allowx)


def _tag(c):
    mode, holder, P, n, lo, hi, fam, omax, dmax, umax = c
    return f'{mode}_{"h" if holder else "n"}_{P}_{n}_p{lo if lo >= 0 else "all"}_{hi}_{fam}o{omax}d{"q" if dmax < 0 else dmax}u{umax}'


def cond_name(c, exc):
    return f'c_{_tag(c)}_x{exc}'


def twin_name(c):
    return f't_{_tag(c)}'


def argnames(c):
    mode, holder, P, n, lo, hi, fam, omax, dmax, umax = c
    if is_program(c):
        k = int(fam[1:].rstrip('cx'))
        return ([f'a{j}' for j in range(2 if fam_fixed2(c) else 1, k)] + (['dm'] if dmax < 0 else [f'd{j}' for j in range(k)])
                + [f'v{i}' for i in range(n)] + ['uw'])
    a = ['perm'] + [f'o{i}' for i in range(n)]
    if dmax >= 0:
        a += [f'd{i}' for i in range(n - 1)]
    a += [f'v{i}' for i in range(n)]
    if fam == 'C':
        a += ['cp', 'cd']
    a.append('uw')
    return a


def _kw(c):
    mode, holder, P, n, lo, hi, fam, omax, dmax, umax = c
    o = [f'o{i}' for i in range(n)]
    d = [f'd{i}' for i in range(n - 1)] if dmax >= 0 else []
    v = [f'v{i}' for i in range(n)]
    pre = [f'0 <= {x} <= {omax}' for x in o] + [f'0 <= {x} <= {dmax}' for x in d] + [f'0 <= uw <= {umax}']
    extra = ['uw']
    if fam == 'C':
        pre += [f'0 <= cp <= {n}', '0 <= cd <= 2']
        extra = ['cp', 'cd', 'uw']
    return dict(ARGS=', '.join(f'{x}: int' for x in o + d + v + extra), PRE=' and '.join(pre), LO=lo, HI=hi, MODE=mode,
                HOLDER=holder, P=P, N=n, OUTS=', '.join(o), DRAINS=', '.join(d) if d else ', '.join(['1'] * (n - 1)),
                VALS=', '.join(v), CP='cp' if fam == 'C' else 'H.NEVER', CD='cd' if fam == 'C' else '0', UW='uw')


def source(conds, twins):
    """conds: list of (condition tuple, excused_mask); twins: list of condition tuples"""
    out = [HEAD]
    for c, exc in conds:
        if is_program(c):
            out.append(OCOND.format(NAME=cond_name(c, exc), EXC=exc, **_okw(c, False)))
        else:
            out.append(COND.format(NAME=cond_name(c, exc), EXC=exc, **_kw(c)))
    for c in twins:
        if is_program(c):
            out.append(OTWIN.format(NAME=twin_name(c), **_okw(c, True)))
        else:
            out.append(TWIN.format(NAME=twin_name(c), **_kw(c)))
    return '\n'.join(out)
