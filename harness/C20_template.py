"""Generates the CrossHair condition functions for C20 (CrossHair reads contracts from source text)."""
import math

HEAD = 'from harness import C20_gather as H\n'

COND = '''
def {NAME}(perm: int, {ARGS}) -> bool:
    """
    pre: 0 <= perm < {NPERM}
    pre: {PRE}
    post: _
    """
    return H.violated({MODE!r}, {HOLDER}, {P}, {N}, perm, [{OUTS}], [{DRAINS}], [{VALS}], {EXC}) == 0
'''

TWIN = '''
def {NAME}(perm: int, {ARGS}) -> bool:
    """
    pre: 0 <= perm < {NPERM}
    pre: {PRE}
    post: _
    """
    # reachability twin: must be REFUTED (some schedule reaches the end of the oracle with a worker exception raised)
    return not H.reach({MODE!r}, {HOLDER}, {P}, {N}, perm, [{OUTS}], [{DRAINS}], [{VALS}])
'''


def cond_name(mode, holder, P, n, exc):
    return f'c_{mode}_{"h" if holder else "n"}_{P}_{n}_x{exc}'


def twin_name(mode, holder, P, n):
    return f't_{mode}_{"h" if holder else "n"}_{P}_{n}'


def _kw(mode, holder, P, n, dmax):
    o = [f'o{i}' for i in range(n)]
    d = [f'd{i}' for i in range(n)]
    v = [f'v{i}' for i in range(n)]
    pre = ' and '.join([f'0 <= {x} <= 1' for x in o] + [f'0 <= {x} <= {dmax}' for x in d])
    return dict(ARGS=', '.join(f'{x}: int' for x in o + d + v), PRE=pre, NPERM=math.factorial(n), MODE=mode,
                HOLDER=holder, P=P, N=n, OUTS=', '.join(o), DRAINS=', '.join(d), VALS=', '.join(v))


def argnames(n):
    return ['perm'] + [f'o{i}' for i in range(n)] + [f'd{i}' for i in range(n)] + [f'v{i}' for i in range(n)]


def source(conds, twins, dmax):
    """conds: list of (mode, holder, P, n, excused_mask); twins: list of (mode, holder, P, n)"""
    out = [HEAD]
    for mode, holder, P, n, exc in conds:
        out.append(COND.format(NAME=cond_name(mode, holder, P, n, exc), EXC=exc, **_kw(mode, holder, P, n, dmax)))
    for mode, holder, P, n in twins:
        out.append(TWIN.format(NAME=twin_name(mode, holder, P, n), **_kw(mode, holder, P, n, dmax)))
    return '\n'.join(out)
