"""C09 client half, end to end: the REAL hailtop.batch_client.aioclient.Batch (create_job / create_job_group /
submit with every request optionally sent twice) talks to the REAL front-end handlers (vt.sqlsym.batchops.World on a
concrete emulated database).  The session's shape — how many jobs / groups per submit, the bunch size (fast path
vs multi-bunch path), which earlier job is a parent, which requests are retried — is chosen by vt.glue.choose, so
the explorer enumerates every feasible shape with z3 and each path is checked.
"""
import asyncio
import inspect
import json
import re

from vt import glue, loader
from vt.common import HarnessError
from vt.sqlsym import batchops as bo
from vt.sqlsym import model
from vt.sqlsym.interp import GLOBAL_S as S

_ac = None
OBSERVATIONS = []


def aioclient():
    global _ac
    if _ac is None:
        loader.install()
        from hailtop.batch_client import aioclient as ac

        class _Orjson:
            @staticmethod
            def dumps(o):
                return json.dumps(o).encode('utf-8')

            @staticmethod
            def loads(b):
                return json.loads(b)
        ac.orjson = _Orjson

        class _Payload:
            def __init__(self, value, **k):
                self._value = bytes(value)
        ac.aiohttp = type('A', (), {'BytesPayload': _Payload})()

        class _Task:
            def update(self, *a, **k):
                pass

        class _CM:
            def __init__(self, *a, **k):
                pass

            def __enter__(self):
                return _Task()

            def __exit__(self, *a):
                return False

        class _Progress:
            def __init__(self, *a, **k):
                pass

            def __enter__(self):
                return self

            def __exit__(self, *a):
                return False

            def with_task(self, *a, **k):
                return _CM()
        ac.BatchProgressBar = _Progress
        _ac = ac
    return _ac


class Resp:
    def __init__(self, body):
        self.body = body

    async def json(self):
        return self.body


ROUTES = [
    (r'^/api/v1alpha/batches/create-fast$', 'create_batch_fast'),
    (r'^/api/v1alpha/batches/create$', 'create_batch'),
    (r'^/api/v1alpha/batches/(?P<batch_id>\d+)/update-fast$', 'update_batch_fast'),
    (r'^/api/v1alpha/batches/(?P<batch_id>\d+)/updates/create$', 'create_update'),
    (r'^/api/v1alpha/batches/(?P<batch_id>\d+)/updates/(?P<update_id>\d+)/jobs/create$', 'create_jobs_for_update'),
    (r'^/api/v1alpha/batches/(?P<batch_id>\d+)/updates/(?P<update_id>\d+)/job-groups/create$', 'create_job_groups'),
    (r'^/api/v1alpha/batches/(?P<batch_id>\d+)/updates/(?P<update_id>\d+)/commit$', 'commit_update'),
]


class FakeClient:
    """stands in for BatchClient: delivers each request to the real handler; a request may be delivered twice
    (the first response is 'lost') when the shape says so"""
    billing_project = 'bp1'

    def __init__(self, world, fdb, retry):
        self.world = world
        self.fdb = fdb
        self.retry = retry
        self.n = 0
        self.log = []

    async def _deliver(self, url, body):
        fe, _ = bo.front_end()
        for pat, name in ROUTES:
            m = re.match(pat, url)
            if m:
                h = inspect.unwrap(getattr(fe, name))
                req = self.world.request(dict(m.groupdict()), body)
                req.app = self.world.app(self.fdb)
                self.world.job_resources = [('ic1', 1000)] * 16
                out = await h(req, dict(self.world.userdata))
                self.log.append((name, dict(m.groupdict())))
                return out
        raise HarnessError(f'C09 client harness: no route for {url}')

    async def _send(self, url, body):
        k = self.n
        self.n += 1
        if self.retry(k):
            await self._deliver(url, _clone(body))     # response lost; the client sends the same request again
            try:
                return Resp(await self._deliver(url, body))
            except Exception as e:
                # observation, outside C09's statement (nothing is duplicated): a re-sent job-group bunch is answered
                # with 400 "job group specs were not submitted in order" instead of being recognised as a repeat
                if 'job-groups/create' in url and 'not submitted in order' in str(getattr(e, 'reason', e)):
                    OBSERVATIONS.append('re-sent job-group bunch answered 400 (not recognised as a repeat)')
                    return Resp(None)
                raise
        return Resp(await self._deliver(url, body))

    async def _post(self, url, json=None, data=None, **kw):
        body = json if json is not None else _loads(data)
        return await self._send(url, body)

    async def _patch(self, url, json=None, **kw):
        return await self._send(url, json)


def _loads(payload):
    if payload is None:
        return None
    return json.loads(payload._value.decode('utf-8'))


def _clone(x):
    return json.loads(json.dumps(x)) if x is not None else None


async def session(db, choose, thorough=False, bunching=False):
    """One client session of two submits.  Returns a list of violations (strings)."""
    ac = aioclient()
    fe, _ = bo.front_end()
    world = bo.World(db)
    fdb = glue.make_fake_database(db, hooks=bo.HOOKS)
    saved = (fe.random, fe.time_msecs)

    class _R:
        @staticmethod
        def randint(a, b):
            return a
    fe.random = _R()
    fe.time_msecs = lambda: 0
    try:
        # at most one request of the session loses its response and is sent again (which one is a shape choice)
        retried = None if bunching else choose('retried_request', [None, 0, 1, 2, 3, 4, 5] if thorough else [None, 1, 3, 4])
        client = FakeClient(world, fdb, lambda k: k == retried)
        b = ac.Batch(client, None, token='tokA')
        created = []   # (handle, kind, update index, in-update index, parent handles)
        bad = []
        for submit in (1, 2):
            ng = choose(f's{submit}_n_groups', [0, 1, 2] if bunching else [0, 1])
            nj = choose(f's{submit}_n_jobs', [1, 2]) if thorough else (2 if submit == 1 else 1)
            groups = []
            for gi in range(ng):
                # with the byte limit in play the group specs are padded to about the size of a job spec, so that no two
                # specs of either kind fit into one bunch together
                groups.append(b.create_job_group(callback='http://cb/' + 'x' * 400) if bunching else b.create_job_group())
            for ji in range(nj):
                parents = []
                earlier = [c[0] for c in created if c[1] == 'job']
                if earlier and not bunching and (thorough or ji == nj - 1) and choose(f's{submit}_j{ji}_has_parent', [False, True]):
                    parents = [earlier[-1]]
                jg = groups[0] if groups and (thorough or ji == 0) and choose(f's{submit}_j{ji}_in_new_group', [False, True]) else None
                maker = jg if jg is not None else b
                j = maker.create_job('ubuntu', ['true'], parents=parents, resources={'cpu': '1', 'memory': 'standard', 'storage': '0'})
                created.append((j, 'job', submit, ji + 1, parents, jg))
            for gi, g in enumerate(groups):
                created.append((g, 'group', submit, gi + 1, [], None))
            size = choose(f's{submit}_max_bunch_size', [1, 1000])
            kw = {}
            if bunching and choose(f's{submit}_bytes_limit_cuts', [False, True]):
                # the BYTE limit, not the count limit, splits the bunches: every spec fits alone, no two fit together
                lens = [len(ac.orjson.dumps(sp)) for sp in list(b._job_group_specs) + list(b._job_specs)]
                if lens:
                    kw['max_bunch_bytesize'] = max(lens) + 24
            await b.submit(max_bunch_size=size, disable_progress_bar=True, **kw)
            # compare the ids the client computed with what the server recorded
            upd = db.t['batch_updates'].rows.get((1, submit))
            if upd is None or upd.present is not True:
                bad.append(f'submit {submit}: no update {submit} row on the server')
                continue
            sj, sg = upd.vals['start_job_id'].v, upd.vals['start_job_group_id'].v
            for h, kind, sub, idx, parents, jg in created:
                if sub != submit:
                    continue
                if kind == 'job':
                    want = sj + idx - 1
                    if h._job_id != want:
                        bad.append(f'submit {submit}: client job id {h._job_id} != server id {want} (in-update index {idx})')
                    row = db.t['jobs'].rows.get((1, want))
                    if row is None or row.present is not True or row.vals['update_id'].v != submit:
                        bad.append(f'submit {submit}: server has no job {want} in update {submit}')
                    else:
                        got = sorted(k[2] for k, r in db.t['job_parents'].rows.items() if k[1] == want and r.present is True)
                        exp = sorted(p._job_id for p in parents)
                        if got != exp:
                            bad.append(f'submit {submit}: job {want} parents on server {got} != client {exp}')
                        if jg is not None and row.vals['job_group_id'].v != jg._job_group_id:
                            bad.append(f'submit {submit}: job {want} group on server {row.vals["job_group_id"].v} != client {jg._job_group_id}')
                else:
                    want = sg + idx - 1
                    if h._job_group_id != want:
                        bad.append(f'submit {submit}: client job group id {h._job_group_id} != server id {want}')
                    row = db.t['job_groups'].rows.get((1, want))
                    if row is None or row.present is not True:
                        bad.append(f'submit {submit}: server has no job group {want}')
            njobs = sum(1 for k, r in db.t['jobs'].rows.items() if r.present is True)
            if njobs != sum(1 for c in created if c[1] == 'job'):
                bad.append(f'submit {submit}: server holds {njobs} jobs, client created {sum(1 for c in created if c[1] == "job")}')
        return bad
    finally:
        fe.random, fe.time_msecs = saved


def explore(thorough=False, max_paths=20000, bunching=False):
    """Enumerate every shape with the z3-driven explorer; returns (n_paths, [(choices, violations)])."""
    sizes = model.Sizes(J=4, G=5 if bunching else 3, U=2, I=1, A=1, T=1, IC=1)
    pre = model.empty_db(sizes)
    pre.concrete_env = lambda name, arg: 0
    ex = glue.Explorer([], max_paths=max_paths, max_decisions=60)
    results = []

    def body(db):
        async def run():
            return await session(db, lambda name, opts: glue.choose(name, opts), thorough, bunching)
        return run()
    outs = ex.run(pre, body)
    for o in outs:
        if o.exc is not None:
            results.append((o.pc, [f'session raised {type(o.exc).__name__}: {o.exc}']))
        elif o.value:
            results.append((o.pc, o.value))
    return len(outs), results, ex.choice_vars


def replay_choices(values, thorough=False, bunching=False):
    sizes = model.Sizes(J=4, G=5 if bunching else 3, U=2, I=1, A=1, T=1, IC=1)
    db = model.empty_db(sizes)
    db.concrete_env = lambda name, arg: 0
    loop = asyncio.new_event_loop()
    try:
        return loop.run_until_complete(session(db, lambda name, opts: opts[values.get(name, 0)], thorough, bunching))
    finally:
        loop.close()
