"""C31 engine half (MODEL-LEVEL: there is no Scala compiler here).

The IRLexer identifier rule is extracted from the Scala source text at run time:
  * Parser.scala: `def identifier = backtickLiteral | ident`, `quotedLiteral` (delimiter, backslash handling,
    `val escapeChars = "…".toSet`, result `unescapeString(sb.result())`);
  * StringEscapeUtils.scala `unescapeString`: the `case 'x' => sb += 'y'` arms and the `\\u` + 4 hex digits rule;
  * JavaTokenParsers.ident = isJavaIdentifierStart isJavaIdentifierPart* on UTF-16 chars — the two character
    classes are tabulated by the installed JDK (vt.strlang_ext.jvm_char_tables) and restricted to the BMP.
`lex_identifier` is a concrete evaluation of exactly that extracted rule; the regular languages below are
its accept language.  Counterexamples are replayed on the REAL Python emitters (escape_parsable for type
strings, escape_id for IR identifiers) and on `lex_identifier`."""
import ast
import re
import time

import z3

from vt import loader, strlang
from vt import strlang_ext as sx
from vt.common import HarnessError
from vt.strlang_ext import ALL, EPS, Rx, alt, cat, cset, inter, lit, loop, nset, opt, rng, star

PARSER = 'hail/hail/src/is/hail/expr/ir/Parser.scala'
ESCUTILS = 'hail/hail/utils/src/is/hail/utils/StringEscapeUtils.scala'
MISC_PY = 'hail/python/hail/utils/misc.py'


def scala_string_literal(tok):
    """value of a Scala "…" literal with the standard escapes"""
    body = tok[1:-1]
    out = []
    i = 0
    esc = {'\\': '\\', '"': '"', "'": "'", 'n': '\n', 't': '\t', 'r': '\r', 'b': '\b', 'f': '\f'}
    while i < len(body):
        c = body[i]
        if c == '\\':
            out.append(esc[body[i + 1]])
            i += 2
        else:
            out.append(c)
            i += 1
    return ''.join(out)


def scala_char_literal(tok):
    return scala_string_literal('"' + tok[1:-1] + '"')


def extract_lexer():
    text = loader.read(PARSER)
    m = re.search(r'object IRLexer extends JavaTokenParsers \{(.*?)\n\}\n', text, re.S)
    if not m:
        raise HarnessError('IRLexer not found in Parser.scala')
    lx = m.group(1)
    need = [r'def identifier = backtickLiteral \| ident', r"def backtickLiteral: Parser\[String\] = quotedLiteral\('`'",
            r'if \(r\.atEnd \|\| r\.first != delim\)', r'if \(c == delim\)', r"if \(c == '\\\\'\)", r'if \(!escapeChars\.contains\(d\)\)',
            r'Success\(unescapeString\(sb\.result\(\)\), r\)', r'handleWhiteSpace\(source, offset\)']
    for pat in need:
        if not re.search(pat, lx):
            raise HarnessError(f'IRLexer no longer has the modelled shape (missing /{pat}/)')
    m2 = re.search(r'val escapeChars = ("(?:[^"\\]|\\.)*")\.toSet', lx)
    if not m2:
        raise HarnessError('escapeChars not found')
    escape_chars = set(scala_string_literal(m2.group(1)))
    ut = loader.read(ESCUTILS)
    m3 = re.search(r'def unescapeString\(str: String, sb: StringBuilder\): String = \{(.*?)\n  \}\n', ut, re.S)
    if not m3:
        raise HarnessError('unescapeString not found')
    body = m3.group(1)
    arms = {}
    for a, b in re.findall(r"case ('(?:[^'\\]|\\.)') => sb \+= ('(?:[^'\\]|\\.)')", body):
        arms[scala_char_literal(a)] = scala_char_literal(b)
    if not re.search(r"case 'u' => inUnicode = true", body) or not re.search(r'if \(unicode\.length == 4\)', body) \
            or not re.search(r'Integer\.parseInt\(unicode\.toString\(\), 16\)', body) \
            or not re.search(r'case _ => fatal\(', body):
        raise HarnessError('unescapeString no longer has the modelled shape')
    return {'escape_chars': escape_chars, 'arms': arms, 'lexer_text': lx, 'unescape_text': body}


class LexError(Exception):
    pass


def _in(rs, cp):
    return strlang.rs_contains(rs, cp)


def lex_identifier(text, L, tabs):
    """concrete evaluation of `identifier = backtickLiteral | ident` at the start of `text` (after whitespace).
    Returns (name, rest).  Raises LexError where the Scala code returns Failure / calls fatal."""
    s = text.lstrip(' \t\r\n\f')
    if s.startswith('`'):
        i = 1
        sb = []
        while True:
            if i >= len(s):
                raise LexError('unterminated backtick identifier')
            c = s[i]
            i += 1
            if c == '`':
                break
            sb.append(c)
            if c == '\\':
                if i >= len(s):
                    raise LexError('unterminated backtick identifier')
                d = s[i]
                if d not in L['escape_chars']:
                    raise LexError(f'invalid escape character {d!r}')
                sb.append(d)
                i += 1
        return unescape_string(''.join(sb), L), s[i:]
    # JavaTokenParsers.ident on UTF-16 chars: astral characters are surrogate pairs, never identifier chars
    if not s or ord(s[0]) > 0xFFFF or not _in(tabs['identStart'], ord(s[0])):
        raise LexError('identifier expected')
    i = 1
    while i < len(s) and ord(s[i]) <= 0xFFFF and _in(tabs['identPart'], ord(s[i])):
        i += 1
    return s[:i], s[i:]


def unescape_string(x, L):
    out = []
    had = False
    inu = False
    uni = ''
    # the Scala code walks UTF-16 chars; the escapes are ASCII so walking code points is equivalent here
    for ch in x:
        if inu:
            uni += ch
            if len(uni) == 4:
                if not re.fullmatch(r'[+-]?[0-9a-fA-F]+', uni):
                    raise LexError(f'Unable to parse unicode value: {uni}')
                v = int(uni, 16)
                out.append(chr(v % 65536) if not 0xD800 <= v % 65536 <= 0xDFFF else '�')
                uni = ''
                inu = False
                had = False
        elif had:
            had = False
            if ch == 'u':
                inu = True
            elif ch in L['arms']:
                out.append(L['arms'][ch])
            else:
                raise LexError(f'invalid string escape character {ch!r}')
        elif ch == '\\':
            had = True
        else:
            out.append(ch)
    if had:
        out.append('\\')
    return ''.join(out)


def lexes_as(text, name, L, tabs):
    """does the emitted identifier text, followed by a delimiter, lex as one identifier denoting `name`?"""
    try:
        got, rest = lex_identifier(text + ':', L, tabs)
    except LexError as e:
        return False, f'lexer rejects: {e}'
    if rest != ':':
        return False, f'lexer splits the token: identifier {got!r}, rest {rest!r}'
    if got != name:
        return False, f'lexer reads name {got!r}'
    return True, ''


# ---- escape_id / escape_str model (IR identifiers) ----------------------------------------------------------------
def escid_model(c):
    """per-code-point body of escape_str(s, backticked=True) (validated against the real function)"""
    if c > 0x7f:
        return '\\u%04X' % c
    if c < 32:
        m = {8: '\\b', 10: '\\n', 9: '\\t', 12: '\\f', 13: '\\r'}
        return m[c] if c in m else '\\u%04X' % c
    if c == 0x60:
        return '\\`'
    if c == 0x5c:
        return '\\\\'
    return chr(c)


def engine_half(R, m, names):
    from harness import C31_names as N
    J = m.J
    from hail.utils import misc as M
    t0 = time.time()
    L = extract_lexer()
    R.encode(f'{PARSER} IRLexer (identifier rule, escapeChars extracted)', L['lexer_text'])
    R.encode(f'{ESCUTILS} unescapeString (arms extracted)', L['unescape_text'])
    node, seg, _ = strlang.load_function(loader.src(MISC_PY), 'escape_id')
    R.encode(f'{MISC_PY}:{node.lineno} escape_id', seg)
    node, seg, _ = strlang.load_function(loader.src(MISC_PY), 'escape_str')
    R.encode(f'{MISC_PY}:{node.lineno} escape_str', seg)
    d = ast.unparse(ast.parse(seg))
    idsrc = ast.unparse(strlang.load_function(loader.src(MISC_PY), 'escape_id')[0])
    mm = re.search(r"re\.fullmatch\((r?'[^']*'), s\)", idsrc)
    if not mm or 'escape_str(s, backticked=True)' not in idsrc:
        raise HarnessError('escape_id no longer has the modelled shape')
    id_simple_pat = ast.literal_eval(mm.group(1))
    tabs = sx.jvm_char_tables()
    for k in ('identStart', 'identPart'):
        tabs[k] = [(lo, min(hi, 0xFFFF)) for lo, hi in tabs[k] if lo <= 0xFFFF]
    R.sample({'engine': {'escapeChars': ''.join(sorted(L['escape_chars'])), 'unescape_arms': L['arms'], 'jdk': tabs.get('version'),
                         'escape_id_simple_pattern': id_simple_pat}})
    R.assume('ENGINE HALF IS MODEL-LEVEL: the lexer rule is extracted from the Scala source text and evaluated by '
             'harness/C31_engine.py; no Scala code runs',
             'JavaTokenParsers.ident is isJavaIdentifierStart isJavaIdentifierPart* over UTF-16 chars (astral characters are '
             'never identifier characters); tables come from the installed JDK',
             'Integer.parseInt accepts an optional sign in the 4 \\u characters (modelled) and non-ASCII Unicode digits (not modelled)',
             'escape_id / escape_str are NOT modelled: the per-code-point escape is tabulated from the real escape_id over all code '
             'points each run and the emitted-token language is built from the shapes found (\\u + k hex digits per position)')

    # ---- languages -----------------------------------------------------------------------------------------------
    # stage 1 (quotedLiteral): after a backslash any escapeChars member is taken verbatim, a raw delimiter ends the token;
    # stage 2 (unescapeString on the collected text): `\\` + arm character, or `\\u` + exactly 4 characters that
    # Integer.parseInt(_, 16) accepts (optional sign); any other escape is fatal; a `\\u` with fewer than 4 characters left
    # before the end is silently dropped (the loop just ends) — that is what the source does, and the model follows it
    HEXANY = cset([rng('0', '9'), rng('a', 'f'), rng('A', 'F')])
    esc_set = cset(''.join(sorted(L['escape_chars'])))
    tokenscan = star(alt(nset('`\\'), cat(lit('\\'), esc_set)))
    arm_set = cset(''.join(sorted(L['arms'])))
    any1 = Rx('set', ((0, strlang.PYMAX),))
    hex4 = alt(loop(HEXANY, 4, 4), cat(cset('+-'), loop(HEXANY, 3, 3)))
    unesc_ok = cat(star(alt(nset('\\'), cat(lit('\\'), arm_set), cat(lit('\\u'), hex4))), opt(cat(lit('\\u'), loop(any1, 0, 3))))
    if 'u' in L['arms']:
        raise HarnessError('unescapeString has a plain arm for u')
    BACKTICK = cat(lit('`'), inter(tokenscan, unesc_ok), lit('`'))
    JID = cat(Rx('set', tuple(tabs['identStart'])), star(Rx('set', tuple(tabs['identPart']))))
    LEX = alt(BACKTICK, JID)
    # python emitter escape_id: tabulated from the REAL function, one token per code point
    tok_of = {}
    for c in range(0x110000):
        if 0xD800 <= c <= 0xDFFF:
            continue
        e = M.escape_id(' ' + chr(c))
        if not (e.startswith('` ') and e.endswith('`') and len(e) > 3):
            raise HarnessError(f'escape_id(" " + U+{c:04X}) = {e!r} is not a backtick form starting with the space')
        tok_of[c] = e[2:-1]
    R.validation_points += len(tok_of)
    for nm_ in names:            # whole-string behaviour: concatenation of the per-character tokens (or the name itself)
        e = M.escape_id(nm_)
        if e != nm_ and e != '`' + ''.join(tok_of[ord(ch)] for ch in nm_) + '`':
            raise HarnessError(f'escape_id({nm_!r}) = {e!r} is not the concatenation of its per-character escapes')
    shapes = {}          # (prefix, ndigits) -> [set of chars per position], members
    literal_toks = {}
    for c, t in tok_of.items():
        mm_ = re.fullmatch(r'(\\[A-Za-z])([0-9A-Fa-f]+)', t)
        if mm_ and len(mm_.group(2)) >= 2:
            key = (mm_.group(1), len(mm_.group(2)))
            ent = shapes.setdefault(key, ([set() for _ in mm_.group(2)], [], [True]))
            if c <= 0xFFFF:
                ent[2][0] = False
            for i_, ch in enumerate(mm_.group(2)):
                ent[0][i_].add(ch)
            if len(ent[1]) < 3 or c > 0xFFFF and all(x <= 0xFFFF for x in ent[1][:3]):
                ent[1].append(c)
        else:
            literal_toks.setdefault(t, c)
    if len(literal_toks) > 400:
        raise HarnessError(f'escape_id emits {len(literal_toks)} distinct non-hex tokens: shape generalisation failed')
    tok_rx = {}
    for t in literal_toks:
        tok_rx[('lit', t)] = lit(t)
    for (pre, nd), (pos, mem, _a) in shapes.items():
        tok_rx[(pre, nd)] = cat(lit(pre), *[cset(''.join(sorted(p_))) for p_ in pos])
    astral_keys = [k for k, v in shapes.items() if v[2][0]]
    idtok_all = alt(*tok_rx.values())
    idtok_astral = alt(*[tok_rx[k] for k in astral_keys]) if astral_keys else Rx('empty')
    idtok_ok = alt(*[v for k, v in tok_rx.items() if k not in astral_keys])
    exemplars_id = []
    for (pre, nd), (pos, mem, _a) in sorted(shapes.items()):
        for c in mem[:2]:
            exemplars_id += [chr(c) + 'z', chr(c) + '0', chr(c) + 'b', chr(c)]
    R.sample({'escape_id_token_shapes': {f'{k[0]}+{k[1]} hex digits': [f'U+{c:04X}' for c in v[1][:3]] for k, v in shapes.items()},
              'escape_id_literal_tokens': len(literal_toks)})
    region = {
        'x-escape': cat(ALL(), lit('\\x'), ALL()), 'U-escape': cat(ALL(), lit('\\U'), ALL()),
        'raw': nset('`'), 'any1': Rx('set', ((0, strlang.PYMAX),)),
    }
    import re._constants as _sc
    from vt.strlang_ext import rs_minus
    word_not_java = rs_minus(tuple(strlang.category_ranges(_sc.CATEGORY_WORD)), tuple(strlang.rs_norm(tabs['identPart'])))
    if not word_not_java:
        raise HarnessError('Python \\w is contained in Java identifier-part: the known class predicate is empty')
    region['word-not-java'] = cat(ALL(), Rx('set', tuple(word_not_java)), ALL())

    def build(red):
        rt = strlang.ReTranslator() if red is None else sx.ReducedReTranslator(red)
        cs = rt.charsets
        rn, _, rcond = N.raw_branch(loader.src('hail/python/hail/utils/java.py'))
        Pz, pcs = N.raw_language(rn, rcond, vars(J), red)
        cs.extend(pcs)
        Z = {'P': Pz, 'PID': rt.language(id_simple_pat, 'fullmatch'),
             'TOK': sx.to_z3(N.tok_lang(), cs, red), 'LEX': sx.to_z3(LEX, cs, red), 'JID': sx.to_z3(JID, cs, red),
             'BACKTICK': sx.to_z3(BACKTICK, cs, red), 'IDTOK': sx.to_z3(idtok_all, cs, red),
             'IDTOK_OK': sx.to_z3(idtok_ok, cs, red), 'IDTOK_ASTRAL': sx.to_z3(idtok_astral, cs, red)}
        for k, x in region.items():
            Z['r:' + k] = sx.to_z3(x, cs, red)
        return Z, cs

    _, cs = build(None)
    red = sx.Reducer(cs)
    Z, _ = build(red)
    REPS = red.repstar()
    BT = strlang.re_lit('`')
    EMIT_T_ESC = z3.Concat(BT, z3.Star(Z['TOK']), BT)
    EMIT_I_ESC = z3.Concat(BT, z3.Star(Z['IDTOK']), BT)

    # validation: accept language == lex_identifier on solver-chosen / emitted points
    pts = []
    for z in (Z['LEX'], z3.Complement(Z['LEX']), EMIT_T_ESC, EMIT_I_ESC, Z['P'], Z['JID']):
        s = z3.String('s')
        for ln in (1, 2, 3, 4, 6, 8, 9, 12):
            sol = z3.Solver()
            sol.set('timeout', 3000)
            sol.add(z3.InRe(s, z3.Intersect(z, REPS)), z3.Length(s) == ln)
            if str(sol.check()) == 'sat':
                pts.append(strlang.model_string(sol.model(), s))
    pts += [J.escape_parsable(n) for n in names] + [M.escape_id(n) for n in names]
    for w in pts:
        R.validation_points += 1
        try:
            got, rest = lex_identifier(w + ':', L, tabs)
            acc = rest == ':'
        except LexError:
            acc = False
        if acc != red.in_lang(Z['LEX'], w):
            raise HarnessError(f'lexer accept language disagrees with the concrete lexer rule on {w!r}: rule={acc}')
    R.ob('engine(model): lexer accept language == concrete evaluation of the extracted rule; escape_id tokens tabulated from the real function',
         'discharged', time.time() - t0, {'points': len(pts)}, nontrivial=True)

    # ---- obligations ------------------------------------------------------------------------------------------------
    def member(z):
        return strlang.member(z3.Intersect(z, REPS), timeout_ms=120000)

    def emitted_name(text, emitter):
        """a name whose emitted form is `text` (texts come from the emit languages, so decode with the Python side)"""
        if text.startswith('`') and text.endswith('`') and len(text) >= 2:
            if emitter == 'escape_parsable':
                return J.unescape_parsable(text[1:-1])
            return _decode_escid(text[1:-1])
        return text

    def finding_for(cls, emitter, fn, pred, exemplars):
        def f(w):
            cands = []
            try:
                cands.append(emitted_name(w, emitter))
            except Exception:  # noqa: BLE001
                pass
            # the emit languages are class-shaped over-approximations: if the decoded witness is not itself emitted with
            # the class property, fall back to fixed members of the class (still replayed on the real emitter)
            for nm in cands + exemplars:
                if nm is None:
                    continue
                text = fn(nm)
                if not pred(text):
                    continue
                ok, why = lexes_as(text, nm, L, tabs)
                if not ok:
                    return R.finding(cls, f'[model-level] {emitter}({nm!r}) = {text!r}: {why}',
                                     {'kind': 'engine', 'emitter': emitter, 'name': nm})
            raise HarnessError(f'engine counterexample {w!r} ({cls}) does not reproduce on the real emitter + concrete lexer rule')
        return f

    def decide(name, z, cls, emitter, fn, twin, pred=lambda text: True, exemplars=()):
        r0, _, _ = member(twin)
        if r0 != 'sat':
            raise HarnessError(f'{name}: vacuous (left-hand language empty)')
        r, w, dt = member(z)
        if r == 'unsat':
            R.ob(name, 'discharged', dt, nontrivial=True)
        elif r == 'sat':
            R.ob(name, finding_for(cls, emitter, fn, pred, list(exemplars))(w), dt, {'witness': w}, nontrivial=True)
        else:
            R.ob(name, 'not_discharged', dt, {'solver': r})

    notlex = z3.Complement(Z['LEX'])
    kx, kU = Z['r:x-escape'], Z['r:U-escape']
    # type strings (escape_parsable)
    decide('engine(model): escaped type-string names without \\x / \\U escapes are accepted by the lexer',
           z3.Intersect(EMIT_T_ESC, notlex, z3.Complement(kx), z3.Complement(kU)), 'engine-lexer-rejects-escaped-name',
           'escape_parsable', J.escape_parsable, EMIT_T_ESC)
    decide('engine(model): escaped type-string names containing a \\xNN escape are accepted by the lexer',
           z3.Intersect(EMIT_T_ESC, notlex, kx), 'engine-lexer-rejects-x-escape', 'escape_parsable', J.escape_parsable,
           z3.Intersect(EMIT_T_ESC, kx), pred=lambda text: '\\x' in text.replace('\\\\', ''), exemplars=['é', '\x00', 'a\x7f'])
    decide('engine(model): escaped type-string names containing a \\UNNNNNNNN escape are accepted by the lexer',
           z3.Intersect(EMIT_T_ESC, notlex, kU, z3.Complement(kx)), 'engine-lexer-rejects-U-escape', 'escape_parsable',
           J.escape_parsable, z3.Intersect(EMIT_T_ESC, kU), pred=lambda text: '\\U' in text.replace('\\\\', ''),
           exemplars=['\U0001f600', 'a\U00010000'])
    kw = Z['r:word-not-java']
    decide('engine(model): names emitted as-is in type strings are Java identifiers (apart from names with a \\w character outside '
           'Java identifier-part)', z3.Intersect(Z['P'], z3.Complement(Z['JID']), z3.Complement(kw)),
           'engine-lexer-rejects-raw-name', 'escape_parsable', J.escape_parsable, Z['P'])
    decide('engine(model): names emitted as-is in type strings with a \\w character outside Java identifier-part are Java identifiers',
           z3.Intersect(Z['P'], z3.Complement(Z['JID']), kw), 'engine-ident-narrower-than-python-word', 'escape_parsable',
           J.escape_parsable, Z['P'])
    # IR identifiers (escape_id)
    decide('engine(model): escaped IR identifiers are accepted by the lexer', z3.Intersect(EMIT_I_ESC, notlex),
           'engine-lexer-rejects-escaped-identifier', 'escape_id', M.escape_id, EMIT_I_ESC, exemplars=exemplars_id)
    decide('engine(model): IR identifiers emitted as-is are Java identifiers (apart from names with a \\w character outside Java '
           'identifier-part)', z3.Intersect(Z['PID'], z3.Complement(Z['JID']), z3.Complement(kw)),
           'engine-lexer-rejects-raw-identifier', 'escape_id', M.escape_id, Z['PID'])
    decide('engine(model): IR identifiers emitted as-is with a \\w character outside Java identifier-part are Java identifiers',
           z3.Intersect(Z['PID'], z3.Complement(Z['JID']), kw), 'engine-ident-narrower-than-python-word-ir-id', 'escape_id',
           M.escape_id, Z['PID'])
    # the escape_id token code must be a prefix code, otherwise two different names emit the same text
    cp_of = {}
    for c, t in tok_of.items():
        cp_of.setdefault(t, c)

    def ambiguous(cls):
        def f(w):
            # w is (in shape) a token with a proper prefix that is a token as well; find real members of that kind
            cands = [w] + [tok_of[c] for c in sorted(tok_of) if (c > 0xFFFF) == (cls.startswith('engine-decodes-astral'))
                           and len(tok_of[c]) > 3][:20000:97]
            for t in cands:
                if t not in cp_of:
                    continue
                for k in range(1, len(t)):
                    if t[:k] in cp_of and all(ch in cp_of for ch in t[k:]):
                        nm = ' ' + chr(cp_of[t])
                        other = ' ' + chr(cp_of[t[:k]]) + ''.join(chr(cp_of[ch]) for ch in t[k:])
                        text = M.escape_id(nm)
                        if other != nm and M.escape_id(other) == text:
                            ok1, why1 = lexes_as(text, nm, L, tabs)
                            ok2, why2 = lexes_as(text, other, L, tabs)
                            bad_nm, why = (nm, why1) if not ok1 else (other, why2)
                            return R.finding(cls, f'[model-level] escape_id({nm!r}) = {text!r} = escape_id({other!r}): {why}',
                                             {'kind': 'engine', 'emitter': 'escape_id', 'name': bad_nm})
            raise HarnessError(f'prefix-code witness {w!r} does not reproduce on the real escape_id')
        return f

    tail = z3.Plus(Z['r:any1'])
    for nm_, z_, cls in (
            ('engine(model): escape_id escapes of BMP characters form a prefix code (different names never emit the same text)',
             z3.Intersect(Z['IDTOK_OK'], z3.Concat(Z['IDTOK'], tail)), 'engine-ir-identifier-escape-ambiguous'),
            ('engine(model): escape_id escapes of astral characters are not extensions of other escapes (\\uXXXXX vs \\uXXXX+digit)',
             z3.Intersect(Z['IDTOK_ASTRAL'], z3.Concat(Z['IDTOK'], tail)), 'engine-decodes-astral-ir-identifier-differently')):
        r0, w0, dt0 = member(z_)
        if r0 == 'unsat':
            R.ob(nm_, 'discharged', dt0, nontrivial=True)
        elif r0 == 'sat':
            R.ob(nm_, ambiguous(cls)(w0), dt0, {'witness': w0}, nontrivial=True)
        else:
            R.ob(nm_, 'not_discharged', dt0, {'solver': r0})

    # decoded name agrees, per code point, for every escape the lexer accepts (tabulated on the real emitters)
    t1 = time.time()
    bad = {'escape_parsable': [], 'escape_id': []}
    n = 0
    for c in range(0x110000):
        if 0xD800 <= c <= 0xDFFF:
            continue
        for emitter, body in (('escape_parsable', N.esc_model(c)), ('escape_id', tok_of[c])):
            n += 1
            try:
                got = unescape_string(body, L)
            except LexError:
                continue        # rejected forms are the business of the inclusion obligations above
            if got != chr(c) and len(bad[emitter]) < 3:
                bad[emitter].append(c)
    R.validation_points += n
    for emitter, fn, cls, excl in (('escape_parsable', J.escape_parsable, 'engine-decodes-name-differently', lambda c: False),
                                   ('escape_id', M.escape_id, 'engine-decodes-name-differently-ir-id', lambda c: c > 0xFFFF)):
        other = [c for c in bad[emitter] if not excl(c)]
        nm = f'engine(model): every accepted {emitter} escape decodes to the original character (all code points' + \
             (', astral ones are the separate obligation above)' if emitter == 'escape_id' else ')')
        if other:
            c = other[0]
            name_ = ' ' + chr(c)
            text = fn(name_)
            ok, why = lexes_as(text, name_, L, tabs)
            if ok:
                raise HarnessError(f'per-code-point mismatch U+{c:04X} does not reproduce through lexes_as')
            R.ob(nm, R.finding(cls, f'[model-level] {emitter}({name_!r}) = {text!r}: {why}',
                               {'kind': 'engine', 'emitter': emitter, 'name': name_}), time.time() - t1)
        else:
            R.ob(nm, 'discharged', time.time() - t1, nontrivial=True)


def _decode_escid(body):
    """inverse of escape_str(backticked=True) on its own output (used only to name a witness)"""
    out = []
    i = 0
    m = {'b': '\b', 'n': '\n', 't': '\t', 'f': '\f', 'r': '\r', '`': '`', '\\': '\\', '"': '"'}
    while i < len(body):
        c = body[i]
        if c != '\\':
            out.append(c)
            i += 1
            continue
        d = body[i + 1]
        if d == 'u':
            j = i + 2
            while j < len(body) and j < i + 8 and body[j] in '0123456789ABCDEF':
                j += 1
            # escape_str writes at least 4 digits and as many as the code point needs
            digits = body[i + 2:j]
            k = len(digits)
            while k > 4 and int(digits[:k], 16) > 0x10FFFF:
                k -= 1
            if k > 4 and int(digits[:k], 16) <= 0xFFFF:
                k = 4
            out.append(chr(int(digits[:k], 16)))
            i = i + 2 + k
        else:
            out.append(m[d])
            i += 2
    return ''.join(out)


def replay(rp, m):
    from hail.utils import misc as M
    L = extract_lexer()
    tabs = sx.jvm_char_tables()
    for k in ('identStart', 'identPart'):
        tabs[k] = [(lo, min(hi, 0xFFFF)) for lo, hi in tabs[k] if lo <= 0xFFFF]
    fn = m.J.escape_parsable if rp['emitter'] == 'escape_parsable' else M.escape_id
    text = fn(rp['name'])
    ok, why = lexes_as(text, rp['name'], L, tabs)
    print(f"[model-level] {rp['emitter']}({rp['name']!r}) = {text!r}: {'lexes to the same name' if ok else why}")
    return 0 if ok else 1
