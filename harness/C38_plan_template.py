"""Generates the per-shape CrossHair condition functions for C38(b) (CrossHair needs real source text).

A config fixes the SHAPE: number of GVCF inputs `N`, number of VDS inputs `M` (N+M >= 1), whether the GVCF
sample names come from an external header (`hdr`), whether a stop/resume may happen before any step
(`resume`), the upper bound `smax` of every VDS's n_samples, and optionally a concrete branch factor `bf`
(a shard; None = symbolic 2..4).  SYMBOLIC in every condition: gvcf_batch_size (1..3), each VDS's n_samples
(1..smax), branch_factor (2..4, unless sharded) and one bool per possible step (N+M of them; "stop before
step i, save the plan, resume from it") when `resume` is set.

Fault family (`fault` set in the config): the REAL run() with one injected engine fault, then the real
load_combiner(save_path).run().  SYMBOLIC: branch_factor, gvcf_batch_size, each n_samples (1..smax, small: run()
serialises the plan before the first step), the index `fi` of the failing engine call (0..FI_MAX; an index past the
last call = no fault) and the fault kind `kind` (False OSError, True a BaseException).
"""
FI_MAX = 999
FAULT_TEMPLATE = '''
def fault{ID}({SIG}) -> bool:
    """
    pre: {PRE}
    post: _
    """
    return fault_property_holds({N}, [{SIZES}], {BF}, bs, fi, kind, {HDR}, {SMAX})


def reachfault{ID}({SIG}) -> bool:
    """
    pre: {PRE}
    post: _
    """
    # reachability twin: must be REFUTED (a fault fires inside a step and the resumed run steps on and completes)
    return fault_unreached({N}, [{SIZES}], {BF}, bs, fi, kind, {HDR}, {SMAX})
'''
TEMPLATE = '''
def check{ID}({SIG}) -> bool:
    """
    pre: {PRE}
    post: _
    """
    return property_holds({N}, [{SIZES}], {BF}, bs, [{RES}], {HDR})


def reach{ID}({SIG}) -> bool:
    """
    pre: {PRE}
    post: _
    """
    # reachability twin: must be REFUTED (some input completes correctly in >= {T} steps with >= {L} resumptions)
    return unreached({N}, [{SIZES}], {BF}, bs, [{RES}], {HDR}, {T}, {L})
'''


def cid(c):
    return (f"g{c['N']}v{c['M']}" + ('h' if c['hdr'] else 'n') + ('f' if c.get('fault') else 'r' if c['resume'] else 's')
            + (f"b{c['bf']}" if c.get('bf') else '') + f"m{c['smax']}" + (f"q{c['bsmax']}" if c.get('bsmax', 3) != 3 else ''))


def targets(c):
    """(check function name, twin function name) of a config."""
    return (f'fault{cid(c)}', f'reachfault{cid(c)}') if c.get('fault') else (f'check{cid(c)}', f'reach{cid(c)}')


def min_steps(c):
    """A number of steps some input of this shape is known to need (twin threshold): a gvcf step followed by a vds
    step when both kinds are present; otherwise two steps as soon as the inputs outnumber the smallest branch factor
    of the shape (gvcf_batch_size 1)."""
    b = c.get('bf') or 2
    if c['N'] >= 1 and c['M'] >= 1:
        return 2
    return 2 if max(c['N'], c['M']) > b else 1


def describe(c):
    if c.get('fault'):
        return (f"{c['N']} gvcfs + {c['M']} vdses, {'external header' if c['hdr'] else 'header from files'}, "
                f"real run() with one engine fault at any call (OSError or BaseException) then load_combiner().run(), "
                f"branch_factor {c.get('bf') or '2..4'}, batch 1..{c.get('bsmax', 3)}, n_samples 1..{c['smax']}")
    return (f"{c['N']} gvcfs + {c['M']} vdses, {'external header' if c['hdr'] else 'header from files'}, "
            f"{'stop/resume before any step' if c['resume'] else 'no resume'}, "
            f"branch_factor {c.get('bf') or '2..4'}, batch 1..{c.get('bsmax', 3)}, n_samples 1..{c['smax']}")


def source(configs):
    out = ['from harness.C38_plan import property_holds, unreached, fault_property_holds, fault_unreached\n']
    for c in configs:
        n, m = c['N'], c['M']
        assert n + m >= 1
        sizes = [f's{i}' for i in range(m)]
        if c.get('fault'):
            sig = (([] if c.get('bf') else ['bf: int']) + ['bs: int'] + [f'{s}: int' for s in sizes]
                   + ['fi: int', 'kind: bool'])
            pre = (([] if c.get('bf') else ['2 <= bf <= 4']) + [f"1 <= bs <= {c.get('bsmax', 3)}"]
                   + [f"1 <= {s} <= {c['smax']}" for s in sizes] + [f'0 <= fi <= {FI_MAX}'])
            out.append(FAULT_TEMPLATE.format(ID=cid(c), SIG=', '.join(sig), PRE=' and '.join(pre), N=n,
                                             SIZES=', '.join(sizes), BF=c.get('bf') or 'bf', HDR=bool(c['hdr']),
                                             SMAX=max(c['smax'], 1)))
            continue
        res = [f'r{i}' for i in range(n + m)] if c['resume'] else []
        sig = ([] if c.get('bf') else ['bf: int']) + ['bs: int'] + [f'{s}: int' for s in sizes] + [f'{r}: bool' for r in res]
        pre = ([] if c.get('bf') else ['2 <= bf <= 4']) + [f"1 <= bs <= {c.get('bsmax', 3)}"] + [f"1 <= {s} <= {c['smax']}" for s in sizes]
        out.append(TEMPLATE.format(ID=cid(c), SIG=', '.join(sig), PRE=' and '.join(pre), N=n, SIZES=', '.join(sizes),
                                   BF=c.get('bf') or 'bf', RES=', '.join(res), HDR=bool(c['hdr']),
                                   T=min_steps(c), L=1 if c['resume'] else 0))
    return '\n'.join(out)


def argnames(c):
    n, m = c['N'], c['M']
    if c.get('fault'):
        return ([] if c.get('bf') else ['bf']) + ['bs'] + [f's{i}' for i in range(m)] + ['fi', 'kind']
    return (([] if c.get('bf') else ['bf']) + ['bs'] + [f's{i}' for i in range(m)]
            + ([f'r{i}' for i in range(n + m)] if c['resume'] else []))
