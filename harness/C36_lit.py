"""C36 literals: the REAL impute_type / HailType.typecheck / hl.literal interpreted symbolically by vt/pyk.py
(AST -> z3, SMT Int mode) on Python values whose integers and booleans are z3 variables.

Each case is a Python value skeleton (nested lists / tuples / dicts) with symbolic leaves.  pyk returns one Path
per feasible branch vector (path condition over the leaves, outcome = returned HailType or raised exception).
The oracle `want` is written independently: it maps a *region assignment* of the integer leaves (int32 / int64 only /
outside int64) to the type the property demands, or REJECT.
"""
import ast
import itertools

import z3

from vt import loader, pyk
from vt.common import HarnessError

loader.install()
import hail as hl  # noqa: E402
from hail import ir  # noqa: E402
from hail.expr import functions as hlf  # noqa: E402
from hail.expr.expressions import base_expression as be  # noqa: E402
from hail.expr.expressions import typed_expressions as te  # noqa: E402
from hail.expr.types import tarray, tbool, tdict, tint32, tint64, tstr, tstruct, ttuple  # noqa: E402

I32MIN, I32MAX = -(1 << 31), (1 << 31) - 1
I64MIN, I64MAX = -(1 << 63), (1 << 63) - 1
REJECT = 'REJECT'


class Interp(pyk.Interp):
    """pyk plus set / dict comprehensions over concrete iterables (used by _impute_type)."""

    def eval(self, e, env, globs):
        if isinstance(e, (ast.ListComp, ast.GeneratorExp)) and len(e.generators) > 1:
            out = []

            def rec(gens, env_):
                if not gens:
                    out.append(self.eval(e.elt, env_, globs))
                    return
                g = gens[0]
                it = self.eval(g.iter, env_, globs)
                if pyk.is_sym(it):
                    raise HarnessError('comprehension over a symbolic iterable')
                for x in list(it):
                    sub = pyk.Env(env_)
                    self.assign(g.target, x, sub, globs)
                    if all(self.branch(self.truth(self.eval(c, sub, globs))) for c in g.ifs):
                        rec(gens[1:], sub)
            rec(e.generators, env)
            return out
        if isinstance(e, ast.SetComp):
            lc = ast.copy_location(ast.ListComp(elt=e.elt, generators=e.generators), e)
            return set(super().eval(lc, env, globs))
        if isinstance(e, ast.DictComp):
            ks = super().eval(ast.copy_location(ast.ListComp(elt=e.key, generators=e.generators), e), env, globs)
            vs = super().eval(ast.copy_location(ast.ListComp(elt=e.value, generators=e.generators), e), env, globs)
            return dict(zip(ks, vs))
        return super().eval(e, env, globs)

    def compare(self, op, a, b):
        # `x is None` / `x is pd.NA` with x a symbolic int or bool: an int object is never one of those singletons
        if isinstance(op, (ast.Is, ast.IsNot)) and (pyk.is_sym(a) != pyk.is_sym(b)):
            other = b if pyk.is_sym(a) else a
            if not isinstance(other, (int, float)):     # None, pd.NA (a loader stub here), classes, ...
                return isinstance(op, ast.IsNot)
        return super().compare(op, a, b)

    def stmt(self, s, env, globs):
        """try/except over PyRaise (pyk's model of a Python exception: class name + text)."""
        if not isinstance(s, ast.Try):
            return super().stmt(s, env, globs)
        try:
            try:
                self.block(s.body, env, globs)
            except pyk.PyRaise as e:
                for h in s.handlers:
                    if h.type is None or self._exc_matches(e.typ, self.eval(h.type, env, globs), globs):
                        if h.name:
                            env.vars[h.name] = _CaughtExc(e.typ, e.msg)
                        self.block(h.body, env, globs)
                        break
                else:
                    raise
            else:
                self.block(s.orelse, env, globs)
        finally:
            if s.finalbody:
                self.block(s.finalbody, env, globs)

    @staticmethod
    def _exc_matches(typ, classes, globs):
        import builtins as _b
        classes = classes if isinstance(classes, tuple) else (classes,)
        real = globs.get(typ) or getattr(_b, typ, None) or getattr(be, typ, None)
        for c in classes:
            if getattr(c, '__name__', None) == typ:
                return True
            if isinstance(real, type) and isinstance(c, type) and issubclass(real, c):
                return True
        return False

    def call(self, f, args, kwargs=None):
        # functions decorated with hail.typecheck are wrappers (vt.loader's decorator shim): with concrete arguments
        # they run natively; with symbolic arguments the innermost wrapped function is interpreted (the decorator
        # only checks argument classes)
        import types as _t
        if id(f) in self.user_intrinsics:
            return super().call(f, args, kwargs)
        if isinstance(f, _t.FunctionType) and hasattr(f, '__wrapped__'):
            if not any(deep_sym(a) for a in list(args) + list((kwargs or {}).values())):
                return self._native_call(f, args, kwargs or {})
            while hasattr(f, '__wrapped__'):
                f = f.__wrapped__
        if isinstance(f, _t.MethodType) and isinstance(f.__func__, _t.FunctionType) and \
                any(deep_sym(a) for a in list(args) + list((kwargs or {}).values())):
            return self.call(f.__func__, [f.__self__] + list(args), kwargs)
        return super().call(f, args, kwargs)


class _CaughtExc:
    def __init__(self, typ, msg):
        self.typ = typ
        self.msg = msg


def deep_sym(v):
    if pyk.is_sym(v) or isinstance(v, (pyk.Closure, pyk.BoundMethod, pyk.SymObj)):
        return True
    if isinstance(v, (list, tuple, set)):
        return any(deep_sym(x) for x in v)
    if isinstance(v, dict):
        return any(deep_sym(x) for x in v.values())
    return False


# ---- value skeletons: ('i', name) symbolic int, ('b', name) symbolic bool, list / tuple / dict of skeletons ------
def sym_value(sk, it):
    if isinstance(sk, tuple) and len(sk) == 2 and sk[0] == 'i':
        return it.int_var(sk[1])
    if isinstance(sk, tuple) and len(sk) == 2 and sk[0] == 'b':
        return it.bool_var(sk[1])
    if isinstance(sk, list):
        return [sym_value(x, it) for x in sk]
    if isinstance(sk, tuple):
        return tuple(sym_value(x, it) for x in sk[1])      # ('T', [..])
    if isinstance(sk, dict):
        return {k: sym_value(v, it) for k, v in sk.items()}
    return sk


def concrete_value(sk, vals):
    if isinstance(sk, tuple) and len(sk) == 2 and sk[0] in ('i', 'b'):
        return vals[sk[1]]
    if isinstance(sk, list):
        return [concrete_value(x, vals) for x in sk]
    if isinstance(sk, tuple):
        return tuple(concrete_value(x, vals) for x in sk[1])
    if isinstance(sk, dict):
        return {k: concrete_value(v, vals) for k, v in sk.items()}
    return sk


def leaves(sk, out=None):
    out = [] if out is None else out
    if isinstance(sk, tuple) and len(sk) == 2 and sk[0] in ('i', 'b'):
        if sk not in out:
            out.append(sk)
    elif isinstance(sk, list):
        for x in sk:
            leaves(x, out)
    elif isinstance(sk, tuple):
        for x in sk[1]:
            leaves(x, out)
    elif isinstance(sk, dict):
        for x in sk.values():
            leaves(x, out)
    return out


# ---- the independent oracle ----------------------------------------------------------------------------
NUM_ORDER = ['bool', 'int32', 'int64']


def want(sk, region):
    """Expected type as a nested tuple, or REJECT.  region: int leaf name -> 'i32' | 'i64' | 'out'."""
    if isinstance(sk, tuple) and len(sk) == 2 and sk[0] == 'i':
        r = region[sk[1]]
        return REJECT if r == 'out' else ('int32' if r == 'i32' else 'int64')
    if isinstance(sk, tuple) and len(sk) == 2 and sk[0] == 'b':
        return 'bool'
    if isinstance(sk, list):
        ts = [want(x, region) for x in sk]
        if REJECT in ts:
            return REJECT
        u = unify(ts)
        return REJECT if u is REJECT else ('array', u)
    if isinstance(sk, tuple):
        ts = [want(x, region) for x in sk[1]]
        if REJECT in ts or any(has_hole(t) for t in ts):
            return REJECT
        return ('tuple', tuple(ts))
    if isinstance(sk, dict):       # str keys: dict<str, T> when the values unify, else a struct
        ts = {k: want(v, region) for k, v in sk.items()}
        if REJECT in ts.values():
            return REJECT
        u = unify(list(ts.values())) if ts else None
        if u is not REJECT and u is not None and not has_hole(u):
            return ('dict', 'str', u)
        if any(has_hole(t) for t in ts.values()):
            return REJECT
        return ('struct', tuple(ts.items()))
    raise HarnessError(f'oracle: {sk!r}')


def has_hole(t):
    if t is None:
        return True
    if isinstance(t, tuple):
        if t[0] == 'array':
            return has_hole(t[1])
        if t[0] == 'tuple':
            return any(has_hole(x) for x in t[1])
        if t[0] == 'struct':
            return any(has_hole(x) for _, x in t[1])
        if t[0] == 'dict':
            return has_hole(t[2])
    return False


def unify(ts):
    """Element-type unification the property implies: numerics widen (bool < int32 < int64), arrays unify
    element-wise, an empty list ('array', None) adopts the other element type, anything else must be equal."""
    ts = [t for t in ts if t is not None]
    if not ts:
        return None
    if all(t in NUM_ORDER for t in ts):
        return max(ts, key=NUM_ORDER.index)
    if all(isinstance(t, tuple) and t[0] == 'array' for t in ts):
        u = unify([t[1] for t in ts])
        return REJECT if u is REJECT else ('array', u)
    if all(isinstance(t, tuple) and t[0] == 'dict' for t in ts):
        k, v = unify([t[1] for t in ts]), unify([t[2] for t in ts])
        return REJECT if REJECT in (k, v) else ('dict', k, v)
    if all(isinstance(t, tuple) and t[0] == 'struct' for t in ts):
        # structs unify field-wise over the union of their fields (a field absent from a value is a missing value)
        names = list(dict.fromkeys(n for t in ts for n, _ in t[1]))
        out = []
        for n in names:
            u = unify([dict(t[1])[n] for t in ts if n in dict(t[1])])
            if u is REJECT:
                return REJECT
            out.append((n, u))
        return ('struct', tuple(out))
    if all(t == ts[0] for t in ts):
        return ts[0]
    return REJECT


def to_hail(t):
    if t == 'bool':
        return tbool
    if t == 'int32':
        return tint32
    if t == 'int64':
        return tint64
    if t == 'str':
        return tstr
    if t[0] == 'array':
        return tarray(to_hail(t[1]))
    if t[0] == 'tuple':
        return ttuple(*[to_hail(x) for x in t[1]])
    if t[0] == 'struct':
        return tstruct(**{k: to_hail(x) for k, x in t[1]})
    if t[0] == 'dict':
        return tdict(to_hail(t[1]), to_hail(t[2]))
    raise HarnessError(f'to_hail: {t!r}')


def canon(t, under_array=False):
    """HailType -> comparable form.  The field ORDER of a struct obtained by unifying the element types of a list is
    not fixed by the property (the front end iterates over a Python set of types there), so structs that are array
    elements are compared with their fields sorted; everywhere else order matters."""
    if isinstance(t, tstruct):
        fs = [(k, canon(v)) for k, v in t.items()]
        return ('struct', tuple(sorted(fs) if under_array else fs))
    if isinstance(t, tarray):
        return ('array', canon(t.element_type, True))
    if isinstance(t, ttuple):
        return ('tuple', tuple(canon(x) for x in t.types))
    if isinstance(t, tdict):
        return ('dict', canon(t.key_type), canon(t.value_type))
    return str(t)


def same_type(a, b):
    return canon(a) == canon(b)


def final_want(sk, region):
    w = want(sk, region)
    if w is REJECT or has_hole(w):
        return REJECT
    return to_hail(w)


def region_constraint(name, r):
    x = z3.Int(name)
    if r == 'i32':
        return z3.And(x >= I32MIN, x <= I32MAX)
    if r == 'i64':
        return z3.And(x >= I64MIN, x <= I64MAX, z3.Or(x < I32MIN, x > I32MAX))
    return z3.Or(x < I64MIN, x > I64MAX)


# ---- symbolic runs -------------------------------------------------------------------------------------
def impute_and_check(sk, on_function=None, max_paths=3000):
    """Interpret impute_type(v) followed by impute_type(v).typecheck(v) on the skeleton's symbolic value."""
    it = Interp(int_mode='int', max_paths=max_paths, on_function=on_function)

    def thunk(I):
        v = sym_value(sk, I)
        t = I.call(be.impute_type, [v])
        try:
            I.call(t.typecheck, [v])
        except pyk.PyRaise as e:
            return ('typecheck-raised', t, e.typ, e.msg)
        return ('ok', t)
    return it, it.explore(thunk)


class _Rec:
    """what the interpreted `literal` handed to the IR constructors (intrinsic stand-ins record their arguments)"""

    def __init__(self, kind, arg):
        self.kind = kind
        self.arg = arg


def literal_int(on_function=None):
    """Interpret the real hl.literal body on a symbolic int.  ir.I32 / ir.I64 / construct_expr are intrinsics that
    record their (symbolic) arguments; everything else (impute_type, _traverse, typecheck_expr, the asserts) is the
    real code."""
    fn = hlf.literal
    while hasattr(fn, '__wrapped__'):
        fn = fn.__wrapped__
    intr = {
        id(ir.I32): lambda I, a, k: _Rec('I32', a[0]),
        id(ir.I64): lambda I, a, k: _Rec('I64', a[0]),
        id(hlf.construct_expr): lambda I, a, k: ('construct_expr', a[0], a[1]),
    }
    it = Interp(int_mode='int', max_paths=200, on_function=on_function, intrinsics=intr)
    return it, it.explore(lambda I: I.call(fn, [I.int_var('x')])), fn
