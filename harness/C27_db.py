"""CrossHair harness for C27: the real gear.database.retry_transient_mysql_errors / transaction / Database.start /
TransactionAsyncContextManager / Transaction (and Database.execute_update / execute_many as second entry points) on a
fake pool/connection with a two-level store (committed / pending per connection) and a symbolic fault plan.

`pymysql` is not installed: a tiny real-shaped `pymysql.err` hierarchy (MySQLError > Error > DatabaseError >
OperationalError / InternalError / IntegrityError / ProgrammingError, args = (code, message)) is installed in
sys.modules BEFORE gear.database is imported.
"""
import asyncio
import sys
import types

from vt import loader


def _install_pymysql():
    err = types.ModuleType('pymysql.err')

    class MySQLError(Exception):
        pass

    class Warning(MySQLError):  # noqa: A001
        pass

    class Error(MySQLError):
        pass

    class InterfaceError(Error):
        pass

    class DatabaseError(Error):
        pass

    class DataError(DatabaseError):
        pass

    class OperationalError(DatabaseError):
        pass

    class IntegrityError(DatabaseError):
        pass

    class InternalError(DatabaseError):
        pass

    class ProgrammingError(DatabaseError):
        pass

    class NotSupportedError(DatabaseError):
        pass

    for c in (MySQLError, Warning, Error, InterfaceError, DatabaseError, DataError, OperationalError, IntegrityError,
              InternalError, ProgrammingError, NotSupportedError):
        c.__module__ = 'pymysql.err'
        setattr(err, c.__name__, c)
    pm = types.ModuleType('pymysql')
    pm.err = err
    for c in ('MySQLError', 'Error', 'OperationalError', 'IntegrityError', 'InternalError', 'ProgrammingError'):
        setattr(pm, c, getattr(err, c))
    pm.__path__ = []
    sys.modules['pymysql'] = pm
    sys.modules['pymysql.err'] = err
    return err


if 'gear.database' in sys.modules:
    raise RuntimeError('harness.C27_db must be imported before gear.database')
ERR = _install_pymysql()      # before loader.install(): that imports gear (and with it gear.database)
loader.install()
import gear.database as D  # noqa: E402

assert D.pymysql.err is ERR


# ---- stubs in gear.database's namespace ----------------------------------------------------------------
class _State:
    sleeps = None


async def _sleep_before_try(tries, *a, **k):
    _State.sleeps.append(tries)


class _SilentLog:
    def __getattr__(self, name):
        return lambda *a, **k: None


class _NoTraceback:
    @staticmethod
    def format_stack(*a, **k):
        return []


class _Metric:
    """gear.metrics' prometheus objects are inert loader stubs; these are cheaper inert stand-ins"""

    def inc(self, *a):
        pass

    def dec(self, *a):
        pass


D.sleep_before_try = _sleep_before_try
D.log = _SilentLog()
D.traceback = _NoTraceback()
D.DB_CONNECTION_QUEUE_SIZE = _Metric()
D.SQL_TRANSACTIONS = _Metric()


# ---- deterministic loop (see harness/C20_gather.py) -----------------------------------------------------
class _NullSelector:
    def select(self, timeout=None):
        return []

    def close(self):
        pass


_KEEP = []


def _keep_task(loop, coro, **kw):
    """documented task-factory hook: real asyncio.Task objects, kept alive for the life of the process.  (When a task
    is garbage-collected the loop's WeakSet callback dereferences a weak reference, and CrossHair runs gc.collect() on
    every such dereference.)"""
    t = asyncio.Task(coro, loop=loop, **kw)
    _KEEP.append(t)
    return t


class DetLoop(asyncio.BaseEventLoop):
    def __init__(self):
        super().__init__()
        self._selector = _NullSelector()
        self.set_task_factory(_keep_task)

    def time(self):
        return 0.0

    def _process_events(self, event_list):
        pass

    def _write_to_self(self):
        pass


# ---- fake MySQL ----------------------------------------------------------------------------------------
CLASSES = ('OperationalError', 'InternalError', 'IntegrityError', 'ProgrammingError', 'ValueError')


def make_fault(cls, code):
    """cls: 0..3 -> pymysql.err.<class>(code, 'injected'); 4 -> ValueError (a non-database error).  Chosen by
    comparisons so that a symbolic cls forks instead of being realised."""
    for i, name in enumerate(CLASSES[:4]):
        if cls == i:
            return getattr(ERR, name)(code, 'injected')
    return ValueError('injected')


class Server:
    """committed store + fault plan.  Operations of one attempt are numbered 0: connect, 1: START TRANSACTION,
    2..: the statements, last: COMMIT.  faults[a] = (op, cls, code): the a-th attempt fails at operation `op`
    (when it gets that far) with that error, raised BEFORE the operation takes effect."""

    def __init__(self, initial, faults):
        self.committed = list(initial)
        self.initial = list(initial)
        self.faults = faults
        self.attempt = -1
        self.op = 0
        self.acquired = 0
        self.released = 0
        self.raised = []            # fault objects actually raised, in order
        self.dirty_at_attempt_start = False
        self.began = []             # per attempt: the START TRANSACTION text
        self.bad_order = False

    def new_attempt(self):
        self.attempt += 1
        self.op = 0
        if self.committed != self.initial:
            self.dirty_at_attempt_start = True

    def point(self):
        """called at the start of every operation of the current attempt"""
        op = self.op
        self.op += 1
        a = self.attempt
        if a < len(self.faults):
            fop, cls, code = self.faults[a]
            if fop == op:
                e = make_fault(cls, code)
                self.raised.append(e)
                raise e


class FakeCursor:
    def __init__(self, conn):
        self.conn = conn
        self.lastrowid = None

    async def execute(self, sql, args=None):
        srv = self.conn.srv
        srv.point()
        if sql.startswith('START TRANSACTION'):
            if self.conn.in_tx:
                srv.bad_order = True
            self.conn.in_tx = True
            self.conn.pending = []
            srv.began.append(sql)
            return 0
        if not self.conn.in_tx:
            srv.bad_order = True
        self.conn.pending.append((sql, args))
        self.lastrowid = len(srv.committed) + len(self.conn.pending)
        return 1

    async def executemany(self, sql, args_array):
        srv = self.conn.srv
        srv.point()
        if not self.conn.in_tx:
            srv.bad_order = True
        for a in args_array:
            self.conn.pending.append((sql, a))
        return len(args_array)

    async def fetchone(self):
        return {'rc': 0}

    async def fetchmany(self, n):
        return []


class _CursorCM:
    def __init__(self, conn):
        self.conn = conn

    async def __aenter__(self):
        return FakeCursor(self.conn)

    async def __aexit__(self, *a):
        return None


class FakeConn:
    def __init__(self, srv):
        self.srv = srv
        self.in_tx = False
        self.pending = []
        self.closed = False

    def cursor(self):
        return _CursorCM(self)

    async def commit(self):
        self.srv.point()
        self.srv.committed.extend(self.pending)
        self.pending = []
        self.in_tx = False

    async def rollback(self):
        self.pending = []
        self.in_tx = False


class _AcquireCM:
    """shape of aiomysql's pool.acquire() context manager: `_conn` is None until entered"""

    def __init__(self, srv):
        self.srv = srv
        self._conn = None

    async def __aenter__(self):
        self.srv.new_attempt()
        self.srv.point()            # op 0: connect
        self.srv.acquired += 1
        self._conn = FakeConn(self.srv)
        return self._conn

    async def __aexit__(self, *a):
        # aiomysql closes a connection released inside a transaction; the server then rolls it back
        self._conn.pending = []
        self._conn.in_tx = False
        self._conn.closed = True
        self._conn = None
        self.srv.released += 1


class FakePool:
    def __init__(self, srv):
        self.srv = srv

    def acquire(self):
        return _AcquireCM(self.srv)


# ---- scenarios -----------------------------------------------------------------------------------------
RETURN = ('result',)
SINGLE = ('execute_update', 'just_execute', 'execute_and_fetchone', 'select_and_fetchone', 'execute_insertone',
          'check_call_procedure')       # Database methods that run one statement in their own transaction
ENTRIES = ('transaction', 'execute_many') + SINGLE


def n_ops(entry, nstmt):
    """operations of a fault-free attempt: connect, START, statements, COMMIT"""
    return 2 + (nstmt if entry == 'transaction' else 1) + 1


DB = D.Database()      # one real Database object; every run gives it a fresh fake pool and release-task manager


async def _work(tx, ws):
    """the transactional operation: one statement per write, through three different Transaction methods"""
    for j, w in enumerate(ws):
        if j % 3 == 0:
            await tx.just_execute('INSERT', w)
        elif j % 3 == 1:
            await tx.execute_update('INSERT', w)
        else:
            await tx.execute_insertone('INSERT', w)
    return RETURN


WORK = D.transaction(DB)(_work)
WORK_RO = D.transaction(DB, read_only=True)(_work)


async def _scenario(entry, nstmt, read_only, faults, initial):
    srv = Server(initial, faults)
    DB.pool = FakePool(srv)
    DB.connection_release_task_manager = D.BackgroundTaskManager()
    _State.sleeps = []
    writes = [('w', i) for i in range(nstmt)]
    outcome, value = 'returned', None
    try:
        if entry == 'transaction':
            value = await (WORK_RO if read_only else WORK)(writes)
        elif entry == 'execute_many':
            value = await DB.execute_many('INSERT', writes)
        else:
            value = await getattr(DB, entry)('INSERT', writes[0])
    except Exception as e:
        outcome, value = 'raised', e
    # let the background connection-release tasks run
    loop = asyncio.get_running_loop()
    for _ in range(20):
        await asyncio.sleep(0)
        if not loop._ready:
            break
    return srv, outcome, value, list(_State.sleeps), writes


def retryable(cls, code):
    """the property's own list: deadlock 1213, lock wait timeout 1205, lost connection 2013 / cannot connect 2003, too many
    connections 1040, in the exception class the driver reports them with: OperationalError for all five with the pinned
    PyMySQL 1.x (server errors >= 1000 it does not list are OperationalError), and InternalError for 1205 with PyMySQL < 0.10"""
    if cls == 0:
        return code == 1040 or code == 1205 or code == 1213 or code == 2003 or code == 2013
    if cls == 1:
        return code == 1205
    return False


def check(entry, nstmt, read_only, faults, initial=(('old', 0),)):
    """Oracle.  faults: list of (op, cls, code), one per attempt.  Returns '' or the first discrepancy."""
    loop = DetLoop()
    try:
        srv, outcome, value, sleeps, writes = loop.run_until_complete(
            _scenario(entry, nstmt, read_only, faults, list(initial)))
    finally:
        loop.close()
    ops = n_ops(entry, nstmt)
    # only @transaction takes the flag; select_and_fetchone always starts a read-only transaction
    read_only = (read_only and entry == 'transaction') or entry == 'select_and_fetchone'
    # expected course, from the plan and the property text only
    exp_retries = 0
    exp_raise = None          # index of the fault that must be raised
    for a in range(len(faults)):
        fop, cls, code = faults[a]
        if not (0 <= fop < ops):
            break             # the attempt never reaches that operation: it succeeds
        if retryable(cls, code):
            exp_retries += 1
        else:
            exp_raise = a
            break
    if exp_raise is None:
        if outcome != 'returned':
            return f'expected success after {exp_retries} retried attempts, got {type(value).__name__}: {value}'
        if entry == 'transaction' and value is not RETURN:
            return f'wrong return value {value!r}'
        want = list(initial) + [('INSERT', w) for w in (writes[:1] if entry in SINGLE else writes)]
        if srv.committed != want:
            return f'after success the committed store is {srv.committed}, expected exactly one application {want}'
    else:
        if outcome != 'raised':
            return f'expected fault {exp_raise} ({CLASSES[faults[exp_raise][1]] if 0 <= faults[exp_raise][1] < 5 else "?"}) to be raised at once, got success'
        if len(srv.raised) != exp_raise + 1 or value is not srv.raised[exp_raise]:
            return f'raised {type(value).__name__} {value} after {len(srv.raised)} faults, expected fault {exp_raise} itself'
        if srv.committed != list(initial):
            return f'a failed operation left writes behind: {srv.committed}'
    if srv.dirty_at_attempt_start:
        return 'a retried attempt left writes behind (store differed from the initial one when the next attempt began)'
    if srv.attempt + 1 != exp_retries + 1:
        return f'{srv.attempt + 1} attempts, expected {exp_retries + 1}'
    if sleeps != list(range(1, exp_retries + 1)):
        return f'back-off calls {sleeps}, expected one per retry with tries 1..{exp_retries}'
    if srv.acquired != srv.released:
        return f'connection leak: {srv.acquired} acquired, {srv.released} released'
    if srv.bad_order:
        return 'statement outside a transaction / nested START TRANSACTION'
    for s in srv.began:
        if s != ('START TRANSACTION READ ONLY;' if read_only else 'START TRANSACTION;'):
            return f'unexpected transaction start {s!r}'
    return ''


def outcome_of(entry, nstmt, read_only, faults):
    """for reachability twins: (number of attempts, 'returned' | 'raised')"""
    loop = DetLoop()
    try:
        srv, outcome, value, sleeps, writes = loop.run_until_complete(
            _scenario(entry, nstmt, read_only, faults, [('old', 0)]))
    finally:
        loop.close()
    return srv.attempt + 1, outcome
