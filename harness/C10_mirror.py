"""C10 (in-memory side): the driver's mirror of an instance's free cores moves in lockstep with the database.

The REAL coroutines of batch/batch/driver/job.py (schedule_job, mark_job_started, mark_job_complete, unschedule_job,
mark_job_creating) are executed natively through vt/glue: the row returned by the stored procedure (rc,
delta_cores_mcpu) and the mirror's value before the call are symbolic integers (z3), old_state and the in-memory
instance state are harness choices; whenever the code branches on a symbolic value z3 decides which sides are feasible
and every feasible path is executed.  Per path one z3 query asserts

    in-memory state in which the mirror is maintained  =>  mirror_after - mirror_before == delta_cores_mcpu
    instance inactive / deleted                        =>  mirror_after == mirror_before   (it reports all cores free)

for EVERY value of rc / delta / mirror_before (the delta returned by the procedure is the change the procedure applied
to instances_free_cores_mcpu: that side is checked by the BMC part of C10).  A further query shows the paths cover all
values.  The real Instance.adjust_free_cores_in_memory and Instance.state are used (instance built without __init__).
"""
import time
import z3
from vt import glue, loader
from vt.common import HarnessError

FUNCS = ['schedule_job', 'mark_job_started', 'mark_job_complete', 'unschedule_job', 'mark_job_creating']
STATES = ['pending', 'active', 'inactive', 'deleted']
OLD_STATES = ['Ready', 'Creating', 'Running', 'Success', 'Cancelled']
MAINTAINED = {'schedule_job': ('active',), 'mark_job_started': ('active',), 'mark_job_complete': ('active',),
              'unschedule_job': ('active',), 'mark_job_creating': ('pending',)}
STUBS = ['batch.driver.job.job_config, notify_batch_job_complete, notify_job_group_on_job_complete, add_attempt_resources '
         '-> empty coroutines (they do not touch the instance)', 'client session post/delete succeed',
         'Instance.mark_healthy / kill / incr_failed_request_count -> empty coroutines',
         'inst_coll.adjust_for_remove_instance / adjust_for_add_instance (pool statistics) -> no-ops',
         'db.execute_and_fetchone returns an arbitrary row (rc, delta_cores_mcpu symbolic; old_state a choice)']


class _PreDb:
    def copy(self):
        return self


def _setup():
    loader.install()
    glue.pymysql_shim()
    from batch.driver import job as dj
    from batch.driver.instance import Instance
    return dj, Instance


def _run_one(dj, Instance, fname):
    """Explore one driver function; return (outcomes, m0, delta, rc, explorer)."""
    m0, delta, rc = z3.Int('mirror_before'), z3.Int('delta_cores_mcpu'), z3.Int('rc')

    async def _nothing(*a, **k):
        return None

    class MInstance(Instance):
        mark_healthy = _nothing
        kill = _nothing
        incr_failed_request_count = _nothing

    class _IC:
        is_pool = True

        def adjust_for_remove_instance(self, i):
            pass

        def adjust_for_add_instance(self, i):
            pass

    class _Notice:
        def notify(self):
            pass

        def set(self):
            pass

    class _Session:
        post = delete = staticmethod(_nothing)

    class _TM:
        def ensure_future(self, c):
            c.close()

    def body(_db):
        state = glue.choose('mem_state', STATES)
        if fname == 'schedule_job' and state != 'active':
            raise glue.PathAbort('schedule_job asserts an active instance')
        old_state = glue.choose('old_state', OLD_STATES)
        pool = glue.choose('is_pool', [True, False])
        inst = object.__new__(MInstance)
        inst.name = 'inst1'
        inst.ip_address = '10.0.0.1'
        inst._state = state
        inst._free_cores_mcpu = glue.SInt(m0)
        ic = _IC()
        ic.is_pool = pool
        inst.inst_coll = ic
        inst.cores_mcpu = 16000

        class _Db:
            async def execute_and_fetchone(self, sql, args=None, query_name=None):
                return {'rc': glue.SInt(rc), 'delta_cores_mcpu': glue.SInt(delta), 'old_state': old_state}

        class _Mgr:
            def get_instance(self, name):
                return inst

        class _Driver:
            inst_coll_manager = _Mgr()

        from gear import CommonAiohttpAppKeys
        app = {'db': _Db(), 'driver': _Driver(), 'scheduler_state_changed': _Notice(), 'cancel_ready_state_changed': _Notice(),
               CommonAiohttpAppKeys.CLIENT_SESSION: _Session(), 'task_manager': _TM(), 'resource_name_to_id': {}}
        record = {'batch_id': 1, 'job_id': 1, 'attempt_id': 'a1', 'job_group_id': 0, 'format_version': 7, 'user': 'u',
                  'instance_name': 'inst1', 'cores_mcpu': 1000}

        async def go():
            if fname == 'schedule_job':
                await dj.schedule_job(app, record, inst)
            elif fname == 'mark_job_started':
                await dj.mark_job_started(app, 1, 1, 'a1', inst, 10, [])
            elif fname == 'mark_job_creating':
                await dj.mark_job_creating(app, 1, 1, 'a1', inst, 10, [])
            elif fname == 'mark_job_complete':
                await dj.mark_job_complete(app, 1, 1, 'a1', 0, 'inst1', 'Success', None, 10, 20, 'completed', [])
            else:
                await dj.unschedule_job(app, record)
            m = inst._free_cores_mcpu
            return state, (m.e if isinstance(m, glue.SInt) else m)
        return go()

    saved = {n: getattr(dj, n) for n in ('job_config', 'notify_batch_job_complete', 'notify_job_group_on_job_complete',
                                         'add_attempt_resources', 'retry_transient_errors')}

    async def _retry(f, *a, **k):
        return await f(*a, **k)
    for n in saved:
        setattr(dj, n, _nothing)
    dj.retry_transient_errors = _retry
    try:
        ex = glue.Explorer([], max_paths=400)
        outs = ex.run(_PreDb(), body)
    finally:
        for n, f in saved.items():
            setattr(dj, n, f)
    return outs, m0, delta, rc, ex


def run(R):
    import inspect
    dj, Instance = _setup()
    src = loader.src('batch/batch/driver/job.py') if hasattr(loader, 'src') else None
    for f in FUNCS:
        fn = getattr(dj, f)
        try:
            R.encode(f'batch/batch/driver/job.py:{fn.__code__.co_firstlineno} {f}', inspect.getsource(fn))
        except Exception:
            R.encode(f'batch/batch/driver/job.py {f}', f)
    R.encode('batch/batch/driver/instance.py Instance.adjust_free_cores_in_memory',
             inspect.getsource(Instance.adjust_free_cores_in_memory))
    R.assume(*['C10 mirror: ' + s for s in STUBS])
    R.bounds['C10_mirror'] = ('one driver call per query; rc, delta_cores_mcpu, mirror_before: all integers; in-memory state in '
                              f'{STATES}; old_state in {OLD_STATES}; pool / job-private instance')
    for f in FUNCS:
        t0 = time.time()
        outs, m0, delta, rc, ex = _run_one(dj, Instance, f)
        bad = None
        n_paths = 0
        pcs = []
        for o in outs:
            pc = z3.And(*o.pc) if o.pc else z3.BoolVal(True)
            pcs.append(pc)
            if o.exc is not None:
                raise HarnessError(f'C10 mirror: {f} raised {type(o.exc).__name__}: {o.exc}')
            n_paths += 1
            state, m1 = o.value
            if state in MAINTAINED[f]:
                want = m1 == m0 + delta
            elif state in ('inactive', 'deleted'):
                want = m1 == m0
            else:
                continue   # pending instance outside mark_job_creating: the listed pending-instance class, not asserted here
            s = z3.Solver()
            s.set('timeout', 30000)
            s.add(pc, z3.Not(want))
            r = str(s.check())
            if r == 'sat':
                mdl = s.model()
                bad = {'function': f, 'mem_state': state, 'rc': mdl.eval(rc, True).as_long(),
                       'delta_cores_mcpu': mdl.eval(delta, True).as_long(), 'mirror_before': mdl.eval(m0, True).as_long(),
                       'choices': {k: mdl.eval(v[0], True).as_long() for k, v in ex.choice_vars.items()}}
                break
            if r != 'unsat':
                R.ob(f'mirror-lockstep[{f}]', 'not_discharged', time.time() - t0, f'solver answered {r}')
                bad = 'unknown'
                break
        if bad == 'unknown':
            continue
        if bad:
            got = replay_case(bad)
            if not got:
                raise HarnessError(f'C10 mirror: counterexample does not reproduce: {bad}')
            st = R.finding('in-memory-free-cores-out-of-step-with-database',
                           f"{f} with rc={bad['rc']} delta_cores_mcpu={bad['delta_cores_mcpu']} on an instance that is "
                           f"{bad['mem_state']} in memory leaves the mirror at {got['after']} (before {bad['mirror_before']})",
                           {'kind': 'mirror', **bad})
            R.ob(f'mirror-lockstep[{f}]', st, time.time() - t0, str(bad), nontrivial=True)
            continue
        # coverage: the explored paths cover every value of (rc, delta, mirror_before) and every harness choice
        s = z3.Solver()
        s.set('timeout', 30000)
        for name, (x, opts) in ex.choice_vars.items():
            s.add(x >= 0, x < len(opts))
        if f == 'schedule_job':
            s.add(ex.choice_vars['mem_state'][0] == STATES.index('active'))
        s.add(z3.Not(z3.Or(*pcs)))
        cov = str(s.check())
        # reachability twin: some path with delta != 0 and rc != 0 on a maintained state exists
        s2 = z3.Solver()
        s2.add(z3.Or(*[z3.And(pc, delta != 0, rc != 0) for pc, o in zip(pcs, outs) if o.value[0] in MAINTAINED[f]]))
        twin = str(s2.check())
        ok = cov == 'unsat' and twin == 'sat'
        R.ob(f'mirror-lockstep[{f}]', 'discharged' if ok else 'not_discharged', time.time() - t0,
             f'{n_paths} paths, {ex.solver_calls} feasibility queries; coverage query {cov}; twin (rc!=0, delta!=0 reachable) {twin}',
             nontrivial=(twin == 'sat'))
        R.sample({'mirror': f, 'paths': n_paths, 'example_path_condition': str(pcs[0])[:200]})


def replay_case(bad):
    """Concrete re-execution of one counterexample on the real driver function; returns {'after': value} if the mirror is
    out of step, else None."""
    dj, Instance = _setup()
    f = bad['function']
    vals = {'mirror_before': bad['mirror_before'], 'delta_cores_mcpu': bad['delta_cores_mcpu'], 'rc': bad['rc']}
    cons = [z3.Int(k) == v for k, v in vals.items()]
    cons += [z3.Int(k) == v for k, v in bad.get('choices', {}).items()]
    saved_explorer = glue.Explorer

    class _Ex(glue.Explorer):
        def __init__(self, constraints=(), **k):
            super().__init__(list(constraints) + cons, **k)
    glue.Explorer = _Ex
    try:
        outs, m0, delta, rc, ex = _run_one(dj, Instance, f)
    finally:
        glue.Explorer = saved_explorer
    if len(outs) != 1:
        raise HarnessError(f'C10 mirror replay: expected one concrete path, got {len(outs)}')
    state, m1 = outs[0].value
    s = z3.Solver()
    s.add(*cons)
    s.add(*outs[0].pc)
    if str(s.check()) != 'sat':
        raise HarnessError('C10 mirror replay: path condition inconsistent with the concrete values')
    after = s.model().eval(m1, True).as_long() if z3.is_expr(m1) else m1
    want = vals['mirror_before'] + (vals['delta_cores_mcpu'] if state in MAINTAINED[f] else 0)
    return {'after': after} if after != want else None
