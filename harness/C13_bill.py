"""CrossHair harness for C13: the real InstanceConfig.quantified_resources, the resource mixins and the gcp/azure
instance-config to_dict / from_dict (through json and the real dispatcher instance_config_from_config_dict).

The instance configuration is chosen by a symbolic index into the list built from the repository's own machine-type
tables (job-private: every valid machine type; pool workers: every worker type x every power-of-two core count of the
pool tables - quantified_resources asserts a power of two for pool workers) x data-disk option; preemptible is a
symbolic bool; the location alternates between two fixed strings.  The job requests (mcpu, memory in MiB, extra
storage GiB) are symbolic integers.  ProductVersions is the real class over a table in which every product has
version '1' (names only)."""
import json

from vt import loader

loader.install()
import batch.cloud.azure.resource_utils as az  # noqa: E402
import batch.cloud.gcp.resource_utils as gcp  # noqa: E402
import batch.cloud.resource_utils as ru  # noqa: E402
from batch.cloud.azure.instance_config import AzureSlimInstanceConfig  # noqa: E402
from batch.cloud.gcp.instance_config import GCPSlimInstanceConfig  # noqa: E402
from batch.cloud.utils import instance_config_from_config_dict  # noqa: E402
from batch.driver.billing_manager import ProductVersionInfo, ProductVersions  # noqa: E402
from batch.resources import DynamicSizedDiskResourceMixin  # noqa: E402

MIB = 1024 * 1024
LOCATIONS = {'gcp': ('us-central1-a', 'europe-west1-b'), 'azure': ('eastus', 'westeurope')}
ENCODED = [
    ('batch/batch/instance_config.py', 'InstanceConfig.quantified_resources'),
    ('batch/batch/resources.py', 'StaticSizedDiskResourceMixin.to_quantified_resource'),
    ('batch/batch/resources.py', 'ComputeResourceMixin.to_quantified_resource'),
    ('batch/batch/resources.py', 'VMResourceMixin.to_quantified_resource'),
    ('batch/batch/resources.py', 'MemoryResourceMixin.to_quantified_resource'),
    ('batch/batch/resources.py', 'IPFeeResourceMixin.to_quantified_resource'),
    ('batch/batch/resources.py', 'ServiceFeeResourceMixin.to_quantified_resource'),
    ('batch/batch/cloud/gcp/resources.py', 'GCPDynamicSizedDiskResource.to_quantified_resource'),
    ('batch/batch/cloud/gcp/resources.py', 'GCPAcceleratorResource.to_quantified_resource'),
    ('batch/batch/cloud/gcp/resources.py', 'GCPSupportLogsSpecsAndFirewallFees.to_quantified_resource'),
    ('batch/batch/cloud/gcp/resources.py', 'gcp_resource_from_dict'),
    ('batch/batch/cloud/azure/resources.py', 'AzureDynamicSizedDiskResource.to_quantified_resource'),
    ('batch/batch/cloud/azure/resources.py', 'azure_resource_from_dict'),
    ('batch/batch/cloud/gcp/instance_config.py', 'GCPSlimInstanceConfig.to_dict'),
    ('batch/batch/cloud/gcp/instance_config.py', 'GCPSlimInstanceConfig.from_dict'),
    ('batch/batch/cloud/azure/instance_config.py', 'AzureSlimInstanceConfig.to_dict'),
    ('batch/batch/cloud/azure/instance_config.py', 'AzureSlimInstanceConfig.from_dict'),
    ('batch/batch/cloud/utils.py', 'instance_config_from_config_dict'),
]


class AnyVersion(dict):
    def get(self, product, default=None):
        return ProductVersionInfo('1', None)


PV = ProductVersions(AnyVersion())


def pool_machine_types(cloud):
    out = []
    if cloud == 'gcp':
        for wt, cores in gcp.gcp_valid_cores_for_pool_worker_type.items():
            for c in cores:
                mt = gcp.family_worker_type_cores_to_gcp_machine_type(gcp.GCP_MACHINE_FAMILY, wt, c)
                if c & (c - 1) == 0 and mt in gcp.MACHINE_TYPE_TO_PARTS:
                    out.append((mt, wt, True))
                    out.append((mt, wt, False))
    else:
        for wt, cores in az.azure_valid_cores_from_worker_type.items():
            for c in cores:
                for ssd in (True, False):
                    mt = az.azure_worker_properties_to_machine_type(wt, c, ssd)
                    if c & (c - 1) == 0 and mt in az.MACHINE_TYPE_TO_PARTS:
                        out.append((mt, wt, ssd))
    return out


def configs(cloud, job_private):
    """[(machine_type, worker_type or None, local_ssd, data_disk_gb, location)]"""
    out = []
    if job_private:
        for i, mt in enumerate(ru.valid_machine_types(cloud)):
            for ssd in (True, False):
                out.append((mt, None, ssd, 375 if ssd else 100 + i, LOCATIONS[cloud][i % 2]))
    else:
        for i, (mt, wt, ssd) in enumerate(pool_machine_types(cloud)):
            cores = ru.machine_type_to_cores_and_memory_bytes(cloud, mt)[0]
            disk = ru.local_ssd_size(cloud, wt, cores) if ssd else 64 + 3 * i
            out.append((mt, wt, ssd, disk, LOCATIONS[cloud][i % 2]))
    return out


CONFIGS = {(cloud, jp): configs(cloud, jp) for cloud in ('gcp', 'azure') for jp in (True, False)}


def _create(cloud, job_private, ci, preemptible):
    mt, wt, ssd, disk, loc = CONFIGS[(cloud, job_private)][ci]
    cls = GCPSlimInstanceConfig if cloud == 'gcp' else AzureSlimInstanceConfig
    return cls.create(product_versions=PV, machine_type=mt, preemptible=preemptible, local_ssd_data_disk=ssd,
                      data_disk_size_gb=disk, boot_disk_size_gb=10, job_private=job_private, location=loc)


def _reload(cfg):
    """The stored form: to_dict -> json text -> json -> the real dispatcher."""
    return instance_config_from_config_dict(json.loads(json.dumps(cfg.to_dict())))


# Every configuration is created and (for the round trip) serialised + reloaded ONCE, concretely, at import time by the
# real code: these steps have no symbolic input (the configuration is selected by a symbolic index afterwards), and
# running json under CrossHair's tracer for every path is what made the conditions slow.
BUILT = {}
for _key, _lst in CONFIGS.items():
    for _ci in range(len(_lst)):
        for _pre in (False, True):
            _cfg = _create(_key[0], _key[1], _ci, _pre)
            try:
                _cfg2 = _reload(_cfg)
            except Exception as _e:     # a reload that raises is a round-trip failure of that configuration, not a harness crash
                _cfg2 = _e
            BUILT[(_key[0], _key[1], _ci, _pre)] = (_cfg, _cfg2)


def make(cloud, job_private, ci, preemptible):
    pre = True if preemptible else False
    return BUILT[(cloud, job_private, ci + 0, pre)][0], CONFIGS[(cloud, job_private)][ci][1]


def by_name(qrs):
    """name -> summed quantity (a bill may list the same resource name twice, e.g. boot disk and extra pd-ssd)."""
    out = {}
    for r in qrs:
        out[r['name']] = out.get(r['name'], 0) + r['quantity']
    return out


def whole_bill(cfg):
    """The bill of the WHOLE worker, computed independently of InstanceConfig.quantified_resources (and hence of its
    worker_fraction arithmetic): every resource of the configuration is asked directly for its quantity at the full
    fraction 1024/1024, all cores, all memory, no extra storage."""
    out = []
    for r in cfg.resources:
        q = r.to_quantified_resource(cpu_in_mcpu=cfg.cores * 1000, memory_in_bytes=cfg.instance_memory(),
                                     worker_fraction_in_1024ths=1024, external_storage_in_gib=0)
        if q is not None:
            out.append(q)
    return by_name(out)


def pack_ok(cloud, job_private, ci, preemptible, cs, ks):
    """Jobs (cs[i] mcpu, ks[i] MiB, no extra storage) that fit on the worker together are billed, per resource name,
    at most what the whole worker is billed."""
    cfg, _ = make(cloud, job_private, ci, preemptible)
    fits = True
    tot_c = 0
    tot_k = 0
    for c, k in zip(cs, ks):
        fits = fits & (c >= 0) & (k >= 0)
        tot_c = tot_c + c
        tot_k = tot_k + k
    fits = fits & (tot_c <= cfg.cores * 1000) & (tot_k * MIB <= cfg.instance_memory())
    if not fits:
        return True
    whole = whole_bill(cfg)
    sums = {}
    for c, k in zip(cs, ks):
        for name, q in by_name(cfg.quantified_resources(c, k * MIB, 0)).items():
            sums[name] = sums.get(name, 0) + q
    ok = True
    for name, q in sums.items():
        if name not in whole:
            return False
        ok = ok & (q <= whole[name]) & (q >= 0)
    return ok


def packing_reached(cloud, job_private, ci, preemptible, cs, ks):
    cfg, _ = make(cloud, job_private, ci, preemptible)
    tot = 0
    for c in cs:
        tot = tot + c
    return (tot == cfg.cores * 1000) & (cs[0] > 0) & (cs[1] > 0)


def azure_disk_size(e):
    """Smallest billable premium disk >= e GiB, from the table (independent of azure_disk_from_storage_in_gib)."""
    best = None
    for s in sorted(az.azure_disk_number_to_storage_gib.values()):
        if best is None and s >= e:
            best = s
    return best


def whole_ok(cloud, job_private, ci, preemptible, e):
    """A job that takes the whole worker (all cores, the memory that goes with them) is billed exactly the whole
    worker, plus - if it asks for e GiB of extra storage - an extra disk of at least e GiB and nothing else."""
    cfg, wt = make(cloud, job_private, ci, preemptible)
    mcpu = cfg.cores * 1000
    if job_private:
        mem = ru.machine_type_to_cores_and_memory_bytes(cloud, cfg._machine_type)[1]
    elif cloud == 'gcp':
        mem = gcp.gcp_cores_mcpu_to_memory_bytes(mcpu, gcp.GCP_MACHINE_FAMILY, wt)
    else:
        mem = az.azure_cores_mcpu_to_memory_bytes(mcpu, wt)
    whole = whole_bill(cfg)
    job = by_name(cfg.quantified_resources(mcpu, mem, e))
    extra_total = 0
    ok = True
    for name, q in job.items():
        base = whole.get(name, 0)
        ok = ok & (q >= base)
        extra_total = extra_total + (q - base)
    for name in whole:
        if name not in job:
            return False
    if cloud == 'gcp':
        ok = ok & (extra_total == e * 1024)
    else:
        size = azure_disk_size(e) if e > 0 else 0
        ok = ok & (extra_total == size * 1024) & (size >= e)
    return ok


def same_bill(q1, q2):
    if len(q1) != len(q2):
        return False
    ok = True
    for a, b in zip(q1, q2):
        if a['name'] != b['name']:
            return False
        ok = ok & (a['quantity'] == b['quantity'])
    return ok


def roundtrip_ok(cloud, job_private, ci, preemptible, c, k, e):
    """An instance config stored (to_dict -> json) and reloaded (json -> instance_config_from_config_dict) bills the
    same resources in the same quantities for every request, and re-serialises to the same dict."""
    cfg, _ = make(cloud, job_private, ci, preemptible)
    cfg2 = BUILT[(cloud, job_private, ci + 0, True if preemptible else False)][1]
    if isinstance(cfg2, Exception):
        raise cfg2
    if type(cfg2) is not type(cfg) or cfg2.cores != cfg.cores or cfg2.job_private != cfg.job_private:
        return False
    if cfg2.to_dict() != cfg.to_dict() or cfg2.instance_memory() != cfg.instance_memory():
        return False
    return same_bill(cfg.quantified_resources(c, k * MIB, e), cfg2.quantified_resources(c, k * MIB, e))
