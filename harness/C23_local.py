"""C23 CrossHair harness (bounded): the parts of ranged reading that loop over byte blocks.

  * local back end: the REAL LocalAsyncFS._open_from + TruncatedReadableBinaryIO + _ReadableStreamFromBlocking
    (+ AsyncFS.open_from / read_range on top) over `FakeFile`, a pure-Python BinaryIO with symbolic size and a
    symbolic short-read schedule;
  * `_ReadableStreamFromBlocking._readexactly` on its own (the contract the unbounded S3 run relies on);
(The Azure stream, S3 and sized-read sequences are decided by the native explorer, harness/C23_cloud.py, which is
two orders of magnitude faster per path; this module is the CrossHair cross-check of the local back end.)

Object content is DATA[:size] with pairwise distinct byte values, so "the right bytes" is equivalent to "the right
positions" for every size <= N.  Coroutines are driven by hand (nothing really suspends): `blocking_to_async` is
replaced by an inline call and fs.py's `asyncio.gather` by sequential awaiting — both stated as stubs.
"""
import asyncio
import io
import os

from vt import loader

loader.install()

from hailtop.aiotools import local_fs  # noqa: E402
from hailtop.aiotools.fs import fs as fsmod  # noqa: E402
from hailtop.aiotools.fs import stream as fsstream  # noqa: E402
from hailtop.aiotools.fs.exceptions import UnexpectedEOFError  # noqa: E402

N = 8
DATA = bytes(range(1, N + 1))


async def _inline(pool, fun, *a, **k):
    return fun(*a, **k)


class _AsyncioProxy:
    def __getattr__(self, k):
        return getattr(asyncio, k)

    @staticmethod
    async def gather(*aws):
        return [await a for a in aws]


local_fs.blocking_to_async = _inline
fsstream.blocking_to_async = _inline
fsmod.asyncio = _AsyncioProxy()


def drive(coro):
    try:
        coro.send(None)
    except StopIteration as e:
        return e.value
    coro.close()
    raise RuntimeError('coroutine suspended: a stub awaited something real')


class FakeFile:
    """BinaryIO over DATA[:size]; read(n>=0) may return fewer bytes than available (never 0 before EOF) following
    the schedule `shorts`; read(-1)/read() returns everything up to EOF (io.BufferedReader / RawIOBase.readall)."""
    mode = 'rb'
    name = 'fake'

    def __init__(self, size, shorts=()):
        self.size = size
        self.pos = 0
        self.shorts = list(shorts)
        self.closed = False

    def seek(self, off, whence=0):
        if whence == 0:
            self.pos = off
        elif whence == 1:
            self.pos += off
        else:
            self.pos = self.size + off
        return self.pos

    def tell(self):
        return self.pos

    def read(self, n=-1):
        avail = self.size - self.pos
        if avail < 0:
            avail = 0
        if n is None or n < 0:
            k = avail
        else:
            k = n if n < avail else avail
            if self.shorts:
                s = self.shorts.pop(0)
                if 1 <= s < k:
                    k = s
        out = DATA[self.pos:self.pos + k]
        self.pos += k
        return out

    def close(self):
        self.closed = True


def _local_fs(size, shorts):
    fs = local_fs.LocalAsyncFS.__new__(local_fs.LocalAsyncFS)
    fs._thread_pool = None
    local_fs.open = lambda path, mode='rb': FakeFile(size, shorts)

    async def isfile(u):
        return True

    async def isdir(u):
        return False

    fs.isfile = isfile
    fs.isdir = isdir
    return fs


def expected(size, start, length):
    d = DATA[:size]
    if length is None:
        return d[start:]
    return d[start:start + length]


# ---- (L1) _ReadableStreamFromBlocking._readexactly contract ---------------------------------------------
def readexactly_outcome(size, pos, n, shorts):
    f = FakeFile(size, shorts)
    f.seek(pos)
    s = fsstream._ReadableStreamFromBlocking(None, f)
    try:
        return ('ok', drive(s.readexactly(n)))
    except UnexpectedEOFError:
        return ('eof', None)


def readexactly_ok(size, pos, n, shorts):
    kind, r = readexactly_outcome(size, pos, n, shorts)
    if n == 0:
        return kind == 'ok' and r == b''
    if pos + n <= size:
        return kind == 'ok' and r == DATA[pos:pos + n]
    return kind == 'eof'


# ---- (L2) local read_range -------------------------------------------------------------------------------
def local_read_range_outcome(size, start, end, incl, shorts):
    fs = _local_fs(size, shorts)
    try:
        return ('ok', drive(fs.read_range('/obj', start, end, end_inclusive=incl)))
    except UnexpectedEOFError:
        return ('eof', None)
    except Exception as e:
        return ('exc', type(e).__name__)


def local_read_range_ok(size, start, end, incl, shorts):
    kind, r = local_read_range_outcome(size, start, end, incl, shorts)
    m = end - start + (1 if incl else 0)
    if m == 0:
        return kind == 'ok' and r == b''
    if start + m <= size:
        return kind == 'ok' and r == DATA[start:start + m]
    return kind == 'eof'


# ---- (L3) local open_from + read() / read_from -----------------------------------------------------------
def local_open_read_outcome(size, start, length):
    fs = _local_fs(size, ())

    async def go():
        async with await fs.open_from('/obj', start, length=length) as f:
            return await f.read()
    try:
        return ('ok', drive(go()))
    except UnexpectedEOFError:
        return ('eof', None)
    except Exception as e:
        return ('exc', type(e).__name__)


def local_open_read_ok(size, start, length):
    kind, r = local_open_read_outcome(size, start, length)
    return kind == 'ok' and r == expected(size, start, length)
