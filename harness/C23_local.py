"""C23 CrossHair harness (bounded): the parts of ranged reading that loop over byte blocks.

  * local back end: the REAL LocalAsyncFS._open_from + TruncatedReadableBinaryIO + _ReadableStreamFromBlocking
    (+ AsyncFS.open_from / read_range on top) over `FakeFile`, a pure-Python BinaryIO with symbolic size and a
    symbolic short-read schedule;
  * `_ReadableStreamFromBlocking._readexactly` on its own (the contract the unbounded S3 run relies on);
  * Azure: the REAL AzureAsyncFS._open_from + AzureReadableStream.read/readexactly over a fake BlobClient whose
    downloader hands the body out in chunks of symbolic sizes.

Object content is DATA[:size] with pairwise distinct byte values, so "the right bytes" is equivalent to "the right
positions" for every size <= N.  Coroutines are driven by hand (nothing really suspends): `blocking_to_async` is
replaced by an inline call and fs.py's `asyncio.gather` by sequential awaiting — both stated as stubs.
"""
import asyncio
import io
import os

from vt import loader

loader.install()

import azure.core.exceptions as _ace  # noqa: E402


class HttpResponseError(Exception):
    def __init__(self, status_code=None, message=''):
        super().__init__(message)
        self.status_code = status_code


class ResourceNotFoundError(HttpResponseError):
    pass


class ClientAuthenticationError(HttpResponseError):
    pass


if not (isinstance(getattr(_ace, 'HttpResponseError', None), type) and issubclass(_ace.HttpResponseError, Exception)):
    _ace.HttpResponseError = HttpResponseError
    _ace.ResourceNotFoundError = ResourceNotFoundError
    _ace.ClientAuthenticationError = ClientAuthenticationError
else:  # harness/C23_cloud.py got there first in this process: share its classes
    HttpResponseError = _ace.HttpResponseError  # noqa: F811

from hailtop.aiocloud.aioazure import fs as azfs  # noqa: E402
from hailtop.aiotools import local_fs  # noqa: E402
from hailtop.aiotools.fs import fs as fsmod  # noqa: E402
from hailtop.aiotools.fs import stream as fsstream  # noqa: E402
from hailtop.aiotools.fs.exceptions import UnexpectedEOFError  # noqa: E402

N = 8
DATA = bytes(range(1, N + 1))


async def _inline(pool, fun, *a, **k):
    return fun(*a, **k)


class _AsyncioProxy:
    def __getattr__(self, k):
        return getattr(asyncio, k)

    @staticmethod
    async def gather(*aws):
        return [await a for a in aws]


local_fs.blocking_to_async = _inline
fsstream.blocking_to_async = _inline
fsmod.asyncio = _AsyncioProxy()


def drive(coro):
    try:
        coro.send(None)
    except StopIteration as e:
        return e.value
    coro.close()
    raise RuntimeError('coroutine suspended: a stub awaited something real')


class FakeFile:
    """BinaryIO over DATA[:size]; read(n>=0) may return fewer bytes than available (never 0 before EOF) following
    the schedule `shorts`; read(-1)/read() returns everything up to EOF (io.BufferedReader / RawIOBase.readall)."""
    mode = 'rb'
    name = 'fake'

    def __init__(self, size, shorts=()):
        self.size = size
        self.pos = 0
        self.shorts = list(shorts)
        self.closed = False

    def seek(self, off, whence=0):
        if whence == 0:
            self.pos = off
        elif whence == 1:
            self.pos += off
        else:
            self.pos = self.size + off
        return self.pos

    def tell(self):
        return self.pos

    def read(self, n=-1):
        avail = self.size - self.pos
        if avail < 0:
            avail = 0
        if n is None or n < 0:
            k = avail
        else:
            k = n if n < avail else avail
            if self.shorts:
                s = self.shorts.pop(0)
                if 1 <= s < k:
                    k = s
        out = DATA[self.pos:self.pos + k]
        self.pos += k
        return out

    def close(self):
        self.closed = True


def _local_fs(size, shorts):
    fs = local_fs.LocalAsyncFS.__new__(local_fs.LocalAsyncFS)
    fs._thread_pool = None
    local_fs.open = lambda path, mode='rb': FakeFile(size, shorts)

    async def isfile(u):
        return True

    async def isdir(u):
        return False

    fs.isfile = isfile
    fs.isdir = isdir
    return fs


def expected(size, start, length):
    d = DATA[:size]
    if length is None:
        return d[start:]
    return d[start:start + length]


# ---- (L1) _ReadableStreamFromBlocking._readexactly contract ---------------------------------------------
def readexactly_outcome(size, pos, n, shorts):
    f = FakeFile(size, shorts)
    f.seek(pos)
    s = fsstream._ReadableStreamFromBlocking(None, f)
    try:
        return ('ok', drive(s.readexactly(n)))
    except UnexpectedEOFError:
        return ('eof', None)


def readexactly_ok(size, pos, n, shorts):
    kind, r = readexactly_outcome(size, pos, n, shorts)
    if n == 0:
        return kind == 'ok' and r == b''
    if pos + n <= size:
        return kind == 'ok' and r == DATA[pos:pos + n]
    return kind == 'eof'


# ---- (L2) local read_range -------------------------------------------------------------------------------
def local_read_range_outcome(size, start, end, incl, shorts):
    fs = _local_fs(size, shorts)
    try:
        return ('ok', drive(fs.read_range('/obj', start, end, end_inclusive=incl)))
    except UnexpectedEOFError:
        return ('eof', None)
    except Exception as e:
        return ('exc', type(e).__name__)


def local_read_range_ok(size, start, end, incl, shorts):
    kind, r = local_read_range_outcome(size, start, end, incl, shorts)
    m = end - start + (1 if incl else 0)
    if m == 0:
        return kind == 'ok' and r == b''
    if start + m <= size:
        return kind == 'ok' and r == DATA[start:start + m]
    return kind == 'eof'


# ---- (L3) local open_from + read() / read_from -----------------------------------------------------------
def local_open_read_outcome(size, start, length):
    fs = _local_fs(size, ())

    async def go():
        async with await fs.open_from('/obj', start, length=length) as f:
            return await f.read()
    try:
        return ('ok', drive(go()))
    except UnexpectedEOFError:
        return ('eof', None)
    except Exception as e:
        return ('exc', type(e).__name__)


def local_open_read_ok(size, start, length):
    kind, r = local_open_read_outcome(size, start, length)
    return kind == 'ok' and r == expected(size, start, length)


# ---- (L4) local open_from + sized reads until b'' (short reads allowed) ----------------------------------
def local_read_loop_outcome(size, start, length, ns, shorts):
    fs = _local_fs(size, shorts)

    async def go():
        out = []
        async with await fs.open_from('/obj', start, length=length) as f:
            for n in ns:
                b = await f.read(n)
                if len(b) > n:
                    return None
                out.append(b)
            # drain with 1-byte... no: with whole-remaining reads, at most N+1 rounds
            for _ in range(N + 1):
                b = await f.read(N)
                if not b:
                    break
                out.append(b)
            else:
                return None
        return b''.join(out)
    try:
        return ('ok', drive(go()))
    except Exception as e:
        return ('exc', type(e).__name__)


def local_read_loop_ok(size, start, length, ns, shorts):
    kind, r = local_read_loop_outcome(size, start, length, ns, shorts)
    return kind == 'ok' and r == expected(size, start, length)


# ---- Azure -----------------------------------------------------------------------------------------------
class _Downloader:
    def __init__(self, body, cuts):
        self.body = body
        self.cuts = cuts

    async def readall(self):
        return self.body

    def chunks(self):
        body, cuts = self.body, self.cuts

        async def it():
            p = 0
            for c in cuts:
                if 1 <= c < len(body) - p:
                    yield body[p:p + c]
                    p += c
            if p < len(body):
                yield body[p:]
        return it()


class _BlobClient:
    """download_blob semantics of azure.storage.blob.aio.BlobClient (see harness/C23_cloud.py)."""

    def __init__(self, size, cuts):
        self.size = size
        self.cuts = cuts
        self.calls = []

    async def download_blob(self, offset=None, length=None):
        self.calls.append((offset, length))
        d = DATA[:self.size]
        if offset is None:
            if length is not None:
                raise ValueError('Offset value must not be None if length is set.')
            return _Downloader(d, self.cuts)
        if length is not None and length < 1:
            return _Downloader(d, self.cuts)
        if offset >= self.size:
            raise HttpResponseError(416, 'InvalidRange')
        if length is None:
            return _Downloader(d[offset:], self.cuts)
        return _Downloader(d[offset:offset + length], self.cuts)


def _azure_fs(size, cuts):
    fs = azfs.AzureAsyncFS.__new__(azfs.AzureAsyncFS)
    client = _BlobClient(size, cuts)

    async def get_blob_client(url):
        return client

    async def yes(url):
        return True

    async def no(url):
        return False

    fs.get_blob_client = get_blob_client
    fs.exists = yes
    fs.isfile = yes
    fs.isdir = no
    return fs


AZ_URL = 'https://account.blob.core.windows.net/container/obj'


def azure_read_range_outcome(size, start, end, incl, cuts):
    fs = _azure_fs(size, cuts)
    try:
        return ('ok', drive(fs.read_range(AZ_URL, start, end, end_inclusive=incl)))
    except UnexpectedEOFError:
        return ('eof', None)
    except Exception as e:
        return ('exc', type(e).__name__)


def azure_read_range_ok(size, start, end, incl, cuts):
    kind, r = azure_read_range_outcome(size, start, end, incl, cuts)
    m = end - start + (1 if incl else 0)
    if m == 0:
        return kind == 'ok' and r == b''
    if start + m <= size:
        return kind == 'ok' and r == DATA[start:start + m]
    return kind == 'eof'


def azure_seq_outcome(size, start, length, ns, cuts):
    """open_from(start, length); read(n) for n in ns; read() — concatenation of everything returned."""
    fs = _azure_fs(size, cuts)

    async def go():
        out = []
        async with await fs.open_from(AZ_URL, start, length=length) as f:
            for n in ns:
                b = await f.read(n)
                if len(b) > n:
                    return None
                out.append(b)
            out.append(await f.read())
        return b''.join(out)
    try:
        return ('ok', drive(go()))
    except UnexpectedEOFError:
        return ('eof', None)
    except Exception as e:
        return ('exc', type(e).__name__)


def azure_seq_ok(size, start, length, ns, cuts):
    kind, r = azure_seq_outcome(size, start, length, ns, cuts)
    if kind == 'ok':
        return r == expected(size, start, length)
    # an offset at or past the end of the object may be signalled as an unexpected EOF (as GCS and S3 do)
    return kind == 'eof' and start >= size and length != 0
