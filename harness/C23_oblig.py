"""C23: one obligation = explore the real code on one back end / operation (harness/C23_cloud.py) and decide with
z3 whether ANY feasible path returns something other than the specified bytes.

`decide(spec)` is a plain function on plain data so that obligations can run in worker processes.
spec keys: backend, op, mode ('sym'|'tag'), bound, shorts, haslen (bool|None), k (number of sized reads for `seq`).
"""
import time

import z3

from harness import C23_cloud as H
from vt import natsym
from vt.common import HarnessError

K416 = 'azure-read-to-end-at-or-past-eof-raises-raw-http-416'
KLEN = 'azure-sized-read-ignores-range-length'


def pattern(size):
    return bytes((i * 7 + 3) % 251 for i in range(size))


def variables(spec):
    v = {'size': z3.Int('size'), 'start': z3.Int('start')}
    op = spec['op']
    if op == 'read_range':
        v['end'] = z3.Int('end')
        v['incl'] = z3.Bool('incl')
    if op in ('open_read', 'seq', 'drain') and spec.get('haslen'):
        v['length'] = z3.Int('length')
    if op == 'seq':
        for i in range(spec.get('k', 1)):
            v[f'n{i + 1}'] = z3.Int(f'n{i + 1}')
    if op == 'drain':
        v['n'] = z3.Int('n')
    return v


def spec_terms(spec, v):
    """What the property demands: expected length, when UnexpectedEOFError is required / tolerated."""
    size, start = v['size'], v['start']
    if spec['op'] == 'read_range':
        m = v['end'] - start + z3.If(v['incl'], 1, 0)
        must = z3.And(m > 0, start + m > size)
        return {'elen': m, 'must_eof': must, 'may_eof': must, 'm': m}
    avail = z3.If(size - start > 0, size - start, 0)
    if 'length' in v:
        L = v['length']
        elen = z3.If(L < avail, L, avail)
        may = z3.And(start >= size, L != 0)
    else:
        elen = avail
        may = start >= size
    return {'elen': elen, 'must_eof': z3.BoolVal(False), 'may_eof': may}


def constraints(spec, v, st):
    B = spec['bound']
    c = [v['size'] >= 0, v['start'] >= 0]
    if spec['op'] == 'read_range':
        c.append(st['m'] >= 0)
        if spec['mode'] == 'tag':
            c.append(st['m'] <= B)
    else:
        if 'length' in v:
            c.append(v['length'] >= 0)
        if spec['mode'] == 'tag':
            c.append(v['size'] - v['start'] <= B)
            if 'length' in v:
                c.append(v['length'] <= B + 1)
    for k, x in v.items():
        if k.startswith('n') and k != 'n':
            c += [x >= 0, x <= B]
    if 'n' in v:
        c += [v['n'] >= 1, v['n'] <= B]
    return c


def mk_args(spec, v):
    op = spec['op']
    S = H.RInt
    length = S(v['length']) if 'length' in v else None

    def f():
        if op == 'read_range':
            return S(v['start']), [S(v['start']), S(v['end']), natsym.SBool(v['incl'])]
        if op == 'open_read':
            return S(v['start']), [S(v['start']), length]
        if op == 'read_from':
            return S(v['start']), [S(v['start'])]
        if op == 'seq':
            return S(v['start']), [S(v['start']), length, [S(v[f'n{i + 1}']) for i in range(spec.get('k', 1))]]
        if op == 'drain':
            return S(v['start']), [S(v['start']), length, S(v['n'])]
        raise HarnessError(op)
    return f


def concrete_args(spec, vals):
    op = spec['op']
    length = vals.get('length')
    if op == 'read_range':
        return [vals['start'], vals['end'], bool(vals['incl'])]
    if op == 'open_read':
        return [vals['start'], length]
    if op == 'read_from':
        return [vals['start']]
    if op == 'seq':
        return [vals['start'], length, [vals[f'n{i + 1}'] for i in range(spec.get('k', 1))]]
    return [vals['start'], length, vals['n']]


def oracle(spec, vals, data):
    """Plain-Python statement of the property on concrete values: -> set of acceptable outcomes."""
    size, start = len(data), vals['start']
    if spec['op'] == 'read_range':
        m = vals['end'] - start + (1 if vals['incl'] else 0)
        if m > 0 and start + m > size:
            return [('exc', 'UnexpectedEOFError')]
        return [('ok', data[start:start + m] if m > 0 else b'')]
    length = vals.get('length')
    exp = data[start:] if length is None else data[start:start + length]
    acc = [('ok', exp)]
    if start >= size and length != 0:
        acc.append(('exc', 'UnexpectedEOFError'))
    return acc


def _exc_name(e):
    n = type(e).__name__
    return n.lstrip('_')


def judge(spec, o, v, st, data_arr, j):
    """-> (bad: z3 Bool 'this path violates the property', sig: outcome signature for classes)."""
    if o.exc is not None:
        n = _exc_name(o.exc)
        if n == 'UnexpectedEOFError':
            return z3.Not(st['may_eof']), 'eof'
        if n == 'HttpResponseError' and getattr(o.exc, 'status_code', None) == 416:
            return z3.BoolVal(True), 'http416'
        return z3.BoolVal(True), 'exc:' + n
    r = o.value
    if isinstance(r, H.SymSlice):
        ln, off = H.term(r.ln), H.term(r.off)
        wrong = z3.And(j >= 0, j < st['elen'], z3.Select(data_arr, off + j) != z3.Select(data_arr, v['start'] + j))
        return z3.Or(st['must_eof'], ln != st['elen'], wrong), 'bytes'
    if isinstance(r, (bytes, bytearray)):
        tags_ok = all(b == H.TAG0 + i for i, b in enumerate(r))
        return z3.Or(st['must_eof'], z3.IntVal(len(r)) != st['elen'], z3.BoolVal(not tags_ok)), 'bytes'
    return z3.BoolVal(True), 'value:' + type(r).__name__


def _model_vals(m, v):
    out = {}
    for k, x in v.items():
        val = m.eval(x, model_completion=True)
        out[k] = z3.is_true(val) if z3.is_bool(x) else val.as_long()
    return out


def _schedule(o):
    sched = []
    for i in range(1, 10):
        ks = [k for k in o.notes if k.startswith(f'short{i}_of')]
        if not ks:
            break
        sched.append(o.notes[ks[0]])
    return sched


def _solve(cons, extra, v, small=64):
    """Model with small values when one exists (replay-friendly), any model otherwise."""
    for bound in (small, None):
        s = z3.Solver()
        s.set('timeout', 60000)
        s.add(*cons)
        s.add(*extra)
        if bound is not None:
            for k, x in v.items():
                if not z3.is_bool(x):
                    s.add(x <= bound)
        r = str(s.check())
        if r == 'sat':
            return 'sat', s.model()
        if r == 'unknown':
            return 'unknown', None
        if bound is None:
            return 'unsat', None
    return 'unsat', None


def run_concrete(spec, vals, sched):
    data = pattern(vals['size'])
    (kind, val), blob = H.concrete(spec['backend'], spec['op'], data, concrete_args(spec, vals), schedule=sched)
    if kind == 'exc':
        val = val.lstrip('_')
    return (kind, val), data, blob


def decide(spec):
    t0 = time.time()
    v = variables(spec)
    st = spec_terms(spec, v)
    cons = constraints(spec, v, st)
    outs, ex = H.explore(spec['backend'], spec['op'], mk_args(spec, v), cons, mode=spec['mode'], bound=spec['bound'],
                         shorts=spec.get('shorts', 0), max_paths=spec.get('max_paths', 60000))
    res = {'spec': spec, 'paths': len(outs), 'pruned': len(ex.pruned), 'solver_calls': ex.solver_calls,
           'queries': [], 'validation_points': 0, 'samples': []}
    cover = ex.covers(outs)
    res['coverage'] = cover
    data_arr = z3.Array('data', z3.IntSort(), z3.IntSort())
    j = z3.Int('j')
    judged = [(o,) + judge(spec, o, v, st, data_arr, j) for o in outs]

    # ---- validation: every path's symbolic outcome equals the concrete run on a model of its path condition
    limit = spec.get('validate', 80)
    step = max(1, len(outs) // limit)
    for o in outs[::step]:
        r, m = _solve(cons, [o.cond], v)
        if r != 'sat':
            raise HarnessError(f'path condition of an explored path is {r}')
        vals = _model_vals(m, v)
        got, data, _ = run_concrete(spec, vals, _schedule(o))
        if o.exc is not None:
            want = ('exc', _exc_name(o.exc))
        elif isinstance(o.value, H.SymSlice):
            off = m.eval(H.term(o.value.off), model_completion=True).as_long()
            ln = m.eval(H.term(o.value.ln), model_completion=True).as_long()
            want = ('ok', data[off:off + ln] if ln > 0 else b'')
        else:
            want = ('ok', bytes(data[vals['start'] + (b - H.TAG0)] for b in o.value))
        if got != want:
            raise HarnessError(f'symbolic path and concrete run disagree: spec={spec} vals={vals} '
                               f'sched={_schedule(o)} symbolic={want} concrete={got}')
        res['validation_points'] += 1
        if len(res['samples']) < 3:
            res['samples'].append({'inputs': vals, 'short_reads': _schedule(o), 'outcome': [got[0], repr(got[1])]})

    # ---- reachability: a path that returns >= 1 byte and (where it can happen) one that signals EOF
    reach = {}
    for name, cond in (('returns_bytes', [z3.Or(*[z3.And(o.cond, z3.Not(bad), st['elen'] >= 1)
                                                  for o, bad, sig in judged if sig == 'bytes'] or [False])]),
                       ('signals_eof', [z3.Or(*[z3.And(o.cond, z3.Not(bad)) for o, bad, sig in judged
                                                if sig == 'eof'] or [False])])):
        reach[name] = _solve(cons, cond, v)[0]
    res['reach'] = reach

    # ---- the verdict queries
    klen_region = z3.BoolVal(False)
    if spec['backend'] == 'azure' and 'length' in v and spec['op'] in ('seq', 'drain'):
        klen_region = v['size'] > v['start'] + v['length']
    groups = {
        'new': [z3.And(o.cond, bad, z3.Not(klen_region)) for o, bad, sig in judged if sig != 'http416' or
                spec['backend'] != 'azure'],
        K416: [z3.And(o.cond, bad) for o, bad, sig in judged if sig == 'http416' and spec['backend'] == 'azure'],
        KLEN: [z3.And(o.cond, bad, klen_region) for o, bad, sig in judged if sig != 'http416'],
    }
    for cls, disj in groups.items():
        if cls != 'new' and not disj:
            continue
        if cls == KLEN and z3.is_false(klen_region):
            continue
        tq = time.time()
        r, m = _solve(cons, [z3.Or(*disj) if disj else z3.BoolVal(False)], v)
        q = {'class': cls, 'result': r, 'secs': round(time.time() - tq, 3)}
        if r == 'sat':
            vals = _model_vals(m, v)
            path = next(o for o, bad, sig in judged if z3.is_true(m.eval(o.cond, model_completion=True))
                        and z3.is_true(m.eval(z3.And(bad), model_completion=True)))
            sched = _schedule(path)
            got, data, blob = run_concrete(spec, vals, sched)
            acc = oracle(spec, vals, data)
            q.update({'inputs': vals, 'short_reads': sched, 'got': [got[0], repr(got[1])],
                      'accepted': [[a, repr(b)] for a, b in acc], 'reproduced': got not in acc,
                      'requests': [repr(x) for x in blob.requests][:6]})
        res['queries'].append(q)
    res['secs'] = round(time.time() - t0, 2)
    return res


def replay(rp):
    spec, vals = rp['spec'], rp['inputs']
    got, data, blob = run_concrete(spec, vals, rp.get('short_reads', []))
    acc = oracle(spec, vals, data)
    print(f"{spec['backend']} {spec['op']} {vals} short_reads={rp.get('short_reads')}: got {got}, "
          f"specified {acc}; transport requests {blob.requests[:4]}")
    return 1 if got not in acc else 0
