"""Generates the CrossHair condition functions for C27 (CrossHair reads contracts from source text)."""

HEAD = 'from harness import C27_db as H\n'

COND = '''
def {NAME}({ARGS}) -> bool:
    """
    pre: {PRE}
    post: _
    """
    return H.check({ENTRY!r}, {NSTMT}, {RO}, [{FAULTS}]) == ''
'''

TWIN = '''
def {NAME}({ARGS}) -> bool:
    """
    pre: {PRE}
    post: _
    """
    # reachability twin: must be REFUTED (some plan in this shard reaches the end of the scenario {WHAT})
    return H.outcome_of({ENTRY!r}, {NSTMT}, {RO}, [{FAULTS}]) != {EXPECT}
'''


def name(entry, nstmt, ro, nf, fixed, twin=False):
    return f'{"t" if twin else "c"}_{entry}_{nstmt}_{"ro" if ro else "rw"}_f{nf}_op{"_".join(str(x) for x in fixed)}'


def argnames(nf, fixed):
    out = []
    for i in range(nf):
        if i >= len(fixed):
            out.append(f'op{i}')
        out += [f'cls{i}', f'code{i}']
    return out


def _kw(entry, nstmt, ro, nf, fixed, ops):
    pre = []
    for i in range(nf):
        p = f'0 <= cls{i} <= 4 and -1 <= code{i} <= 100000'
        if i >= len(fixed):
            p = f'0 <= op{i} <= {ops} and ' + p
        pre.append(p)
    faults = ', '.join(f'({fixed[i] if i < len(fixed) else "op%d" % i}, cls{i}, code{i})' for i in range(nf))
    return dict(ARGS=', '.join(f'{a}: int' for a in argnames(nf, fixed)), PRE=' and '.join(pre) or 'True', ENTRY=entry,
                NSTMT=nstmt, RO=ro, FAULTS=faults)


def source(conds, n_ops):
    """conds: list of (entry, nstmt, ro, nf, fixed_ops); op value n_ops means "never reached".  A twin per condition:
    when every fixed op is reachable the twin asks for nf retried attempts followed by success, otherwise for the run
    to succeed after the reachable prefix."""
    out = [HEAD]
    for c in conds:
        entry, nstmt, ro, nf, fixed = c
        ops = n_ops(entry, nstmt)
        kw = _kw(entry, nstmt, ro, nf, fixed, ops)
        out.append(COND.format(NAME=name(*c), **kw))
        k = 0
        while k < len(fixed) and fixed[k] < ops:
            k += 1
        attempts = nf + 1 if k == len(fixed) else k + 1
        out.append(TWIN.format(NAME=name(*c, twin=True), EXPECT=f"({attempts}, 'returned')",
                               WHAT=f'after {attempts} attempts with success', **kw))
    return '\n'.join(out)
