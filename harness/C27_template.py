"""Generates the CrossHair condition functions for C27 (CrossHair reads contracts from source text)."""

HEAD = 'from harness import C27_db as H\n'

COND = '''
def {NAME}({ARGS}) -> bool:
    """
    pre: {PRE}
    post: _
    """
    return H.check({ENTRY!r}, {NSTMT}, {RO}, [{FAULTS}]) == ''
'''

TWIN = '''
def {NAME}({ARGS}) -> bool:
    """
    pre: {PRE}
    post: _
    """
    # reachability twin: must be REFUTED (some plan makes every planned fault fire and be retried, then succeeds)
    return H.outcome_of({ENTRY!r}, {NSTMT}, {RO}, [{FAULTS}]) != ({NF} + 1, 'returned')
'''


def name(entry, nstmt, ro, nf, op0lo, op0hi, twin=False):
    return f'{"t" if twin else "c"}_{entry}_{nstmt}_{"ro" if ro else "rw"}_f{nf}_op{op0lo}_{op0hi}'


def argnames(nf):
    out = []
    for i in range(nf):
        out += [f'op{i}', f'cls{i}', f'code{i}']
    return out


def _kw(entry, nstmt, ro, nf, op0lo, op0hi, ops):
    pre = []
    for i in range(nf):
        lo, hi = (op0lo, op0hi) if i == 0 else (0, ops + 1)
        pre.append(f'{lo} <= op{i} < {hi} and 0 <= cls{i} <= 4 and -1 <= code{i} <= 100000')
    return dict(ARGS=', '.join(f'{a}: int' for a in argnames(nf)), PRE=' and '.join(pre) or 'True', ENTRY=entry,
                NSTMT=nstmt, RO=ro, NF=nf, FAULTS=', '.join(f'(op{i}, cls{i}, code{i})' for i in range(nf)))


def source(conds, n_ops):
    """conds: list of (entry, nstmt, ro, nf, op0lo, op0hi); a twin is generated for each"""
    out = [HEAD]
    for c in conds:
        kw = _kw(*c, n_ops(c[0], c[1]))
        out.append(COND.format(NAME=name(*c), **kw))
        out.append(TWIN.format(NAME=name(*c, twin=True), **kw))
    return '\n'.join(out)
