"""Generates the CrossHair condition functions for C21 (CrossHair reads contracts from source text)."""

HEAD = 'from harness import C21_retry as H\n'

SWEEP = '''
def sweep{T}(kind: int, p: int, s: int, depth: int, {RARGS}) -> bool:
    """
    pre: 0 <= kind < {K} and -2 <= p <= 100000 and 0 <= s < {MAXS} and 0 <= depth <= 2
    pre: {RPRE}
    post: _
    """
    return H.sweep(True, {T}, kind, p, s, depth, [{RLIST}]) == ''

'''

TWIN = '''
def sweep{T}_reach_{WHAT}(kind: int, p: int, s: int, depth: int, {RARGS}) -> bool:
    """
    pre: 0 <= kind < {K} and -2 <= p <= 100000 and 0 <= s < {MAXS} and 0 <= depth <= 2
    pre: {RPRE}
    post: _
    """
    # reachability twin: must be REFUTED (failure {T} can be {WHAT})
    excs = [H.U.TransientError() for _ in range({T} - 1)] + [H.make_exc(kind, p, s, depth)]
    return H.drive(H.CUT_LOOP, excs, [{RLIST}])[0] != '{WHAT}'
'''

SEQ = '''
def seq{N}_{K1}({KARGS}{SEP}jmax: int) -> bool:
    """
    pre: {KPRE}
    pre: 0 <= jmax <= 1
    post: _
    """
    return H.seq(False, {N}, [{KLIST}], [jmax * H.jitter_range(i + 1) for i in range({N})]) == ''


def seq{N}_{K1}_reach({KARGS}{SEP}jmax: int) -> bool:
    """
    pre: {KPRE}
    pre: 0 <= jmax <= 1
    post: _
    """
    # reachability twin: must be REFUTED (some sequence of {N} failures is retried through to success)
    return H.seq_outcome(False, {N}, [{KLIST}], [jmax * H.jitter_range(i + 1) for i in range({N})]) != 'ok'
'''


def source(ts, seqs, K, MAXS, NREPS, jitter_range):
    out = [HEAD]
    for t in ts:
        rn = [f'r{i}' for i in range(1, t + 1)]
        kw = dict(T=t, K=K, MAXS=MAXS, RARGS=', '.join(f'{r}: int' for r in rn), RLIST=', '.join(rn),
                  RPRE=' and '.join(f'0 <= r{i} <= {jitter_range(i)}' for i in range(1, t + 1)))
        out.append(SWEEP.format(**kw))
        for what in ('ok', 'raised'):
            out.append(TWIN.format(WHAT=what, **kw))
    for n, k1 in seqs:
        kn = [f'k{i}' for i in range(2, n + 1)]
        out.append(SEQ.format(N=n, K1=k1, KARGS=', '.join(f'{k}: int' for k in kn), SEP=', ' if kn else '',
                              KPRE=' and '.join(f'0 <= {k} < {NREPS}' for k in kn) or 'True',
                              KLIST=', '.join([str(k1)] + kn)))
    return '\n'.join(out)
