"""Generates the CrossHair condition functions for C21 (CrossHair reads contracts from source text)."""

HEAD = 'from harness import C21_retry as H\n'

SWEEP = '''
def sweep{T}(kind: int, p: int, s: int, depth: int, jsel: int) -> bool:
    """
    pre: 0 <= kind < {K} and -2 <= p <= 100000 and 0 <= s < {MAXS} and 0 <= depth <= 2 and 0 <= jsel <= 2
    post: _
    """
    return H.sweep({T}, kind, p, s, depth, jsel) == ''
'''

TWIN = '''
def sweep{T}_reach_{WHAT}(kind: int, p: int, s: int, depth: int, jsel: int) -> bool:
    """
    pre: 0 <= kind < {K} and -2 <= p <= 100000 and 0 <= s < {MAXS} and 0 <= depth <= 2 and 0 <= jsel <= 2
    post: _
    """
    # reachability twin: must be REFUTED (failure {T} can be {WHAT})
    return H.drive(H.sweep_excs({T}, kind, p, s, depth), H.jitter_list(jsel, {T}))[0] != '{WHAT}'
'''

SEQ = '''
def seq{N}_{K1}({KARGS}{SEP}jsel: int) -> bool:
    """
    pre: {KPRE}
    pre: 0 <= jsel <= 2
    post: _
    """
    return H.seq({N}, [{KLIST}], jsel) == ''


def seq{N}_{K1}_reach({KARGS}{SEP}jsel: int) -> bool:
    """
    pre: {KPRE}
    pre: 0 <= jsel <= 2
    post: _
    """
    # reachability twin: must be REFUTED (some sequence of {N} failures starting with this kind ends the way the
    # oracle's last case does: all retried -> 'ok', or, when the first kind is permanent, 'raised')
    return H.drive(H.seq_excs({N}, [{KLIST}]), H.jitter_list(jsel, {N}))[0] != '{WHAT}'
'''


def source(ts, seqs, K, MAXS, NREPS):
    """seqs: list of (n, first_kind, twin_outcome)"""
    out = [HEAD]
    for t in ts:
        kw = dict(T=t, K=K, MAXS=MAXS)
        out.append(SWEEP.format(**kw))
        for what in ('ok', 'raised'):
            out.append(TWIN.format(WHAT=what, **kw))
    for n, k1, what in seqs:
        kn = [f'k{i}' for i in range(2, n + 1)]
        out.append(SEQ.format(N=n, K1=k1, KARGS=', '.join(f'{k}: int' for k in kn), SEP=', ' if kn else '',
                              KPRE=' and '.join(f'0 <= {k} < {NREPS}' for k in kn) or 'True',
                              KLIST=', '.join([str(k1)] + kn), WHAT=what))
    return '\n'.join(out)
