"""Generates the CrossHair condition functions for C21 (CrossHair reads contracts from source text)."""

HEAD = 'from harness import C21_retry as H\n'

SWEEP = '''
def sweep{T}_{LO}_{HI}(kind: int, p: int, s: int, depth: int) -> bool:
    """
    pre: {LO} <= kind < {HI} and -2 <= p <= 100000 and 0 <= s < {MAXS} and 0 <= depth <= 2
    post: _
    """
    return H.sweep({T}, kind, p, s, depth, {JSEL}) == ''
'''

TWIN = '''
def sweep{T}_reach_{WHAT}(kind: int, p: int, s: int, depth: int) -> bool:
    """
    pre: 0 <= kind < {K} and -2 <= p <= 100000 and 0 <= s < {MAXS} and 0 <= depth <= 2
    post: _
    """
    # reachability twin: must be REFUTED (failure {T} can be {WHAT})
    return H.drive(H.sweep_excs({T}, kind, p, s, depth), H.jitter_list({JSEL}, {T}))[0] != '{WHAT}'
'''

SEQ = '''
def seq{N}_{TAG}({KARGS}{SEP}jsel: int) -> bool:
    """
    pre: {KPRE}
    pre: 0 <= jsel <= 2
    post: _
    """
    return H.seq({N}, [{KLIST}], jsel) == ''


def seq{N}_{TAG}_reach({KARGS}{SEP}jsel: int) -> bool:
    """
    pre: {KPRE}
    pre: 0 <= jsel <= 2
    post: _
    """
    # reachability twin: must be REFUTED (some sequence of {N} failures with this fixed prefix ends the way the
    # oracle's last case does: all retried -> 'ok', or, when the prefix holds a permanent kind, 'raised')
    return H.drive(H.seq_excs({N}, [{KLIST}]), H.jitter_list(jsel, {N}))[0] != '{WHAT}'
'''


CTX = '''
def ctx_{HELPER}(okind: int, status: int, ckind: int, depth: int, sup: bool) -> bool:
    """
    pre: 0 <= okind < {NO} and {SLO} <= status <= {SHI} and 0 <= ckind < {K} and 0 <= depth <= 2
    post: _
    """
    return H.context_check({HELPER!r}, okind, status, ckind, depth, sup) == ''


def ctx_{HELPER}_reach(okind: int, status: int, ckind: int, depth: int, sup: bool) -> bool:
    """
    pre: 0 <= okind < {NO} and {SLO} <= status <= {SHI} and 0 <= ckind < {K} and 0 <= depth <= 2
    post: _
    """
    # reachability twin: must be REFUTED (the error is raised while an implicit __context__ is set on it)
    r = H.context_run({HELPER!r}, okind, status, ckind, depth, sup)
    return not (r[0] == 'raised' and r[4])
'''


OSX = '''
def osx_{HELPER}(okind: int, en: int) -> bool:
    """
    pre: 0 <= okind < {NOSX} and 0 <= en <= {EMAX}
    post: _
    """
    return H.osx_check({HELPER!r}, okind, en) == ''


def osx_{HELPER}_reach(okind: int, en: int) -> bool:
    """
    pre: 0 <= okind < {NOSX} and 0 <= en <= {EMAX}
    post: _
    """
    # reachability twin: must be REFUTED (an unnamed OSError-family error with an uncompared errno is raised)
    return H.osx_check({HELPER!r}, okind, en) != '' or H.osx_run({HELPER!r}, okind, en)[0] != 'raised' or en in H.REF_ERRNOS
'''


def seq_tag(prefix):
    return '_'.join(str(k) for k in prefix)


def source(sweeps, seqs, K, MAXS, NREPS, ctx=(), NO=0, SLO=400, SHI=405, NOSX=0, EMAX=200):
    """sweeps: list of (t, lo, hi) kind ranges; seqs: list of (n, fixed_prefix_kinds, twin_outcome)"""
    out = [HEAD]
    for t in sorted({t for t, _, _ in sweeps}):
        for what in ('ok', 'raised'):
            out.append(TWIN.format(WHAT=what, T=t, K=K, MAXS=MAXS, JSEL=t % 3))
    for t, lo, hi in sweeps:
        out.append(SWEEP.format(T=t, LO=lo, HI=hi, MAXS=MAXS, JSEL=t % 3))
    for n, prefix, what in seqs:
        kn = [f'k{i}' for i in range(len(prefix) + 1, n + 1)]
        out.append(SEQ.format(N=n, TAG=seq_tag(prefix), KARGS=', '.join(f'{k}: int' for k in kn),
                              SEP=', ' if kn else '',
                              KPRE=' and '.join(f'0 <= {k} < {NREPS}' for k in kn) or 'True',
                              KLIST=', '.join([str(k) for k in prefix] + kn), WHAT=what))
    for h in ctx:
        out.append(CTX.format(HELPER=h, NO=NO, SLO=SLO, SHI=SHI, K=K))
        if NOSX:
            out.append(OSX.format(HELPER=h, NOSX=NOSX, EMAX=EMAX))
    return '\n'.join(out)
