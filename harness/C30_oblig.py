"""C30 obligations as plain-data worker functions (run in a process pool by props/C30.py)."""
import time

import z3

from vt import natsym
from vt.common import HarnessError


def _consts(f, acc):
    if z3.is_const(f) and f.decl().kind() == z3.Z3_OP_UNINTERPRETED:
        acc[f.decl().name()] = f
    for c in f.children():
        _consts(c, acc)
    return acc


def _solve(cons, extra, timeout=60000):
    s = z3.Solver()
    s.set('timeout', timeout)
    s.add(*cons)
    s.add(*extra)
    r = str(s.check())
    return r, (s.model() if r == 'sat' else None)


# ---- (a) step ------------------------------------------------------------------------------------------
def _py_spec(vals, choices, i):
    from harness import C30_ci as H
    kind = choices.get(f'batch_kind{i}', 'batch')
    return (H.REVIEWS[vals[f'review{i}']] == 'approved' and not vals[f'label{i}_WIP'] and
            not vals[f'label{i}_stacked PR'] and (vals[f'has{i}_{H.CTX}'] or vals[f'has{i}_{H.OTHER}']) and
            all(H.STATI[vals[f'st{i}_{c}']] == H.GithubStatus.SUCCESS for c in (H.CTX, H.OTHER) if vals[f'has{i}_{c}'])
            and choices.get('target_sha_known', True) and kind != 'none' and vals[f'bsha{i}'] == vals['tsha'])


def _step_vals(m, v):
    out = {}
    for k, x in v.items():
        val = m.eval(x, model_completion=True)
        out[k] = z3.is_true(val) if z3.is_bool(x) else val.as_long()
    return out


def _choices(o):
    return {k: val for k, val in o.notes.items() if isinstance(val, (bool, str))}


def decide_step(spec):
    """spec: npr, reduced (bool), shard: {choice name: option index}, validate: n"""
    from harness import C30_ci as H
    t0 = time.time()
    npr = spec['npr']
    v = H.step_vars(npr)
    cons = H.step_constraints(v, npr)
    if spec.get('reduced'):
        for i in range(1, npr + 1):
            cons += [z3.Not(v[f'label{i}_stacked PR']), z3.Not(v[f'label{i}_do-not-test']), z3.Not(v[f'label{i}_bug']),
                     v[f'has{i}_{H.CTX}'], v[f'st{i}_{H.OTHER}'] <= 1, v[f'review{i}'] <= 1, v[f'build{i}'] <= 1]
            if spec['reduced'] == 2:
                cons.append(z3.Not(v[f'has{i}_{H.OTHER}']))
    for name, idx in (spec.get('shard') or {}).items():
        cons.append(z3.Int(name) == idx)
    ex = natsym.Explorer(constraints=cons, max_paths=2000000, max_decisions=1000)
    outs = ex.run(lambda: H.step_run(v, npr))
    res = {'spec': spec, 'paths': len(outs), 'solver_calls': ex.solver_calls, 'queries': {}, 'validation_points': 0}
    res['coverage'] = ex.covers(outs)
    gate, one, refresh, reach, asserts = [], [], [], [], 0
    for o in outs:
        if o.exc is not None:
            raise HarnessError(f'step world raised {type(o.exc).__name__}: {o.exc}')
        r = o.value
        first, second = r['first'].merged, r['second'].merged
        if r['exc1'] is not None or r['exc2'] is not None:
            asserts += 1
        for i in first:
            gate.append((o, z3.And(o.cond, z3.Not(H.merge_spec(v, i, r['info'])))))
        if not first:
            for i in second:
                gate.append((o, z3.And(o.cond, z3.Not(H.merge_spec(v, i, r['info'])))))
        if len(first) > 1 or len(second) > 1:
            one.append((o, o.cond))
        if first and second:
            refresh.append((o, o.cond))
        if first:
            reach.append(o.cond)
    res['assertion_paths'] = asserts
    res['reach'] = _solve(cons, [z3.Or(*reach) if reach else z3.BoolVal(False)])[0]
    for name, lst in (('gate', gate), ('one_per_call', one), ('no_merge_before_refresh', refresh)):
        tq = time.time()
        r, m = _solve(cons, [z3.Or(*[f for _, f in lst]) if lst else z3.BoolVal(False)])
        q = {'result': r, 'secs': round(time.time() - tq, 3), 'disjuncts': len(lst)}
        if r == 'sat':
            o = next(o for o, f in lst if z3.is_true(m.eval(f, model_completion=True)))
            vals, ch = _step_vals(m, v), _choices(o)
            merged = H.step_concrete(vals, npr, ch)
            specs = {i: _py_spec(vals, ch, i) for i in range(1, npr + 1)}
            q.update({'vals': vals, 'choices': ch, 'merged': merged, 'spec': specs,
                      'reproduced': _step_bad(name, merged, specs)})
        res['queries'][name] = q
    # validation: concrete replay of sampled paths gives the same merges
    step = max(1, len(outs) // max(1, spec.get('validate', 50)))
    for o in outs[::step]:
        r, m = _solve(cons, [o.cond])
        if r != 'sat':
            raise HarnessError('explored path has an unsatisfiable path condition')
        vals, ch = _step_vals(m, v), _choices(o)
        merged = H.step_concrete(vals, npr, ch)
        want = [list(o.value['first'].merged), list(o.value['second'].merged)]
        if merged != want:
            raise HarnessError(f'step world: symbolic path merges {want}, concrete replay merges {merged} ({vals}, {ch})')
        res['validation_points'] += 1
    res['secs'] = round(time.time() - t0, 2)
    return res


def _step_bad(name, merged, specs):
    first, second = merged
    if name == 'gate':
        return any(not specs[i] for i in first) or (not first and any(not specs[i] for i in second))
    if name == 'one_per_call':
        return len(first) > 1 or len(second) > 1
    return bool(first) and bool(second)


def replay_step(rp):
    from harness import C30_ci as H
    merged = H.step_concrete(rp['vals'], rp['npr'], rp['choices'])
    specs = {i: _py_spec(rp['vals'], rp['choices'], i) for i in range(1, rp['npr'] + 1)}
    bad = _step_bad(rp['query'], merged, specs)
    print(f"try_to_merge twice: merged {merged}; gate per PR {specs}; violates {rp['query']}: {bad}")
    return 1 if bad else 0


# ---- (b) history ---------------------------------------------------------------------------------------
def _pins(m, cond):
    pins = {}
    for name, c in _consts(cond, {}).items():
        val = m.eval(c, model_completion=True)
        pins[name] = z3.is_true(val) if z3.is_bool(c) else val.as_long()
    return pins


def _run_history(npr, k, cons, events=None, flood=None, intr=None):
    from harness import C30_hist as HH
    return HH.explore_history(npr, k, constraints=cons, events=events or HH.EVENTS, flood_sizes=flood, intr=intr)


def decide_history(spec):
    """spec: npr, k, shard: {choice name: index}, validate: n"""
    from harness import C30_hist as HH
    t0 = time.time()
    npr, k = spec['npr'], spec['k']
    cons = [z3.Int(n) == i for n, i in (spec.get('shard') or {}).items()]
    outs, ex = _run_history(npr, k, cons, spec.get('events'), spec.get('flood'), spec.get('intr'))
    allc = ex.constraints
    res = {'spec': spec, 'paths': len(outs), 'solver_calls': ex.solver_calls, 'merging_paths': 0, 'merges': 0,
           'updates': 0, 'events': 0, 'aborted_updates': 0, 'violations': [], 'validated': 0, 'samples': []}
    bad = []
    reach = []
    for o in outs:
        if o.exc is not None:
            raise HarnessError(f'history world raised {type(o.exc).__name__}: {o.exc}')
        w = o.value
        res['updates'] += w.updates
        res['events'] += len(w.trace)
        res['aborted_updates'] += len(w.aborted_updates)
        res['graphql_pages'] = res.get('graphql_pages', 0) + w.gh.graphql_pages
        if w.gh.merges:
            res['merging_paths'] += 1
            res['merges'] += len(w.gh.merges)
            reach.append(o.cond)
            if len(res['samples']) < 2:
                res['samples'].append({'events': [str(t) for t in w.trace],
                                       'merged': [(m['pr'], m['head'], m['target_before']) for m in w.gh.merges]})
        for what, f in HH.judge(w):
            if not z3.is_false(z3.simplify(f)):
                bad.append((o, what, z3.And(o.cond, f)))
        res['inflight_merges'] = res.get('inflight_merges', 0) + w.inflight_merges
        res['deliveries_during_updates'] = res.get('deliveries_during_updates', 0) + w.inflight
    res['reach'] = _solve(allc, [z3.Or(*reach) if reach else z3.BoolVal(False)])[0]
    tq = time.time()
    r, m = _solve(allc, [z3.Or(*[f for _, _, f in bad]) if bad else z3.BoolVal(False)])
    res['query'] = {'result': r, 'secs': round(time.time() - tq, 3), 'disjuncts': len(bad)}
    seen = set()
    while r == 'sat' and len(res['violations']) < 3:
        o, what, f = next(x for x in bad if z3.is_true(m.eval(x[2], model_completion=True)))
        pins = _pins(m, f)
        rep = replay_history({'npr': npr, 'k': k, 'pins': pins, 'events': spec.get('events'), 'flood': spec.get('flood'), 'intr': spec.get('intr')}, quiet=True)
        res['violations'].append({'what': what, 'events': [str(t) for t in o.value.trace], 'pins': pins,
                                  'reproduced': rep == 1})
        seen.add(what.split(': ')[-1])
        rest = [x for x in bad if x[1].split(': ')[-1] not in seen]
        r, m = _solve(allc, [z3.Or(*[x[2] for x in rest]) if rest else z3.BoolVal(False)])
    # trace validation: pinned re-execution of sampled merging paths reproduces the same merges
    merging = [o for o in outs if o.value.gh.merges]
    step = max(1, len(merging) // max(1, spec.get('validate', 10)))
    for o in merging[::step]:
        r2, m2 = _solve(allc, [o.cond])
        if r2 != 'sat':
            raise HarnessError('explored path has an unsatisfiable path condition')
        outs2, _ = _run_history(npr, k, [(_c(n) == val) if not isinstance(val, bool) else (z3.Bool(n) == val)
                                         for n, val in _pins(m2, o.cond).items()], spec.get('events'), spec.get('flood'), spec.get('intr'))
        got = [[(x['pr'], x['head'], x['target_before']) for x in p.value.gh.merges] for p in outs2]
        want = [(x['pr'], x['head'], x['target_before']) for x in o.value.gh.merges]
        if got != [want]:
            raise HarnessError(f'history world: pinned re-execution gave {got}, explored path had {want}')
        res['validated'] += 1
    res['secs'] = round(time.time() - t0, 2)
    return res


def _c(name):
    return z3.Int(name)


def replay_history(rp, quiet=False):
    from harness import C30_hist as HH
    cons = [(z3.Bool(n) == val) if isinstance(val, bool) else (z3.Int(n) == val) for n, val in rp['pins'].items()]
    outs, ex = _run_history(rp['npr'], rp['k'], cons, rp.get('events'), rp.get('flood'), rp.get('intr'))
    hit = 0
    for o in outs:
        if o.exc is not None:
            continue
        for what, f in HH.judge(o.value):
            if _solve(ex.constraints, [o.cond, f])[0] == 'sat':
                hit = 1
                if not quiet:
                    print('events:', o.value.trace)
                    print('violates:', what)
    if not quiet and not hit:
        print('no violating merge on the pinned history')
    return hit
