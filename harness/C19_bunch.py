"""CrossHair harness: the real hailtop.batch_client.aioclient.Batch._create_bunches on N specs whose
serialised sizes are symbolic integers.  `orjson.dumps` is replaced (in aioclient's namespace only) by
"an object of symbolic length n": the method only ever takes len() of it."""
from vt import loader

loader.install()
from hailtop.batch_client import aioclient  # noqa: E402


class FakeBytes:
    def __init__(self, n, ident):
        self.n = n
        self.ident = ident

    def __len__(self):
        return self.n

    def decode(self):
        return f'<spec {self.ident}>'


class _Orjson:
    @staticmethod
    def dumps(spec):
        return FakeBytes(spec['n'], spec['id'])


aioclient.orjson = _Orjson


def property_holds(ns, g, maxb, maxs):
    """Oracle, independent of the method: concatenation = input, groups first, limits respected."""
    n = len(ns)
    jg = [{'n': ns[i], 'id': i} for i in range(g)]
    js = [{'n': ns[i], 'id': i} for i in range(g, n)]
    bunches = aioclient.Batch._create_bunches(None, jg, js, maxb, maxs)
    flat = [sb for b in bunches for sb in b]
    ok = len(flat) == n
    for i, sb in enumerate(flat):
        if i >= n:
            break
        ok = ok and sb.spec_bytes.ident == i and sb.spec_bytes.n == ns[i]
        ok = ok and (sb.typ == (aioclient.SpecType.JOB_GROUP if i < g else aioclient.SpecType.JOB))
    for b in bunches:
        tot = 0
        for sb in b:
            tot += sb.n_bytes
        ok = ok and 1 <= len(b) <= maxs and tot < maxb
    return ok




def property_holds_parents(ns, ps, g, maxb, maxs):
    """Same oracle on job-group specs that carry the REAL parent fields: group i (in-update id i+1) names an in-update parent
    ps[i] in 1..i (`in_update_parent_id`, as JobGroup._submit writes it) or hangs off an already submitted group
    (`absolute_parent_id`, ps[i] == 0).  Parent ids need not be monotone (g1; g2 under g1; g3 at the root)."""
    n = len(ns)
    jg = []
    for i in range(g):
        spec = {'n': ns[i], 'id': i, 'job_group_id': i + 1}
        if ps[i] > 0:
            spec['in_update_parent_id'] = ps[i]
        else:
            spec['absolute_parent_id'] = 0
        jg.append(spec)
    js = [{'n': ns[i], 'id': i, 'in_update_job_group_id': 1} for i in range(g, n)]
    bunches = aioclient.Batch._create_bunches(None, jg, js, maxb, maxs)
    flat = [sb for b in bunches for sb in b]
    ok = len(flat) == n
    for i, sb in enumerate(flat):
        if i >= n:
            break
        ok = ok and sb.spec_bytes.ident == i and sb.spec_bytes.n == ns[i]
    return ok
