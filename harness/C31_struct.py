"""CrossHair harness for C31 (structure): the REAL `hail.expr.types.dtype` (real grammar text, real visitor;
stand-in PEG engine) applied to the REAL `str(t)` for types built from symbolic integer choices.

Field / reference-genome names come from harness/gen/C31_hardnames.json, written by props/C31.py from
solver-produced members of the name-language regions (simple, escaped with backtick / backslash / control /
non-ASCII / non-BMP / syntax characters, empty)."""
import json
import os

from harness import C31_peg

_m = C31_peg.install()
T = _m.T

_HERE = os.path.dirname(os.path.abspath(__file__))
with open(os.path.join(_HERE, 'gen', 'C31_hardnames.json'), encoding='utf-8') as _f:
    NAMES = json.load(_f)

from hail.genetics.reference_genome import ReferenceGenome  # noqa: E402

_RGS = []
for _i, _nm in enumerate(NAMES[:3]):
    _name = 'rg' + _nm           # distinct registry names, still carrying the hard characters
    try:
        _RGS.append(_m.J.Env.backend().get_reference(_name))
    except KeyError:
        _RGS.append(ReferenceGenome(_name, ['1'], {'1': 10}))

PRIMS = [T.tint32, T.tstr, T.tlocus(_RGS[0]), T.tfloat64, T.tcall, T.tint64, T.tfloat32, T.tbool] + [T.tlocus(r) for r in _RGS[1:]]
NP = len(PRIMS)
NN = len(NAMES)
NCON = 9
CON = ['prim', 'array', 'set', 'dict', 'interval', 'ndarray', 'stream', 'struct', 'tuple']


def l1(a, b, n):
    """depth-1 type: constructor a over primitive b (and its neighbour), struct field name n"""
    p = PRIMS[b]
    q = PRIMS[(b + 3) % NP]
    if a == 0:
        return p
    if a == 1:
        return T.tarray(p)
    if a == 2:
        return T.tset(p)
    if a == 3:
        return T.tdict(p, q)
    if a == 4:
        return T.tinterval(p)
    if a == 5:
        return T.tndarray(p, 1 + b % 3)
    if a == 6:
        return T.tstream(p)
    if a == 7:
        if b == 0:
            return T.tstruct()
        return T.tstruct(**{NAMES[n]: p, NAMES[(n + 1) % NN]: q})
    if b == 0:
        return T.ttuple()
    return T.ttuple(p, q)


def top(a0, c1, c2, n0):
    if a0 == 0:
        return c1
    if a0 == 1:
        return T.tarray(c1)
    if a0 == 2:
        return T.tset(c1)
    if a0 == 3:
        return T.tdict(c1, c2)
    if a0 == 4:
        return T.tinterval(c1)
    if a0 == 5:
        return T.tndarray(c1, 2)
    if a0 == 6:
        return T.tstream(c1)
    if a0 == 7:
        return T.tstruct(**{NAMES[n0]: c1, NAMES[(n0 + 2) % NN]: c2})
    return T.ttuple(c1, c2)


def roundtrip_ok(t):
    s = str(t)
    t2 = T.dtype(s)
    return t2 == t and str(t2) == s and type(t2) is type(t)


def build(a0, a1, b1, n1, a2, b2, n2, n0):
    return top(a0, l1(a1, b1, n1), l1(a2, b2, n2), n0)


def property_holds(a0, a1, b1, n1, a2, b2, n2, n0):
    return roundtrip_ok(build(a0, a1, b1, n1, a2, b2, n2, n0))


TEMPLATE = '''
def check_{TAG}(a1: int, b1: int, n1: int) -> bool:
    """
    pre: 0 <= a1 < {NCON} and 0 <= b1 < {NPB} and 0 <= n1 < {NN}
    post: _
    """
    return property_holds({A0}, a1, b1, n1, {A2}, {B2}, {N2}, {N0})


def reach_{TAG}(a1: int, b1: int, n1: int) -> bool:
    """
    pre: 0 <= a1 < {NCON} and 0 <= b1 < {NPB} and 0 <= n1 < {NN}
    post: _
    """
    # reachability twin: must be REFUTED (some choice builds a type whose printed form contains a backtick)
    return '`' not in str(build({A0}, a1, b1, n1, {A2}, {B2}, {N2}, {N0}))
'''


def source(tier):
    """one CrossHair condition per top-level constructor (struct: one per top-level field name); the first child
    is symbolic (constructor a1, primitive b1, field name n1), the second child is derived from it"""
    out = ['from harness.C31_struct import build, property_holds\n']
    tags = []
    npb = min(NP, 5) if tier == 'quick' else NP
    for a0 in range(NCON):
        n0s = [0] if a0 != 7 else (list(range(min(NN, 3))) if tier == 'quick' else list(range(NN)))
        for n0 in n0s:
            tag = CON[a0] if a0 != 7 else f'struct_n{n0}'
            out.append(TEMPLATE.format(TAG=tag, NCON=NCON, NPB=npb, NN=NN, A0=a0, A2=f'(a1 + 4) % {NCON}',
                                       B2=f'(b1 + 1) % {NP}', N2=f'(n1 + 3) % {NN}', N0=n0))
            tags.append(tag)
    return '\n'.join(out), tags
