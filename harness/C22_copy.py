"""C22 (b): the REAL Transfer / Copier / SourceCopier destination and file-vs-directory decision code, run natively
under vt.natsym against `OracleFS`, a router file system whose answers are symbolic:

  tsrc   type of the source path            file | dir | both | none
  tdest  type of the destination path       file | dir | none
  tchild type of dest/basename(src)         file | dir | none      (none unless tdest == dir)

plus solver choices for the trailing slashes of src and dest, treat_dest_as, and src given as a one-element list.
The source tree is fixed and tiny (a file, or a directory with file1 and subdir/file2); bytes are a label naming
the source file, so "which source landed where" is observable, byte identity through real file I/O is NOT claimed.

`rule()` is the documented behaviour written independently of the code (validated on every run against the
repository's own table hail/python/test/hailtop/inter_cloud/copy_test_specs.py).
"""
import asyncio
import importlib.util
import os

import z3

from vt import loader, natsym
from vt.common import HarnessError
from vt.natsym import SEnum, choose

loader.install()

from hailtop.aiotools.fs import AsyncFS, FileAndDirectoryError  # noqa: E402
from hailtop.aiotools.fs import copier as C  # noqa: E402
from hailtop.aiotools.fs.stream import ReadableStream, WritableStream  # noqa: E402

SRC_T = ['file', 'dir', 'both', 'none']
DST_T = ['file', 'dir', 'none']
TDA = [C.Transfer.DEST_DIR, C.Transfer.DEST_IS_TARGET, C.Transfer.INFER_DEST]
CODES = ['FileNotFoundError', 'FileAndDirectoryError', 'IsADirectoryError', 'NotADirectoryError',
         'file->dest/basename', 'file->dest', 'dir->dest/basename/…', 'dir->dest/…']
FNF, FADE, IADE, NADE, OK_FILE_INTO, OK_FILE_EXACT, OK_DIR_INTO, OK_DIR_EXACT = range(8)
SRC = '/s/a'
DEST = '/d/t'
SRC_FILES = ['file1', 'subdir/file2']


# ---- the documented rule ---------------------------------------------------------------------------------
def _ite(c, a, b):
    if isinstance(c, bool):
        return a if c else b
    return z3.If(c, a, b)


def _or(*cs):
    if all(isinstance(c, bool) for c in cs):
        return any(cs)
    return z3.Or(*[z3.BoolVal(c) if isinstance(c, bool) else c for c in cs])


def _and(*cs):
    if all(isinstance(c, bool) for c in cs):
        return all(cs)
    return z3.And(*[z3.BoolVal(c) if isinstance(c, bool) else c for c in cs])


def rule(tsrc, tdest, tchild, src_slash, dest_slash, tda, is_list):
    """Expected outcome code.  tsrc/tdest/tchild: indices into SRC_T/DST_T (Python ints or z3 Int terms);
    the rest concrete.  Order of the checks follows the documentation: source errors first, then destination."""
    s_file, s_dir, s_both, s_none = [tsrc == i for i in range(4)]
    d_file, d_dir = tdest == 0, tdest == 1
    c_file, c_dir = tchild == 0, tchild == 1
    if tda == C.Transfer.DEST_IS_TARGET and is_list:
        return NADE                                   # several sources cannot share one exact target
    # what the source is
    if src_slash:
        as_file = False                               # "a/" can only name a directory
        as_dir = _or(s_dir, s_both)
        both = False
    else:
        as_file = s_file
        as_dir = s_dir
        both = s_both
    # destination mode
    if tda == C.Transfer.DEST_DIR or is_list:
        into = True
    elif tda == C.Transfer.DEST_IS_TARGET:
        into = False
    else:
        into = _or(dest_slash, d_dir)
    file_into = _ite(d_file, NADE, _ite(_and(d_dir, c_dir), IADE, OK_FILE_INTO))
    file_exact = IADE if dest_slash else _ite(d_dir, IADE, OK_FILE_EXACT)
    dir_into = _ite(d_file, NADE, _ite(_and(d_dir, c_file), NADE, OK_DIR_INTO))
    dir_exact = _ite(d_file, NADE, OK_DIR_EXACT)
    return _ite(both, FADE,
                _ite(as_file, _ite(into, file_into, file_exact),
                     _ite(as_dir, _ite(into, dir_into, dir_exact), FNF)))


def expected_files(code, dest):
    d = dest.rstrip('/')
    if code == OK_FILE_INTO:
        return {f'{d}/a': f'src:{SRC}'}
    if code == OK_FILE_EXACT:
        return {d: f'src:{SRC}'}
    if code == OK_DIR_INTO:
        return {f'{d}/a/{f}': f'src:{SRC}/{f}' for f in SRC_FILES}
    if code == OK_DIR_EXACT:
        return {f'{d}/{f}': f'src:{SRC}/{f}' for f in SRC_FILES}
    return None


# ---- oracle file system ------------------------------------------------------------------------------------
class _Status:
    def __init__(self, url):
        self._url = url

    async def size(self):
        return 5

    def url(self):
        return self._url


class _Entry:
    def __init__(self, url):
        self._url = url

    async def url(self):
        return self._url

    async def url_maybe_trailing_slash(self):
        return self._url

    async def status(self):
        return _Status(self._url)


class _Reader(ReadableStream):
    def __init__(self, data):
        super().__init__()
        self.data = data

    async def read(self, n=-1):
        d, self.data = self.data, b''
        return d

    async def readexactly(self, n):
        raise HarnessError('unexpected readexactly')

    async def _wait_closed(self):
        pass


class _Writer(WritableStream):
    def __init__(self, fs, url):
        super().__init__()
        self.fs, self.url = fs, url
        self.fs.files[url] = b''

    async def write(self, b):
        self.fs.files[self.url] += b
        return len(b)

    async def _wait_closed(self):
        pass


def _val(x):
    return x.value() if isinstance(x, SEnum) else x


class OracleFS:
    FILE = AsyncFS.FILE
    DIR = AsyncFS.DIR

    def __init__(self, tsrc, tdest, tchild, delays=None):
        self.tsrc, self.tdest, self.tchild = tsrc, tdest, tchild
        self.files = {}
        self.made = set()
        self.calls = []
        self.delays = delays or {}

    async def _lag(self, what):
        """Task interleaving: the answer to `what` arrives after 0..k extra trips round the event loop."""
        for _ in range(self.delays.get(what, 0)):
            await asyncio.sleep(0)

    @staticmethod
    def copy_part_size(url):
        return 128 * 1024 * 1024

    async def statfile(self, url):
        self.calls.append(('statfile', url))
        await self._lag('statfile')
        if url != SRC:
            raise HarnessError(f'statfile on {url}')
        if _val(self.tsrc) in ('file', 'both'):
            return _Status(url)
        raise FileNotFoundError(url)

    async def listfiles(self, url, recursive=False):
        self.calls.append(('listfiles', url))
        await self._lag('listfiles')
        if url != SRC + '/':
            raise HarnessError(f'listfiles on {url}')
        t = _val(self.tsrc)
        if t in ('dir', 'both'):
            async def it():
                for f in SRC_FILES:
                    yield _Entry(f'{SRC}/{f}')
            return it()
        if t == 'file':
            raise NotADirectoryError(url)
        raise FileNotFoundError(url)

    async def staturl(self, url):
        self.calls.append(('staturl', url))
        await self._lag('staturl')
        if url != DEST:
            raise HarnessError(f'staturl on {url}')
        t = _val(self.tdest)
        if t == 'none':
            raise FileNotFoundError(url)
        return t

    async def open(self, url):
        return _Reader(f'src:{url}'.encode())

    def _type_of(self, path):
        """Type of an existing destination-side path, per the oracle (+ directories made during the copy)."""
        if path in self.made:
            return 'dir'
        if path in ('/', '/d'):
            return 'dir'
        if path == DEST:
            return _val(self.tdest)
        if path == DEST + '/a':
            return _val(self.tchild) if _val(self.tdest) == 'dir' else 'none'
        return 'none'

    async def create(self, url, retry_writes=True):
        self.calls.append(('create', url))
        if url.endswith('/'):
            raise IsADirectoryError(url)
        parent = os.path.dirname(url)
        # walk the ancestors like the OS does
        anc = []
        p = parent
        while p not in ('/', ''):
            anc.append(p)
            p = os.path.dirname(p)
        for a in reversed(anc):
            t = self._type_of(a)
            if t == 'file':
                raise NotADirectoryError(url)
            if t == 'none':
                raise FileNotFoundError(url)
        if self._type_of(url) == 'dir':
            raise IsADirectoryError(url)
        return _Writer(self, url)

    async def makedirs(self, url, exist_ok=False):
        self.calls.append(('makedirs', url))
        p = url.rstrip('/')
        chain = []
        while p not in ('/', ''):
            chain.append(p)
            p = os.path.dirname(p)
        for a in reversed(chain):
            t = self._type_of(a)
            if t == 'file':
                raise NotADirectoryError(url)
            if t == 'none':
                self.made.add(a)

    async def multi_part_create(self, sema, url, num_parts):
        raise HarnessError('multi-part copy is not part of the decision harness')


def variables():
    return {'tsrc': z3.Int('tsrc'), 'tdest': z3.Int('tdest'), 'tchild': z3.Int('tchild')}


def constraints(v):
    return [v['tsrc'] >= 0, v['tsrc'] < 4, v['tdest'] >= 0, v['tdest'] < 3, v['tchild'] >= 0, v['tchild'] < 3,
            z3.Implies(v['tdest'] != 1, v['tchild'] == 2)]


LAGS = ('statfile', 'listfiles', 'staturl')


async def scenario(v, lag_options=(0,)):
    delays = {w: choose(f'lag_{w}', list(lag_options)) for w in LAGS} if len(lag_options) > 1 else {}
    src_slash = choose('src_slash', [False, True])
    dest_slash = choose('dest_slash', [False, True])
    tda = choose('treat_dest_as', TDA)
    is_list = choose('src_is_list', [False, True])
    fs = OracleFS(SEnum(v['tsrc'], SRC_T), SEnum(v['tdest'], DST_T), SEnum(v['tchild'], DST_T), delays)
    out = await run(fs, src_slash, dest_slash, tda, is_list)
    out['delays'] = delays
    return out


async def run(fs, src_slash, dest_slash, tda, is_list):
    src = SRC + ('/' if src_slash else '')
    dest = DEST + ('/' if dest_slash else '')
    out = {'src_slash': src_slash, 'dest_slash': dest_slash, 'tda': tda, 'is_list': is_list, 'dest': dest, 'fs': fs}
    try:
        t = C.Transfer([src] if is_list else src, dest, treat_dest_as=tda)
        await C.Copier.copy(fs, asyncio.Semaphore(4), t)
        out['exc'] = None
    except HarnessError:
        raise
    except Exception as e:  # documented errors and anything else the code raises are outcomes to be judged
        out['exc'] = type(e).__name__
    out['files'] = {k: val.decode() for k, val in fs.files.items()}
    return out


def observed_code(out):
    if out['exc'] is not None:
        return CODES.index(out['exc']) if out['exc'] in CODES[:4] else 98
    for code in (OK_FILE_INTO, OK_FILE_EXACT, OK_DIR_INTO, OK_DIR_EXACT):
        if out['files'] == expected_files(code, out['dest']):
            return code
    return 99


def explore(lag_options=(0,)):
    v = variables()
    cons = constraints(v)
    ex = natsym.Explorer(constraints=cons, max_paths=400000, max_decisions=400)
    outs = ex.run(lambda: scenario(v, lag_options))
    return v, cons, outs, ex


def concrete(tsrc, tdest, tchild, src_slash, dest_slash, tda, is_list, delays=None):
    fs = OracleFS(SRC_T[tsrc], DST_T[tdest], DST_T[tchild], delays)
    loop = asyncio.new_event_loop()
    try:
        return loop.run_until_complete(run(fs, src_slash, dest_slash, tda, is_list))
    finally:
        loop.close()


# ---- the repository's own expectation table ---------------------------------------------------------------
def load_repo_table():
    p = loader.src('hail/python/test/hailtop/inter_cloud/copy_test_specs.py')
    spec = importlib.util.spec_from_file_location('copy_test_specs_for_verif', p)
    m = importlib.util.module_from_spec(spec)
    spec.loader.exec_module(m)
    return m.COPY_TEST_SPECS


def rule_vs_table_entry(e):
    """Translate one entry of COPY_TEST_SPECS into the oracle's variables and compare with rule().
    Test layout (generate_copy_test_specs.py): src base holds `a` (file | dir{file1, subdir/file2} | nothing);
    dest base (a directory with `keep`) holds `a` likewise (dir{subdir/file2, file3}); dest is the base itself
    (dest_basename None), base/a or base/x."""
    tsrc = {'file': 0, 'dir': 1, 'noexist': 3}[e['src_type']]
    dt = {'file': 0, 'dir': 1, 'noexist': 2}[e['dest_type']]
    bn = e['dest_basename']
    if bn is None:
        tdest, tchild, dest_rel = 1, dt, ''
    elif bn == 'a':
        tdest, tchild, dest_rel = dt, 2, '/a'
    else:
        tdest, tchild, dest_rel = 2, 2, '/x'
    code = rule(tsrc, tdest, tchild, e['src_trailing_slash'], e['dest_trailing_slash'], e['treat_dest_as'], False)
    want = e['result']
    if 'exception' in want:
        return code < 4 and CODES[code] == want['exception'], code
    if code < 4:
        return False, code
    # files expected under the dest base after the copy
    files = {'/keep': ''}
    if e['dest_type'] == 'file':
        files['/a'] = 'dest/a'
    elif e['dest_type'] == 'dir':
        files['/a/subdir/file2'] = 'dest/a/subdir/file2'
        files['/a/file3'] = 'dest/a/file3'
    if code == OK_FILE_INTO:
        files[f'{dest_rel}/a'] = 'src/a'
    elif code == OK_FILE_EXACT:
        files[dest_rel] = 'src/a'
    else:
        root = f'{dest_rel}/a' if code == OK_DIR_INTO else dest_rel
        files[f'{root}/file1'] = 'src/a/file1'
        files[f'{root}/subdir/file2'] = 'src/a/subdir/file2'
    return files == want['files'], code
