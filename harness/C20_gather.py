"""CrossHair scheduler harness for C20: the real bounded_gather2_raise_exceptions / bounded_gather2_return_exceptions /
WithoutSemaphore / OnlineBoundedGather2 / bounded_gather of hailtop.utils.utils on the real asyncio scheduling core,
with workers that await director-owned futures.

Schedule (all symbolic integers):
  perm      order in which the director resolves the N worker futures (index into the N! permutations, decoded by
            comparisons);
  out[j]    what the j-th resolved future gets: 0 its value, 1 an exception, 2 it is cancelled, so that the worker
            awaiting it ends with asyncio.CancelledError of its own (nobody cancelled the worker task);
  drain[j]  (j < N-1) how far the loop runs after the j-th resolution: 0 not at all (two resolutions land in the same
            tick), 1 until quiescent, 2 exactly one tick;
  val[i]    worker i's result value (never branched on);
  cpoint    the director cancels the CALLER task just before resolution number cpoint (0..N-1) or after the last
            resolution (N); NEVER = no outer cancellation;   cdrain = drain choice right after that cancel;
  unwind    extra loop turns (0..2) every worker needs inside its CancelledError handler before it re-raises.
After the schedule everything is drained and the call must have returned.

`run_schedule` returns a bit mask of violated aspects (0 = all hold).  The mask has one group of ASPECT bits per
scenario tag (TAGS): no outer cancellation / caller cancelled before any worker raised / caller cancelled after a worker
had raised (clean-up possibly in progress), so that findings of the three scenarios are classified and excused
separately.
"""
import asyncio
import itertools

from vt import loader

loader.install()
import hailtop.utils.utils as U  # noqa: E402

MODES = ('ret', 'raise', 'cancel', 'online')

CREATED = []   # every task the code under test creates, in creation order (reset per run)
SEMAS = []     # every semaphore the code under test creates (bounded_gather makes its own)


class _AsyncioRecorder:
    """`asyncio` as seen from hailtop.utils.utils: identical, except that create_task also records the task.
    (asyncio.all_tasks() dereferences weak references, and CrossHair runs gc.collect() on every such dereference.)"""

    def __getattr__(self, name):
        return getattr(asyncio, name)

    @staticmethod
    def create_task(coro, **kw):
        t = asyncio.create_task(coro, **kw)
        CREATED.append(t)
        return t

    @staticmethod
    def Semaphore(value=1):
        sem = asyncio.Semaphore(value)
        SEMAS.append(sem)
        return sem


U.asyncio = _AsyncioRecorder()
CAP = 40    # upper bound on ticks spent reaching quiescence

(A_BOUND, A_BOUND_AFTER, A_BOUND1, A_CONTRACT, A_PENDING, A_UNCANCELLED, A_PERMITS, A_PERMITS1,
 A_RETURNS, A_TASKERR) = (1 << i for i in range(10))
ASPECTS = {
    A_BOUND: 'parallelism-bound-exceeded-during-call',  # more than P workers inside their body while the call runs
    A_BOUND_AFTER: 'parallelism-bound-exceeded-after-return',  # ... among workers that go on after the call raised
    A_BOUND1: 'parallelism-bound-plus-one-exceeded',    # more than P+1 at any time
    A_CONTRACT: 'result-or-exception-contract',         # order of results / exceptions in place / first raised propagated
    A_PENDING: 'task-pending-after-return',             # a task made by the call is not done when it returns (modes that promise)
    A_UNCANCELLED: 'uncancelled-work-after-return',     # a worker body active at / started after return that was never cancelled
    A_PERMITS: 'semaphore-permits-not-restored',        # semaphore value after everything finished != value before
    A_PERMITS1: 'semaphore-permits-off-by-more-than-one',
    A_RETURNS: 'gather-does-not-return',                # all futures resolved, loop quiescent, call still pending
    A_TASKERR: 'background-task-ended-with-internal-error',  # a task returned by OnlineBoundedGather2.call() carries an exception
}


NASPECT = 10
TAGS = ('', 'caller cancelled', 'caller cancelled after a worker error')
NEVER = 99


def tag_of(bit):
    """(aspect bit within its group, tag index) of a mask bit"""
    t = 0
    while bit >= (1 << NASPECT):
        bit >>= NASPECT
        t += 1
    return bit, t


def all_bits():
    return [a << (NASPECT * t) for t in range(len(TAGS)) for a in ASPECTS]


class _NullSelector:
    def select(self, timeout=None):
        return []

    def close(self):
        pass


_KEEP = []


def _keep_task(loop, coro, **kw):
    """documented task-factory hook: real asyncio.Task objects, kept alive for the life of the process.  (When a task
    is garbage-collected the loop's WeakSet callback dereferences a weak reference, and CrossHair runs gc.collect() on
    every such dereference.)"""
    t = asyncio.Task(coro, loop=loop, **kw)
    _KEEP.append(t)
    return t


class DetLoop(asyncio.BaseEventLoop):
    """The real asyncio scheduling core (BaseEventLoop: call_soon, _run_once, Task/Future wake-ups) without the
    selector/self-pipe I/O layer and with a constant clock: CrossHair makes time.* symbolic, which the stock loop
    cannot digest, and creating sockets per explored path is slow.  Nothing in the code under test uses timers or I/O."""

    def __init__(self):
        super().__init__()
        self._selector = _NullSelector()
        self.set_task_factory(_keep_task)

    def time(self):
        return 0.0

    def _process_events(self, event_list):
        pass

    def _write_to_self(self):
        pass


class Boom(Exception):
    def __init__(self, i):
        super().__init__(i)
        self.i = i


class St:
    pass


def decode_perm(n, perm):
    """perm-th permutation of range(n), chosen by comparisons (an index would be realised by CrossHair)"""
    for j, p in enumerate(itertools.permutations(range(n))):
        if perm == j:
            return p
    return tuple(range(n))


async def _ticks(k):
    for _ in range(k):
        await asyncio.sleep(0)


async def _quiesce():
    """run ready callbacks until the director is the only runnable thing (bounded by CAP ticks)"""
    loop = asyncio.get_running_loop()
    for _ in range(CAP):
        await asyncio.sleep(0)
        if not loop._ready:
            return


async def _director(mode, holder, P, n, order, outs, drains, vals, cpoint, cdrain, unwind):
    loop = asyncio.get_running_loop()
    st = St()
    st.running = 0
    st.maxr = 0            # most workers inside their body at once while the call was in progress
    st.maxr_after = 0      # ... counted at the moments a worker body started after the call had returned
    st.returned = False
    st.body_after_return = 0
    st.body_at_return = 0
    st.inbody = [False] * n
    st.after = []          # workers whose body was active when the call returned, or started later
    st.started = [False] * n
    st.cancelled = [False] * n      # the worker ended with CancelledError (cancelled by the code under test, or own)
    st.selfc = [False] * n          # the director cancelled the future the worker awaits (out == 2)
    st.own_cancel = [False] * n     # the worker's CancelledError was its own (not a task.cancel() by the code)
    st.finished = [False] * n
    st.raise_order = []             # workers in the order they raised (Boom, or a CancelledError of their own)
    st.pending_at_return = None
    futs = [loop.create_future() for _ in range(n)]
    excs = [Boom(i) for i in range(n)]
    sema = asyncio.Semaphore(P)

    def mk(i):
        async def w():
            st.running += 1
            st.inbody[i] = True
            if st.returned:
                st.body_after_return += 1      # a worker body started after the call had returned
                st.after.append(i)
                if st.running > st.maxr_after:
                    st.maxr_after = st.running
            elif st.running > st.maxr:
                st.maxr = st.running
            st.started[i] = True
            try:
                r = await futs[i]
                st.finished[i] = True
                return r
            except asyncio.CancelledError:
                st.cancelled[i] = True
                own = st.selfc[i] and futs[i].cancelled() and not asyncio.current_task().cancelling()
                for _ in range(unwind):
                    await asyncio.sleep(0)
                if own:                        # recorded when the exception actually leaves the worker
                    st.own_cancel[i] = True
                    if mode != 'online':       # OnlineBoundedGather2 treats it as normal completion
                        st.raise_order.append(i)
                raise
            except Exception:
                st.raise_order.append(i)
                raise
            finally:
                st.running -= 1
                st.inbody[i] = False
        return w

    def snapshot(me):
        st.returned = True
        st.body_at_return = st.running   # workers inside their body at the moment the call returns
        for i in range(n):
            if st.inbody[i]:
                st.after.append(i)
        st.pending_at_return = 0
        for t in CREATED:
            if not t.done():
                st.pending_at_return += 1

    async def call():
        # holder=True: the nested use bounded_gather2 is written for (the caller holds a permit of `sema`);
        # holder=False: the top-level entry bounded_gather(*pfs, parallelism=P), which builds its own semaphore
        me = asyncio.current_task()
        pfs = [mk(i) for i in range(n)]
        if not holder:
            try:
                if mode == 'ret':
                    return await U.bounded_gather(*pfs, parallelism=P, return_exceptions=True)
                return await U.bounded_gather(*pfs, parallelism=P, cancel_on_error=(mode == 'cancel'))
            finally:
                snapshot(me)
        await sema.acquire()
        try:
            try:
                if mode == 'ret':
                    return await U.bounded_gather2_return_exceptions(sema, *pfs)
                if mode == 'raise':
                    return await U.bounded_gather2_raise_exceptions(sema, *pfs)
                if mode == 'cancel':
                    return await U.bounded_gather2_raise_exceptions(sema, *pfs, cancel_on_error=True)
                async with U.OnlineBoundedGather2(sema) as pool:
                    ts = [pool.call(pf) for pf in pfs]
                    await pool.wait(ts[:1])   # the exit must wait for the others
                return [t.result() for t in ts]
            finally:
                snapshot(me)
        finally:
            sema.release()

    G = asyncio.ensure_future(call())
    await _quiesce()
    outer = False            # the director's cancel of the caller took effect
    raised_before_outer = 0

    async def drain(d):
        if d == 1:
            await _quiesce()
        elif d >= 2:
            await _ticks(1)

    for j in range(n + 1):
        if cpoint == j and not G.done():
            raised_before_outer = len(st.raise_order)
            outer = G.cancel()
            await drain(cdrain)
        if j == n:
            break
        i = order[j]
        if not futs[i].done():   # a cancelled worker cancels the future it awaits
            if outs[j] == 0:
                futs[i].set_result(vals[i])
            elif outs[j] == 1:
                futs[i].set_exception(excs[i])
            else:
                st.selfc[i] = True
                futs[i].cancel()
        if j < n - 1:   # after the last resolution everything is drained anyway
            await drain(drains[j])
    await _quiesce()

    # ---- oracle -----------------------------------------------------------------------------------
    tag = 0 if not outer else (1 if raised_before_outer == 0 else 2)
    mask = 0
    if st.maxr > P:
        mask |= A_BOUND
    if st.maxr_after > P:
        mask |= A_BOUND_AFTER
    if st.maxr > P + 1 or st.maxr_after > P + 1:
        mask |= A_BOUND1
    if not G.done():
        mask |= A_RETURNS
        G.cancel()
        await _quiesce()
        return mask << (NASPECT * tag), st, None
    gcanc = G.cancelled()
    gexc = None if gcanc else G.exception()
    res = None if (gcanc or gexc is not None) else G.result()
    failed = [order[j] for j in range(n) if outs[j] == 1]
    ok = True
    if outer:
        # an effective outer cancellation: the caller ends cancelled, or with the worker exception that was already
        # on its way out
        ok = gcanc or (len(st.raise_order) > 0 and gexc is excs[st.raise_order[0]])
    elif mode == 'ret':
        # every result / exception in place, in submission order (a worker's own CancelledError included)
        ok = gexc is None and res is not None and len(res) == n
        if ok:
            for i in range(n):
                if st.own_cancel[i]:
                    ok = ok and res[i][0] is None and isinstance(res[i][1], asyncio.CancelledError)
                elif i in failed:
                    ok = ok and res[i][0] is None and res[i][1] is excs[i]
                else:
                    ok = ok and res[i][1] is None and res[i][0] == vals[i]
    else:
        if st.raise_order:
            # the first exception raised by a worker is the one propagated (its own CancelledError makes the call end
            # cancelled)
            first = st.raise_order[0]
            ok = gcanc if st.own_cancel[first] else gexc is excs[first]
        else:
            ok = gexc is None and res is not None and len(res) == n
            if ok:
                for i in range(n):
                    if st.own_cancel[i]:      # online only: counted as completed, result None
                        ok = ok and res[i] is None
                    else:
                        ok = ok and res[i] == vals[i]
    if not ok:
        mask |= A_CONTRACT
    # Clean-up promises.  Without outer cancellation: nothing pending after a normal return, after return_exceptions,
    # after cancel_on_error=True ("the unfinished tasks are all cancelled" + the finally block awaits them) and after
    # OnlineBoundedGather2's exit ("waits for all background tasks to complete on exit").  When the CALLER is
    # cancelled: only cancel_on_error=True (its finally block runs for every exception) and OnlineBoundedGather2
    # (__aexit__ shuts the pool down for any exception) promise anything; return_exceptions / plain raise leave the
    # children to asyncio.gather's own cancellation and are not held to it.
    if outer:
        promised = mode in ('cancel', 'online')
    else:
        promised = mode in ('ret', 'cancel', 'online') or (gexc is None and not gcanc)
    if promised and st.pending_at_return != 0:
        mask |= A_PENDING
    if promised:
        for i in st.after:
            if not st.cancelled[i]:
                mask |= A_UNCANCELLED
    # after everything has finished the semaphore holds what it held before the call
    pend_now = 0
    for t in CREATED:
        if not t.done():
            pend_now += 1
            t.cancel()
    if pend_now:
        mask |= A_RETURNS   # all futures are resolved: nothing may still be pending now
        await _quiesce()
    if not holder:
        sema = SEMAS[0] if len(SEMAS) == 1 else None
    if sema is None:
        mask |= A_PERMITS | A_PERMITS1
        sema = asyncio.Semaphore(-1)
    if sema._value != P:
        mask |= A_PERMITS
    if not (P - 1 <= sema._value <= P + 1):
        mask |= A_PERMITS1
    info = {'scenario': TAGS[tag] or 'no outer cancellation', 'max_running': st.maxr,
            'max_running_after_return': st.maxr_after, 'bodies_active_at_return': st.body_at_return,
            'bodies_started_after_return': st.body_after_return, 'raise_order': list(st.raise_order),
            'propagated': 'CancelledError' if gcanc else getattr(gexc, 'i', repr(gexc)),
            'pending_at_return': st.pending_at_return, 'sema_value_after': sema._value, 'failed': failed,
            'own_cancel': list(st.own_cancel), 'cancelled': list(st.cancelled), 'finished': list(st.finished),
            'started': list(st.started)}
    return mask << (NASPECT * tag), st, info


def run_schedule(mode, holder, P, n, perm, outs, drains, vals, cpoint=NEVER, cdrain=0, unwind=0):
    """returns (mask, info)"""
    order = decode_perm(n, perm)
    del CREATED[:]
    del SEMAS[:]
    loop = DetLoop()
    try:
        mask, st, info = loop.run_until_complete(
            _director(mode, holder, P, n, order, outs, drains, vals, cpoint, cdrain, unwind))
    finally:
        loop.close()
    return mask, info


def violated(mode, holder, P, n, perm, outs, drains, vals, cpoint, cdrain, unwind, excused):
    return run_schedule(mode, holder, P, n, perm, outs, drains, vals, cpoint, cdrain, unwind)[0] & ~excused


def reach(mode, holder, P, n, perm, outs, drains, vals, cpoint, cdrain, unwind):
    """reachability twin helper.  Without outer cancellation: the run got to the end of the oracle with a worker
    exception raised.  With it: the cancel took effect while a worker was inside its body."""
    mask, info = run_schedule(mode, holder, P, n, perm, outs, drains, vals, cpoint, cdrain, unwind)
    if info is None:
        return False
    if cpoint == NEVER:
        return len(info['failed']) > 0 and len(info['raise_order']) > 0
    return info['scenario'] != 'no outer cancellation' and True in info['cancelled']


# ---- family O: OnlineBoundedGather2 driven by a symbolic program ------------------------------------------------------
# One schedule = k symbolic step codes.  Worker 0 is always submitted first (fixed prefix); afterwards each step is
#   0 CALL        the body submits the next worker with pool.call
#   1 WAIT        the body awaits pool.wait([first submitted task that is not done])
#   2 LEAVE_OK    the body ends, the `async with` block is left normally
#   3 LEAVE_EXC   the body raises UserError inside the block
#   4+3i+o        the director resolves worker i's future: o = 0 value, 1 exception, 2 cancelled (own CancelledError)
#   4+3n+i        the director calls Task.cancel() on the task pool.call returned for worker i
#   4+4n          END: nothing more (all later steps must be END too)
# 'x' programs (external contention) additionally:  4+4n+1 an EXTERNAL client of the same semaphore starts to acquire a
#   permit / 4+4n+2 it releases (or gives up) / 4+4n+3 the director itself calls pool.call(next worker) - e.g. from a
#   completion callback - which is legal as long as the exit has not returned; 'x' programs have no wait / raise steps
# Body steps are queued for the body coroutine, which holds one permit and performs them in order whenever it is not
# blocked; director steps take effect at once.  After the k steps the director makes the body leave normally (if it
# has not left), lets everything settle, then resolves every remaining future with its value, one by one.
class UserError(Exception):
    pass


def program_ok(n, steps, omax, allow_cancel, allow_ext=False):
    """abstract validity + canonical form, decided before anything runs (invalid codes cost no asyncio run)"""
    nsub, left, ended = 1, False, False
    resolved = [False] * n
    END = 4 + 4 * n
    ext = 0
    for a in steps:
        if a == END:
            ended = True
            continue
        if ended:
            return False
        if a > END:
            if not allow_ext:
                return False
            if a == END + 1:
                if ext != 0:
                    return False
                ext = 1
            elif a == END + 2:
                if ext != 1:
                    return False
                ext = 2
            elif a == END + 3:
                if nsub >= n:
                    return False
                nsub += 1
            else:
                return False
            continue
        if allow_ext and (a == 1 or a == 3):
            return False
        if a == 0:
            if left or nsub >= n:
                return False
            nsub += 1
        elif a == 1:
            if left:
                return False
            busy = False
            for i in range(nsub):
                if not resolved[i]:
                    busy = True
            if not busy:
                return False
        elif a == 2 or a == 3:
            if left:
                return False
            left = True
        else:
            hit = False
            for i in range(n):
                for o in range(3):
                    if a == 4 + 3 * i + o:
                        if i >= nsub or resolved[i] or o > omax:
                            return False
                        resolved[i] = True
                        hit = True
                if a == 4 + 3 * n + i:
                    if not allow_cancel or i >= nsub or resolved[i]:
                        return False
                    resolved[i] = True
                    hit = True
            if not hit:
                return False
    return True


async def _director_online(P, n, steps, drains, vals, unwind):
    loop = asyncio.get_running_loop()
    st = St()
    st.running = 0
    st.maxr = 0
    st.maxr_after = 0
    st.returned = False
    st.inbody = [False] * n
    st.after = []
    st.started = [False] * n
    st.cancelled = [False] * n
    st.selfc = [False] * n
    st.own_cancel = [False] * n
    st.finished = [False] * n
    st.exc_order = []        # exceptions in the order they reached the pool: worker Booms, the body's own exception
    st.pending_at_return = None
    st.body_at_return = 0
    st.call_after_completion = False
    st.user_cancelled = [False] * n
    futs = [loop.create_future() for _ in range(n)]
    excs = [Boom(i) for i in range(n)]
    uerr = UserError()
    sema = asyncio.Semaphore(P)
    tasks = []               # tasks returned by pool.call, index = worker
    cmds = []
    st.gate = None
    st.left = False

    def mk(i):
        async def w():
            st.running += 1
            st.inbody[i] = True
            if st.returned:
                st.after.append(i)
                if st.running > st.maxr_after:
                    st.maxr_after = st.running
            elif st.running > st.maxr:
                st.maxr = st.running
            st.started[i] = True
            try:
                r = await futs[i]
                st.finished[i] = True
                return r
            except asyncio.CancelledError:
                st.cancelled[i] = True
                own = st.selfc[i] and futs[i].cancelled() and not asyncio.current_task().cancelling()
                for _ in range(unwind):
                    await asyncio.sleep(0)
                if own:
                    st.own_cancel[i] = True
                raise
            except Exception as e:
                st.exc_order.append(e)
                raise
            finally:
                st.running -= 1
                st.inbody[i] = False
        return w

    def snapshot():
        st.returned = True
        st.body_at_return = st.running
        for i in range(n):
            if st.inbody[i]:
                st.after.append(i)
        st.pending_at_return = 0
        for t in CREATED:
            if not t.done():
                st.pending_at_return += 1

    st.pool = None
    st.ext_task = None
    ext_go = loop.create_future()

    async def external_client():
        await sema.acquire()          # another user of the same semaphore
        try:
            await ext_go
        finally:
            sema.release()

    def submit(pool):
        i = len(tasks)
        for j in range(i):
            if tasks[j].done():
                st.call_after_completion = True
        tasks.append(pool.call(mk(i)))

    async def body():
        await sema.acquire()
        try:
            try:
                async with U.OnlineBoundedGather2(sema) as pool:
                    try:
                        st.pool = pool
                        submit(pool)
                        while True:
                            if not cmds:
                                st.gate = loop.create_future()
                                await st.gate
                                continue
                            c = cmds.pop(0)
                            if c == 0:
                                if len(tasks) < n:
                                    submit(pool)      # raises PoolShutdownError after a failure, as documented
                            elif c == 1:
                                first = None
                                for t in tasks:
                                    if first is None and not t.done():
                                        first = t
                                if first is not None:
                                    await pool.wait([first])
                            elif c == 2:
                                break
                            else:
                                raise uerr
                    except Exception as e:
                        st.exc_order.append(e)    # the exception enters the context manager exit now
                        raise
                    finally:
                        st.left = True
                return 'left'
            finally:
                snapshot()
        finally:
            sema.release()

    def tell(c):
        cmds.append(c)
        if st.gate is not None and not st.gate.done():
            st.gate.set_result(None)

    async def drain(d):
        if d == 1:
            await _quiesce()
        elif d >= 2:
            await _ticks(1)

    G = asyncio.ensure_future(body())
    await _quiesce()
    END = 4 + 4 * n
    told_leave = False
    for j in range(len(steps)):
        a = steps[j]
        if a == END:
            break
        if a == END + 1:
            if st.ext_task is None:
                st.ext_task = asyncio.ensure_future(external_client())
        elif a == END + 2:
            if not ext_go.done():
                ext_go.set_result(None)
        elif a == END + 3:
            if st.pool is not None and not G.done() and len(tasks) < n:
                try:
                    submit(st.pool)
                except U.PoolShutdownError:
                    pass
        elif a == 0 or a == 1:
            tell(a)
        elif a == 2 or a == 3:
            tell(a)
            told_leave = True
        else:
            for i in range(n):
                for o in range(3):
                    if a == 4 + 3 * i + o and not futs[i].done():
                        if o == 0:
                            futs[i].set_result(vals[i])
                        elif o == 1:
                            futs[i].set_exception(excs[i])
                        else:
                            st.selfc[i] = True
                            futs[i].cancel()
                if a == 4 + 3 * n + i and i < len(tasks) and not tasks[i].done():
                    st.user_cancelled[i] = True
                    tasks[i].cancel()
        await drain(drains[j])
    if not told_leave:
        tell(2)
    if not ext_go.done():
        ext_go.set_result(None)       # the external client never keeps its permit for ever
    await _quiesce()
    for i in range(n):
        if not futs[i].done():
            futs[i].set_result(vals[i])
            await _quiesce()
    await _quiesce()

    # ---- oracle -----------------------------------------------------------------------------------
    mask = 0
    if st.maxr > P:
        mask |= A_BOUND
    if st.maxr_after > P:
        mask |= A_BOUND_AFTER
    if st.maxr > P + 1 or st.maxr_after > P + 1:
        mask |= A_BOUND1
    info = {'scenario': 'online program', 'submitted': len(tasks), 'max_running': st.maxr,
            'call_after_completion': st.call_after_completion}
    if not G.done():
        mask |= A_RETURNS
        G.cancel()
        await _quiesce()
        for t in CREATED:
            if not t.done():
                t.cancel()
        await _quiesce()
        info['exit'] = 'never returned'
        return mask, st, info
    gcanc = G.cancelled()
    gexc = None if gcanc else G.exception()
    # the exit raises the first exception that reached the pool (a worker's, or the body's own); none -> normal exit
    if st.exc_order:
        ok = gexc is st.exc_order[0]
    else:
        ok = gexc is None and not gcanc
    # a task that completed carries the worker's value (None when it ended by CancelledError, which the pool counts as
    # completion)
    for i in range(len(tasks)):
        t = tasks[i]
        if t.done() and not t.cancelled() and t.exception() is None:
            if st.finished[i]:
                ok = ok and t.result() == vals[i]
            else:
                ok = ok and t.result() is None
    if not ok:
        mask |= A_CONTRACT
    # no task returned by call() ever carries an exception: run_and_cleanup absorbs the worker's (the pool re-raises it
    # at exit); anything else is an internal error of the pool
    for t in tasks:
        if t.done() and not t.cancelled() and t.exception() is not None:
            mask |= A_TASKERR
    # exit: "waits for all background tasks to complete"
    if st.pending_at_return != 0:
        mask |= A_PENDING
    for i in st.after:
        if not st.cancelled[i]:
            mask |= A_UNCANCELLED
    pend_now = 0
    for t in CREATED:
        if not t.done():
            pend_now += 1
            t.cancel()
    if pend_now:
        mask |= A_RETURNS
        await _quiesce()
    if sema._value != P:
        mask |= A_PERMITS
    if not (P - 1 <= sema._value <= P + 1):
        mask |= A_PERMITS1
    info.update({'exit': 'CancelledError' if gcanc else (type(gexc).__name__ + str(getattr(gexc, 'i', '')) if gexc else 'normal'),
                 'first_exception': (type(st.exc_order[0]).__name__ + str(getattr(st.exc_order[0], 'i', ''))) if st.exc_order else None,
                 'pending_at_return': st.pending_at_return, 'bodies_active_at_return': st.body_at_return,
                 'sema_value_after': sema._value, 'finished': list(st.finished), 'cancelled': list(st.cancelled),
                 'started': list(st.started),
                 'task_states': ['cancelled' if t.cancelled() else ('error ' + repr(t.exception()) if t.exception() else 'done')
                                 for t in tasks]})
    return mask, st, info


def run_program(P, n, steps, drains, vals, unwind=0):
    del CREATED[:]
    del SEMAS[:]
    loop = DetLoop()
    try:
        mask, st, info = loop.run_until_complete(_director_online(P, n, steps, drains, vals, unwind))
    finally:
        loop.close()
    return mask, info


def program_violated(P, n, steps, drains, vals, unwind, omax, allow_cancel, excused, allow_ext=False):
    if not program_ok(n, steps, omax, allow_cancel, allow_ext):
        return 0
    return run_program(P, n, steps, drains, vals, unwind)[0] & ~excused


def program_reach(P, n, steps, drains, vals, unwind, omax, allow_cancel, allow_ext=False):
    """twin helper: a valid program in which pool.call happens after an earlier task has completed, run to the end"""
    if not program_ok(n, steps, omax, allow_cancel, allow_ext):
        return False
    mask, info = run_program(P, n, steps, drains, vals, unwind)
    return info.get('exit') != 'never returned' and info['call_after_completion']


def describe_program(n, steps):
    out = ['call(w0)']
    for a in steps:
        if a == 4 + 4 * n:
            break
        if a > 4 + 4 * n:
            out.append(('external client starts acquiring', 'external client releases',
                        'pool.call(next) issued from outside the body')[a - 4 - 4 * n - 1])
        elif a == 0:
            out.append('call(next)')
        elif a == 1:
            out.append('wait(first unfinished)')
        elif a == 2:
            out.append('leave')
        elif a == 3:
            out.append('raise UserError in the block')
        elif a >= 4 + 3 * n:
            out.append(f'cancel task w{a - 4 - 3 * n}')
        else:
            out.append(f'resolve w{(a - 4) // 3} with ' + ('value', 'exception', 'CancelledError')[(a - 4) % 3])
    return out


def names(mask):
    out = []
    for bit in all_bits():
        if mask & bit:
            a, t = tag_of(bit)
            out.append(ASPECTS[a] + (f' ({TAGS[t]})' if t else ''))
    return out
