"""C30 harness: the REAL ci.github.PR / WatchedBranch run natively under the vt.natsym path explorer.

Step world (a): a WatchedBranch and PRs built with __new__ + attribute injection; every field the merge gate reads
is a proxy (review_state, build_state: SEnum; labels: SymSet; last_known_github_status: SymMap; batch target sha /
branch sha: SInt or absent), the GitHub client is a recording fake whose merge call succeeds or fails by a solver
choice.

History world (b): the real WatchedBranch._update (with the real _update_github, _update_batch, _heal,
PR.update_from_gh_json, PR._update_github, PR._update_batch, PR._heal, PR._start_build, try_to_merge, merge) talks to
`FakeGitHub` (REST + the one GraphQL query the code sends) and `FakeBatchClient`; external events are solver choices;
`FakeGitHub` keeps the ground truth per commit and snapshots it whenever a merge is accepted.
"""
import io
import re

import z3

from vt import loader, natsym
from vt.common import HarnessError
from vt.natsym import SBool, SEnum, SInt, choose

loader.install()

import gidgethub  # noqa: E402  (inert stub: give it a real exception class)


class HTTPException(Exception):
    def __init__(self, status=409, *a):
        super().__init__(status, *a)
        self.status_code = status


gidgethub.HTTPException = HTTPException

import ci.github as G  # noqa: E402
from ci.utils import GithubStatus  # noqa: E402

G.gidgethub.HTTPException = HTTPException
CTX = G.GITHUB_STATUS_CONTEXT
OTHER = 'lint'
LABELS = ['WIP', 'stacked PR', 'prio:high', 'do-not-test', 'bug']
REVIEWS = ['approved', 'changes_requested', 'pending', None]
BUILDS = [None, 'success', 'failure', 'error']
STATI = [GithubStatus.SUCCESS, GithubStatus.PENDING, GithubStatus.FAILURE]


# ---- symbolic containers -------------------------------------------------------------------------------
class SymSet:
    """A set over a fixed universe with one symbolic membership bit per element (PR.labels)."""

    def __init__(self, universe, bits):
        self.universe = list(universe)
        self.bits = dict(zip(self.universe, bits))

    def __contains__(self, x):
        b = self.bits.get(x)
        return False if b is None else bool(b)

    def __iter__(self):
        for x in self.universe:
            if bool(self.bits[x]):
                yield x

    def __len__(self):
        return sum(1 for _ in self)

    def __eq__(self, o):
        return set(self) == set(o)

    def __ne__(self, o):
        return not self == o

    def has(self, x):
        return natsym.bterm(self.bits[x])


class SymMap:
    """dict over fixed keys with symbolic presence and symbolic values (PR.last_known_github_status)."""

    def __init__(self, keys, present, values):
        self.keys_ = list(keys)
        self.present = dict(zip(self.keys_, present))
        self.vals = dict(zip(self.keys_, values))
        self.written = {}

    def _has(self, k):
        if k in self.written:
            return True
        return k in self.present and bool(self.present[k])

    def get(self, k, default=None):
        if k in self.written:
            return self.written[k]
        return self.vals[k] if self._has(k) else default

    def __getitem__(self, k):
        if not self._has(k):
            raise KeyError(k)
        return self.get(k)

    def __setitem__(self, k, v):
        self.written[k] = v

    def __contains__(self, k):
        return self._has(k)

    def keys(self):
        return [k for k in list(self.keys_) + [w for w in self.written if w not in self.keys_] if self._has(k)]

    def values(self):
        return [self.get(k) for k in self.keys()]

    def items(self):
        return [(k, self.get(k)) for k in self.keys()]

    def __len__(self):
        return len(self.keys())

    def __iter__(self):
        return iter(self.keys())


class RecordingGH:
    """GitHub client of the step world: only `put …/merge` is expected; its outcome is a solver choice."""

    def __init__(self, tag):
        self.tag = tag
        self.calls = []
        self.merged = []

    async def put(self, url, data=None):
        m = re.fullmatch(r'/repos/o/r/pulls/(\d+)/merge', url)
        if not m:
            raise HarnessError(f'unexpected PUT {url}')
        n = int(m.group(1))
        ok = choose(f'merge_ok_{self.tag}_{len(self.calls)}', [True, False])
        self.calls.append((n, dict(data or {}), ok))
        if not ok:
            raise HTTPException(405)
        self.merged.append(n)
        return {}

    async def post(self, url, data=None):
        raise HarnessError(f'unexpected POST {url}')


class StepBatch:
    def __init__(self, kind, target_sha):
        self.kind = kind
        self.id = 7
        self.attributes = {'target_sha': target_sha}


def step_vars(npr):
    v = {'tsha': z3.Int('tsha')}
    for i in range(1, npr + 1):
        v[f'review{i}'] = z3.Int(f'review{i}')
        v[f'build{i}'] = z3.Int(f'build{i}')
        v[f'bsha{i}'] = z3.Int(f'bsha{i}')
        for l in LABELS:
            v[f'label{i}_{l}'] = z3.Bool(f'label{i}_{l}')
        for c in (CTX, OTHER):
            v[f'has{i}_{c}'] = z3.Bool(f'has{i}_{c}')
            v[f'st{i}_{c}'] = z3.Int(f'st{i}_{c}')
    return v


def step_constraints(v, npr):
    c = [v['tsha'] >= 0, v['tsha'] <= 2]
    for i in range(1, npr + 1):
        c += [v[f'review{i}'] >= 0, v[f'review{i}'] < len(REVIEWS), v[f'build{i}'] >= 0, v[f'build{i}'] < len(BUILDS),
              v[f'bsha{i}'] >= 0, v[f'bsha{i}'] <= 2]
        for ctx in (CTX, OTHER):
            c += [v[f'st{i}_{ctx}'] >= 0, v[f'st{i}_{ctx}'] < len(STATI)]
    return c


def make_step_world(v, npr):
    """-> (wb, prs, info).  Shape choices (target sha known or None, batch None / Batch / MergeFailureBatch) are
    natsym.choose; everything else is a lazily decided proxy."""
    wb = G.WatchedBranch.__new__(G.WatchedBranch)
    wb.index = 0
    wb.branch = G.FQBranch(G.Repo('o', 'r'), 'main')
    wb.deployable = False
    wb.mergeable = True
    wb.developers = []
    wb.deploy_batch = None
    wb._deploy_state = None
    wb.updating = False
    wb.github_changed = False
    wb.batch_changed = False
    wb.state_changed = False
    wb.n_running_batches = 0
    wb.merge_candidate = None
    sha_known = choose('target_sha_known', [True, False])
    wb.sha = SInt(v['tsha']) if sha_known else None
    info = {'sha_known': sha_known, 'batch_kind': {}}
    prs = {}
    for i in range(1, npr + 1):
        pr = G.PR.__new__(G.PR)
        pr.number = i
        pr.title = f'pr {i}'
        pr.body = None
        pr.source_branch = G.FQBranch(G.Repo('u', 'r'), f'b{i}')
        pr.source_sha = f'c{i}'
        pr.target_branch = wb
        pr.author = 'someone'
        pr.assignees = set()
        pr.reviewers = set()
        pr.labels = SymSet(LABELS, [SBool(v[f'label{i}_{l}']) for l in LABELS])
        pr.review_state = SEnum(v[f'review{i}'], REVIEWS)
        pr.sha = 'm'
        kind = choose(f'batch_kind{i}', ['batch', 'none', 'merge_failure'])
        info['batch_kind'][i] = kind
        if kind == 'none':
            pr.batch = None
        elif kind == 'batch':
            pr.batch = StepBatch('batch', SInt(v[f'bsha{i}']))
        else:
            pr.batch = G.MergeFailureBatch(RuntimeError('conflict'), {'target_sha': SInt(v[f'bsha{i}'])})
        pr.source_sha_failed = None
        pr.build_state = SEnum(v[f'build{i}'], BUILDS)
        pr.intended_github_status = GithubStatus.PENDING
        pr.last_known_github_status = SymMap([CTX, OTHER], [SBool(v[f'has{i}_{c}']) for c in (CTX, OTHER)],
                                             [SEnum(v[f'st{i}_{c}'], STATI) for c in (CTX, OTHER)])
        pr.developers = []
        prs[i] = pr
    wb.prs = prs
    return wb, prs, info


def merge_spec(v, i, info):
    """The property's gate for PR i as a z3 formula over the step variables (independent of the code)."""
    approved = v[f'review{i}'] == REVIEWS.index('approved')
    no_dnm = z3.And(z3.Not(v[f'label{i}_WIP']), z3.Not(v[f'label{i}_stacked PR']))
    some = z3.Or(v[f'has{i}_{CTX}'], v[f'has{i}_{OTHER}'])
    allok = z3.And(*[z3.Implies(v[f'has{i}_{c}'], v[f'st{i}_{c}'] == STATI.index(GithubStatus.SUCCESS))
                     for c in (CTX, OTHER)])
    current = z3.BoolVal(info['sha_known'] and info['batch_kind'][i] != 'none')
    current = z3.And(current, v[f'bsha{i}'] == v['tsha'])
    return z3.And(approved, no_dnm, some, allok, current)


async def step_run(v, npr):
    """try_to_merge twice (second call without any refresh in between)."""
    wb, prs, info = make_step_world(v, npr)
    gh1, gh2 = RecordingGH('a'), RecordingGH('b')
    r = {'info': info, 'first': gh1, 'second': gh2, 'exc1': None, 'exc2': None}
    try:
        await wb.try_to_merge(gh1)
    except AssertionError as e:
        r['exc1'] = e
    r['sha_after_first'] = wb.sha
    try:
        await wb.try_to_merge(gh2)
    except AssertionError as e:
        r['exc2'] = e
    return r


def explore_step(npr):
    v = step_vars(npr)
    cons = step_constraints(v, npr)
    ex = natsym.Explorer(constraints=cons, max_paths=400000, max_decisions=400)
    outs = ex.run(lambda: step_run(v, npr))
    return v, cons, outs, ex


def step_concrete(vals, npr, choices):
    """Replay of one step scenario with concrete field values (same real code, plain Python values)."""
    import asyncio

    class _Fixed:
        def __init__(self):
            self.log = []

    wb = G.WatchedBranch.__new__(G.WatchedBranch)
    wb.index = 0
    wb.branch = G.FQBranch(G.Repo('o', 'r'), 'main')
    wb.deployable, wb.mergeable, wb.developers = False, True, []
    wb.deploy_batch, wb._deploy_state, wb.updating = None, None, False
    wb.github_changed = wb.batch_changed = wb.state_changed = False
    wb.n_running_batches, wb.merge_candidate = 0, None
    wb.sha = vals['tsha'] if choices.get('target_sha_known', True) else None
    prs = {}
    for i in range(1, npr + 1):
        pr = G.PR.__new__(G.PR)
        pr.number, pr.title, pr.body = i, f'pr {i}', None
        pr.source_branch = G.FQBranch(G.Repo('u', 'r'), f'b{i}')
        pr.source_sha, pr.target_branch, pr.author = f'c{i}', wb, 'someone'
        pr.assignees, pr.reviewers = set(), set()
        pr.labels = {l for l in LABELS if vals[f'label{i}_{l}']}
        pr.review_state = REVIEWS[vals[f'review{i}']]
        pr.sha = 'm'
        kind = choices.get(f'batch_kind{i}', 'batch')
        pr.batch = None if kind == 'none' else (StepBatch('batch', vals[f'bsha{i}']) if kind == 'batch' else
                                                G.MergeFailureBatch(RuntimeError('x'), {'target_sha': vals[f'bsha{i}']}))
        pr.source_sha_failed = None
        pr.build_state = BUILDS[vals[f'build{i}']]
        pr.intended_github_status = GithubStatus.PENDING
        pr.last_known_github_status = {c: STATI[vals[f'st{i}_{c}']] for c in (CTX, OTHER) if vals[f'has{i}_{c}']}
        pr.developers = []
        prs[i] = pr
    wb.prs = prs
    merged = []

    class GH:
        def __init__(self, oks):
            self.oks = list(oks)

        async def put(self, url, data=None):
            n = int(re.fullmatch(r'/repos/o/r/pulls/(\d+)/merge', url).group(1))
            ok = self.oks.pop(0) if self.oks else True
            if not ok:
                raise HTTPException(405)
            merged.append(n)
            return {}

    async def go():
        out = []
        for tag in ('a', 'b'):
            oks = [choices[k] for k in sorted(choices) if k.startswith(f'merge_ok_{tag}_')]
            before = len(merged)
            try:
                await wb.try_to_merge(GH(oks))
            except AssertionError:
                pass
            out.append(merged[before:])
        return out
    loop = asyncio.new_event_loop()
    try:
        return loop.run_until_complete(go())
    finally:
        loop.close()
