"""C40 scenario: the real hailtop.aiotools.weighted_semaphore.WeightedSemaphore used exactly as the copy
tool uses it (`async with sem.acquire_manager(n): ...`) by NT transfer tasks on a real asyncio loop, with
cancellation and error exits injected by a director.

Schedule (all CrossHair-symbolic): w_i weight of task i (1..CAP); e_i whether task i's body ends by raising;
per step an action a_s and a drain amount d_s.
  action 0       START the next task (index order; tasks differ only by their symbolic w_i, e_i)
  action 1+2i    let task i leave its `async with` body (normally or by raising, per e_i)
  action 2+2i    task i .cancel()
  drain 0/1/2    run nothing / exactly one loop iteration / until quiescent before the next action.  The
                 one-iteration drain is what makes "granted (event set) but not yet resumed, then cancelled"
                 reachable; drain 0 makes "cancelled before it ever ran" and same-iteration races reachable.
Step 0 is always START; the last step always drains fully.
Families (props/C40.py): everything symbolic (2 and 3 tasks); "plain" = bodies end normally and every step drains
fully (3 tasks, longer schedules); "started" = plain with 4 tasks whose first four actions are START (a task that
does not fit queues), followed by free leave/cancel actions - with symbolic weights this reaches two or three
holders next to one or two waiters of different weights, the states in which release() has to choose whom to wake.
`mode` partitions the schedules by what cancel() hits, so that distinct leak mechanisms are separate
obligations: a cancel target is QUEUED when the task has called acquire, is not inside and the future it is
blocked on is not done (blocked, not granted); anything else (holder, granted-not-resumed, never ran) is OTHER.
  mode 0: schedules whose cancels all hit QUEUED targets (includes schedules without cancel)
  mode 1: schedules with >= 1 cancel, all hitting OTHER targets
  mode 2: schedules with both kinds
Oracle (only what C40 states; `.value`/`.max` are the class's public counters):
  safety    at every quiescent point the weights of tasks inside the body sum to <= CAP
  return    after the schedule every gate is opened and the loop drained: every task has exited, then
            value == max and a fresh acquire(max) is granted at once (so no exit - normal, error, cancelled
            holder, cancelled waiter - has kept capacity)
"""
import asyncio

from vt import sched

SRC = 'hail/python/hailtop/aiotools/weighted_semaphore.py'
ws_mod = sched.load_file('c40_weighted_semaphore_real', SRC)


class Bad(Exception):
    pass


class BodyError(Exception):
    pass


async def scenario(cap, ws, errs, acts, drains, mode, trace=None, stats=None):
    sem = ws_mod.WeightedSemaphore(cap)
    n = len(ws)
    gates = [asyncio.Event() for _ in range(n)]
    inside = [False] * n
    arrived = [False] * n
    exited = [False] * n
    gate_set = [False] * n
    cancelled = [False] * n
    tasks = []
    stats = {} if stats is None else stats
    stats.update({'queued_cancels': 0, 'other_cancels': 0, 'waited': False, 'complete': False})

    async def transfer(i):
        try:
            arrived[i] = True
            try:
                async with sem.acquire_manager(ws[i]):
                    inside[i] = True
                    try:
                        await gates[i].wait()
                        if errs[i]:
                            raise BodyError()
                    finally:
                        inside[i] = False
            except BodyError:
                pass
        finally:
            exited[i] = True

    def check():
        tot = 0
        for i in range(n):
            if inside[i]:
                tot += ws[i]
            elif arrived[i] and not exited[i]:
                stats['waited'] = True
        if not tot <= cap:
            raise Bad('over-grant: weights inside exceed capacity')

    try:
        for s in range(len(acts)):
            a = sched.concretize(acts[s], 0, 2 * n)
            if a == 0:
                if len(tasks) >= n:
                    raise sched.Prune()
                tasks.append(asyncio.ensure_future(transfer(len(tasks))))
                what = 'start'
            else:
                i = (a - 1) // 2
                if i >= len(tasks):
                    raise sched.Prune()
                if (a - 1) % 2 == 0:
                    if gate_set[i] or cancelled[i]:
                        raise sched.Prune()
                    gate_set[i] = True
                    gates[i].set()
                    what = f'leave{i}'
                else:
                    if cancelled[i] or tasks[i].done():
                        raise sched.Prune()
                    queued = arrived[i] and not inside[i] and not exited[i] and not _granted_pending(tasks[i])
                    if queued:
                        if mode == 1:
                            raise sched.Prune()
                        stats['queued_cancels'] += 1
                    else:
                        if mode == 0:
                            raise sched.Prune()
                        stats['other_cancels'] += 1
                    if trace is not None:
                        what = f'cancel{i}:' + ('queued' if queued else _kind(tasks[i], arrived[i], inside[i]))
                    cancelled[i] = True
                    tasks[i].cancel()
            d = sched.concretize(drains[s], 0, 2)
            if d == 2:
                await sched.settle()
            elif d == 1:
                await sched.step()
            if trace is not None:
                trace.append((what, int(d), list(inside), sem.value))
            if d == 2:
                check()
        if mode == 1 and stats['other_cancels'] == 0:
            raise sched.Prune()
        if mode == 2 and (stats['other_cancels'] == 0 or stats['queued_cancels'] == 0):
            raise sched.Prune()
        stats['complete'] = True
        await sched.settle()
        check()
        for i in range(len(tasks)):
            gates[i].set()
        await sched.settle()
        check()
        for i in range(len(tasks)):
            if not tasks[i].done():
                raise Bad(f'task {i} never got out of acquire although every holder has exited')
        if sem.value > sem.max:
            raise Bad(f'capacity over-credited: value={sem.value} of max={sem.max} after every task exited')
        if sem.value != sem.max:
            raise Bad(f'capacity not returned: value={sem.value} of max={sem.max} after every task exited')
        probe = asyncio.ensure_future(sem.acquire(cap))
        tasks.append(probe)
        await sched.settle()
        if not probe.done():
            raise Bad('capacity not returned: a fresh acquire(max) blocks after every task exited')
        return stats
    finally:
        await sched.cleanup(tasks)


def _granted_pending(task):
    """The future the task is blocked on is already done (its Event was set) but the task has not resumed.
    Reads Task._fut_waiter; used ONLY to partition schedules into modes and to name findings - the modes
    together cover every schedule whatever this predicate says, and the oracle never looks at it."""
    fw = getattr(task, '_fut_waiter', None)
    return fw is not None and fw.done()


def _kind(task, arrived, inside):
    """Description of a non-QUEUED cancel target."""
    if inside:
        return 'holder'
    if not arrived:
        return 'never-ran'
    if _granted_pending(task):
        return 'granted-not-resumed'
    return 'exiting'


def split(nt, k, args):
    """positional layout: w*nt, e*nt, a1..a_{k-1}, d0..d_{k-2}, mode"""
    ws = list(args[:nt])
    errs = list(args[nt:2 * nt])
    acts = [0] + list(args[2 * nt:2 * nt + k - 1])
    drains = list(args[2 * nt + k - 1:2 * nt + 2 * k - 2]) + [2]
    mode = args[2 * nt + 2 * k - 2]
    return ws, errs, acts, drains, mode


def _mk(nt, cap, k):
    def check(*args):
        ws, errs, acts, drains, mode = split(nt, k, args)
        try:
            sched.run_det(scenario(cap, ws, errs, acts, drains, mode))
        except sched.Prune:
            return True
        except Bad:
            return False
        return True

    def reach(*args):
        """Twin: False iff a well-formed schedule of this mode ran to the end, i.e. the final oracle was
        evaluated (whatever it said)."""
        ws, errs, acts, drains, mode = split(nt, k, args)
        st = {}
        try:
            sched.run_det(scenario(cap, ws, errs, acts, drains, mode, None, st))
        except sched.Prune:
            return True
        except Bad:
            pass
        return not st.get('complete')

    return check, reach


# entry points by shape (CrossHair conditions are generated per shape by props/C40.py)
check_2_2_4, reach_2_2_4 = _mk(2, 2, 4)
check_2_2_5, reach_2_2_5 = _mk(2, 2, 5)
check_2_2_6, reach_2_2_6 = _mk(2, 2, 6)
check_3_3_4, reach_3_3_4 = _mk(3, 3, 4)
check_3_3_5, reach_3_3_5 = _mk(3, 3, 5)
check_3_3_6, reach_3_3_6 = _mk(3, 3, 6)
check_4_3_5, reach_4_3_5 = _mk(4, 3, 5)
check_4_3_6, reach_4_3_6 = _mk(4, 3, 6)
check_4_3_7, reach_4_3_7 = _mk(4, 3, 7)
check_4_4_5, reach_4_4_5 = _mk(4, 4, 5)
check_4_4_6, reach_4_4_6 = _mk(4, 4, 6)
check_5_4_6, reach_5_4_6 = _mk(5, 4, 6)
check_5_4_7, reach_5_4_7 = _mk(5, 4, 7)


def run_concrete(cap, ws, errs, acts, drains, mode):
    trace = []
    try:
        sched.run_plain(scenario(cap, ws, errs, acts, drains, mode, trace))
    except sched.Prune:
        return True, 'schedule not well-formed', trace
    except Bad as e:
        return False, str(e), trace
    return True, 'held', trace


def _kinds(trace):
    return {w.split(':')[1] for (w, _d, _i, _v) in trace if w.startswith('cancel')}


def classify(trace, why):
    kinds = _kinds(trace)
    if why.startswith('over-grant') or why.startswith('capacity over-credited'):
        return 'weighted-semaphore-over-grant'
    if 'queued' in kinds:
        return 'cancelled-queued-waiter-later-granted'
    if 'granted-not-resumed' in kinds:
        return 'granted-then-cancelled-before-resume'
    if 'holder' in kinds:
        return 'cancelled-holder-weight-not-returned'
    if kinds:
        return 'capacity-leak-after-cancel'
    return 'capacity-leak-without-cancel'


def replay(args, meta):
    """Plain asyncio (stock loop), no CrossHair.  The failing schedule is first shrunk by deleting steps
    while it still fails on the real class (concrete re-execution, only to name the mechanism).
    -> (ok, class, why)"""
    nt, cap, k = meta['nt'], meta['cap'], meta['k']
    pos = ([args[f'w{i}'] for i in range(nt)] + [args[f'e{i}'] for i in range(nt)] + [args[f'a{i}'] for i in range(1, k)]
           + [args[f'd{i}'] for i in range(k - 1)] + [args['mode']])
    ws, errs, acts, drains, _mode = split(nt, k, pos)
    mode = -1  # replay ignores the partition: any cancel is allowed
    ok, why, trace = run_concrete(cap, ws, errs, acts, drains, mode)
    if ok:
        return True, None, why
    changed = True
    while changed:
        changed = False
        for j in range(len(acts) - 1, 0, -1):
            a2, d2 = acts[:j] + acts[j + 1:], drains[:j] + drains[j + 1:]
            ok2, why2, tr2 = run_concrete(cap, ws, errs, a2, d2, mode)
            if not ok2 and why2 != 'schedule not well-formed' and _kinds(tr2) <= _kinds(trace):
                acts, drains, why, trace, changed = a2, d2, why2, tr2, True
                break
    return False, classify(trace, why), f'{why}; minimal schedule (action, drain, inside, value) = {trace}'


sched.freeze()
