"""Generates the CrossHair condition functions for C12 (CrossHair needs real source text)."""
HEAD = '''import harness.C12_res as H
H.install_cuts(quick={QUICK})
'''

REQ_PRE = '''    pre: 0 <= ck <= {CKMAX} and 0 <= m < {MMAX} and 0 <= st < {SMAX}
    pre: 0 <= s0 < {SLK} and 0 <= s1 < {SLK} and 0 <= s2 < {SLK}'''

POOL = '''
def pool_{CLOUD}_{WT}(ck: int, m: int, st: int, wc: int, s0: int, s1: int, s2: int) -> bool:
    """
{REQ_PRE}
    pre: wc in {CORES}
    post: _
    """
    return H.pool_ok('{CLOUD}', '{WT}', wc, H.share(ck), m, st, (s0, s1, s2))


def reach_pool_{CLOUD}_{WT}(ck: int, m: int, st: int, wc: int, s0: int, s1: int, s2: int) -> bool:
    """
{REQ_PRE}
    pre: wc in {CORES}
    post: _
    """
    # reachability twin: must be REFUTED (a request with memory-driven core adjustment is accepted)
    return not (H.pool_accepts('{CLOUD}', '{WT}', wc, H.share(ck), m, st, (s0, s1, s2)) and ck == 0 and m > 2**31 and st > 0)
'''

SELECT = '''
def {FN}(ck: int, m: int, st: int, pre_: bool, label_i: int, s0: int, s1: int, s2: int{PRARGS}) -> bool:
    """
{REQ_PRE}
    pre: 0 <= label_i <= 2
    pre: {SHARD}
    post: _
    """
    return H.select_ok('{CLOUD}', {V}, H.share(ck), m, st, pre_, label_i, {WTI}, (s0, s1, s2), exclude_known={EXK}, prices={PRICES})


def reach_{FN}(ck: int, m: int, st: int, pre_: bool, label_i: int, s0: int, s1: int, s2: int{PRARGS}) -> bool:
    """
{REQ_PRE}
    pre: 0 <= label_i <= 2
    pre: {SHARD}
    post: _
    """
    # reachability twin (assertion replaced by false): must be REFUTED, i.e. the end of the check is reached
    H.select_ok('{CLOUD}', {V}, H.share(ck), m, st, pre_, label_i, {WTI}, (s0, s1, s2), exclude_known={EXK}, prices={PRICES})
    return {TWIN}
'''

PRIVATE = '''
def private_{CLOUD}(same_cloud: bool, mt_i: int, st: int) -> bool:
    """
    pre: 0 <= mt_i < {NMT} and 0 <= st < {SMAX}
    post: _
    """
    return H.private_ok('{CLOUD}', same_cloud, mt_i, st)


def reach_private_{CLOUD}(same_cloud: bool, mt_i: int, st: int) -> bool:
    """
    pre: 0 <= mt_i < {NMT} and 0 <= st < {SMAX}
    post: _
    """
    # reachability twin: must be REFUTED (some machine-type request is placed with storage above the 10 GiB floor)
    return not (same_cloud and st > 11 * 2**30 and H.private_ok('{CLOUD}', same_cloud, mt_i, st))
'''

CKMAX = 12              # requested mcpu = 250 * 2^ck, the shares the front end accepts (is_valid_cores_mcpu), up to 1024 cores
MMAX = 1 << 44          # requested memory bytes (16 TiB; the largest worker has < 1 TiB)
SMAX = 1 << 47          # requested storage bytes (128 TiB; the clouds' limits are 64 / 32 TiB)
SLK = 1 << 20           # slack of the over-approximating mdiv cut


NPRICE = 12             # symbolic prices pr0..pr11, one per pool of the configuration (price stub)


def select_shards(wti, quick):
    """wt_i = 0 (price path over every matching pool) is sharded by preemptible."""
    if wti != 0:
        return [('', 'True')]
    return [('_p', 'pre_ == True'), ('_n', 'pre_ == False')]


def source(quick, variants, H, select0=True):
    req = REQ_PRE.format(CKMAX=CKMAX, MMAX=MMAX, SMAX=SMAX, SLK=SLK)
    out = [HEAD.format(QUICK=quick)]
    names = []
    for cloud in ('gcp', 'azure'):
        for wt in H.types(cloud):
            out.append(POOL.format(CLOUD=cloud, WT=wt, REQ_PRE=req, CORES=tuple(H.valid_cores(cloud, wt))))
            names.append(('pool', f'pool_{cloud}_{wt}', dict(cloud=cloud, wt=wt)))
        for v in variants:
            for wti in range(0, 4):
                if wti == 0 and not select0:
                    continue
                if v in (4, 5) and wti > 1:
                    continue            # variants 4/5 duplicate the first worker type: price path and that type's first-fit path
                for suffix, shard in select_shards(wti, quick):
                    fn = f'select_{cloud}_{v}_{wti}{suffix}'
                    # un-sharded conditions: the twin demands that some request is placed; shards: that the end is reached
                    twin = ('False' if suffix else
                            f"H.select_result('{cloud}', {v}, H.share(ck), m, st, pre_, label_i, {wti}, (s0, s1, s2)) is None")
                    stub = wti == 0 and v != 3      # variant 3 (known class excluded) keeps the REAL price computation
                    prargs = ''.join(f', pr{i}: int' for i in range(NPRICE)) if stub else ''
                    prices = '(' + ', '.join(f'pr{i}' for i in range(NPRICE)) + ')' if stub else 'None'
                    rq = req + ('\n    pre: ' + ' and '.join(f'0 <= pr{i} < 1000' for i in range(NPRICE)) if stub else '')
                    out.append(SELECT.format(FN=fn, CLOUD=cloud, V=v, WTI=wti, REQ_PRE=rq, EXK=(v == 3), SHARD=shard, TWIN=twin,
                                             PRARGS=prargs, PRICES=prices))
                    names.append(('select', fn, dict(cloud=cloud, variant=v, wt_i=wti)))
                if v == 3 and wti == 0:
                    # the same condition WITHOUT excluding the known class: expected to be refuted (known finding)
                    fn = f'selectK_{cloud}_{v}_{wti}'
                    out.append(SELECT.format(FN=fn, CLOUD=cloud, V=v, WTI=wti, REQ_PRE=req, EXK=False, SHARD='True', TWIN='False',
                                             PRARGS='', PRICES='None'))
                    names.append(('selectK', fn, dict(cloud=cloud, variant=v, wt_i=wti)))
        out.append(PRIVATE.format(CLOUD=cloud, NMT=len(H.machine_types(cloud)), SMAX=SMAX))
        names.append(('private', f'private_{cloud}', dict(cloud=cloud)))
    text = '\n'.join(out)
    # search-mode twins of every pool/select condition (prefix T_): same body with the cut helpers in SEARCH mode
    import re
    extra = []
    for m in re.finditer(r"\ndef ((?:pool|select)\w*)\((.*?)\) -> bool:\n(    \"\"\".*?\"\"\"\n)(    return [^\n]*\n)", text, re.S):
        fn, args, doc, ret = m.groups()
        extra.append(f"\ndef T_{fn}({args}) -> bool:\n{doc}    H.LIMITS.search = True\n{ret}")
    return text + '\n' + '\n'.join(extra), names
