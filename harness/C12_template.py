"""Generates the CrossHair condition functions for C12 (CrossHair needs real source text)."""
HEAD = '''import harness.C12_res as H
H.install_cuts(quick={QUICK})
'''

REQ_PRE = '''    pre: 0 <= c < {CMAX} and 0 <= m < {MMAX} and 0 <= st < {SMAX}
    pre: 0 <= s0 < {SLK} and 0 <= s1 < {SLK} and 0 <= s2 < {SLK}'''

POOL = '''
def pool_{CLOUD}_{WT}(c: int, m: int, st: int, wc: int, s0: int, s1: int, s2: int) -> bool:
    """
{REQ_PRE}
    pre: wc in {CORES}
    post: _
    """
    return H.pool_ok('{CLOUD}', '{WT}', wc, c, m, st, (s0, s1, s2))


def reach_pool_{CLOUD}_{WT}(c: int, m: int, st: int, wc: int, s0: int, s1: int, s2: int) -> bool:
    """
{REQ_PRE}
    pre: wc in {CORES}
    post: _
    """
    # reachability twin: must be REFUTED (a request with memory-driven core adjustment is accepted)
    return not (H.pool_accepts('{CLOUD}', '{WT}', wc, c, m, st, (s0, s1, s2)) and c <= 250 and m > 2**31 and st > 0)
'''

SELECT = '''
def {FN}(c: int, m: int, st: int, pre_: bool, label_i: int, s0: int, s1: int, s2: int) -> bool:
    """
{REQ_PRE}
    pre: 0 <= label_i <= 2
    pre: {SHARD}
    post: _
    """
    return H.select_ok('{CLOUD}', {V}, c, m, st, pre_, label_i, {WTI}, (s0, s1, s2), exclude_known={EXK})


def reach_{FN}(c: int, m: int, st: int, pre_: bool, label_i: int, s0: int, s1: int, s2: int) -> bool:
    """
{REQ_PRE}
    pre: 0 <= label_i <= 2
    pre: {SHARD}
    post: _
    """
    # reachability twin (assertion replaced by false): must be REFUTED, i.e. the end of the check is reached
    H.select_ok('{CLOUD}', {V}, c, m, st, pre_, label_i, {WTI}, (s0, s1, s2), exclude_known={EXK})
    return {TWIN}
'''

PRIVATE = '''
def private_{CLOUD}(same_cloud: bool, mt_i: int, st: int) -> bool:
    """
    pre: 0 <= mt_i < {NMT} and 0 <= st < {SMAX}
    post: _
    """
    return H.private_ok('{CLOUD}', same_cloud, mt_i, st)


def reach_private_{CLOUD}(same_cloud: bool, mt_i: int, st: int) -> bool:
    """
    pre: 0 <= mt_i < {NMT} and 0 <= st < {SMAX}
    post: _
    """
    # reachability twin: must be REFUTED (some machine-type request is placed with storage above the 10 GiB floor)
    return not (same_cloud and st > 11 * 2**30 and H.private_ok('{CLOUD}', same_cloud, mt_i, st))
'''

CMAX = 1 << 20          # requested mcpu  (1048 cores; every pool has <= 96)
MMAX = 1 << 44          # requested memory bytes (16 TiB; the largest worker has < 1 TiB)
SMAX = 1 << 47          # requested storage bytes (128 TiB; the clouds' limits are 64 / 32 TiB)
SLK = 1 << 20           # slack of the over-approximating mdiv cut


C_CUTS = [0, 1001, 16001, CMAX]
M_CUTS = [0, 1 << 33, MMAX]


def select_shards(wti, quick):
    """wt_i = 0 (price path over every matching pool) is sharded by preemptible x cores range x memory range."""
    if wti != 0:
        return [('', 'True')]
    out = []
    for pre in (True, False):
        for i in range(len(C_CUTS) - 1):
            for j in range(len(M_CUTS) - 1):
                out.append((f'_{"p" if pre else "n"}{i}{j}',
                            f'pre_ == {pre} and {C_CUTS[i]} <= c < {C_CUTS[i + 1]} and {M_CUTS[j]} <= m < {M_CUTS[j + 1]}'))
    return out


def source(quick, variants, H, select0=True):
    req = REQ_PRE.format(CMAX=CMAX, MMAX=MMAX, SMAX=SMAX, SLK=SLK)
    out = [HEAD.format(QUICK=quick)]
    names = []
    for cloud in ('gcp', 'azure'):
        for wt in H.types(cloud):
            out.append(POOL.format(CLOUD=cloud, WT=wt, REQ_PRE=req, CORES=tuple(H.valid_cores(cloud, wt))))
            names.append(('pool', f'pool_{cloud}_{wt}', dict(cloud=cloud, wt=wt)))
        for v in variants:
            for wti in range(0, 4):
                if wti == 0 and not select0:
                    continue
                for suffix, shard in select_shards(wti, quick):
                    fn = f'select_{cloud}_{v}_{wti}{suffix}'
                    # un-sharded conditions: the twin demands that some request is placed; shards: that the end is reached
                    twin = ('False' if suffix else
                            f"H.select_result('{cloud}', {v}, c, m, st, pre_, label_i, {wti}, (s0, s1, s2)) is None")
                    out.append(SELECT.format(FN=fn, CLOUD=cloud, V=v, WTI=wti, REQ_PRE=req, EXK=(v == 3), SHARD=shard, TWIN=twin))
                    names.append(('select', fn, dict(cloud=cloud, variant=v, wt_i=wti)))
                if v == 3 and wti == 0:
                    # the same condition WITHOUT excluding the known class: expected to be refuted (known finding)
                    fn = f'selectK_{cloud}_{v}_{wti}'
                    out.append(SELECT.format(FN=fn, CLOUD=cloud, V=v, WTI=wti, REQ_PRE=req, EXK=False, SHARD='True', TWIN='False'))
                    names.append(('selectK', fn, dict(cloud=cloud, variant=v, wt_i=wti)))
        out.append(PRIVATE.format(CLOUD=cloud, NMT=len(H.machine_types(cloud)), SMAX=SMAX))
        names.append(('private', f'private_{cloud}', dict(cloud=cloud)))
    return '\n'.join(out), names
