"""C35 shard runner: explore the builder's decision tree with vt.glue.Explorer/choose (native execution of
the real hail.ir constructors and the real CSERenderer / PlainRenderer; shape choices are z3 integers
c0,c1,... decided by the solver), evaluate both texts with vt.irsem over free z3 leaves, and decide per
batch of paths the single query

    exists c (shape), leaves:  OR_path ( pc_path(c)  and  differs_path(leaves) )

unsat = for every explored shape and all leaf values the two renderings denote the same value.
"""
import re
import time

import z3

from harness import C35_shapes as S
from vt import glue, irsem, shapex
from vt.common import HarnessError

from hail.ir.renderer import CSERenderer, PlainRenderer  # noqa: E402  (loader installed by C35_shapes)
from hail.expr.expressions.base_expression import ExpressionException as _ExprExc  # noqa: E402


class _NoDb:
    def copy(self):
        return self


def leaves_env():
    def arr(name, w, n=2):
        return ('a', [(z3.Bool(f'{name}_has{i}'), ('i', z3.BitVec(f'{name}_{i}', w))) for i in range(n)])
    return {'x': ('i', z3.BitVec('x', 32)), 'p': ('b', z3.Bool('p')), 'A': arr('A', 32),
            'y': ('i', z3.BitVec('y', 64)), 'B': arr('B', 64), 'C': arr('C', 64, 3)}


LEAF_VARS = ['x', 'p', 'y', 'A_has0', 'A_has1', 'A_0', 'A_1', 'B_has0', 'B_has1', 'B_0', 'B_1',
             'C_has0', 'C_has1', 'C_has2', 'C_0', 'C_1', 'C_2']


def leaves_from_values(vals):
    """concrete leaf environment from a replay dict"""
    def arr(name, w, n=2):
        return ('a', [(z3.BoolVal(bool(vals.get(f'{name}_has{i}', False))),
                       ('i', z3.BitVecVal(int(vals.get(f'{name}_{i}', 0)), w))) for i in range(n)])
    return {'x': ('i', z3.BitVecVal(int(vals.get('x', 0)), 32)), 'p': ('b', z3.BoolVal(bool(vals.get('p', False)))),
            'A': arr('A', 32), 'y': ('i', z3.BitVecVal(int(vals.get('y', 0)), 64)), 'B': arr('B', 64),
            'C': arr('C', 64, 3)}


def known_class(root):
    """Finding classes as predicates over the shape (all concrete per explored path)."""
    for n in S.nodes_of(root):
        if n.kind in S.SAGG_KINDS + S.SSCAN_KINDS:
            outer_eval = eval_names(n.ops[1]) - set(n.names)
            if outer_eval:
                return ('cse-streamagg-body-eval-freevars-dropped' if n.kind in S.SAGG_KINDS else
                        'cse-streamaggscan-body-eval-freevars-dropped')
    return None


COLLISION = 'cse-print-pass-binding-site-id-depth-collision'


def collision_candidate(root):
    """Structural part of the class COLLISION: some node s is the direct child of a new-block position (If branch,
    StreamAgg / StreamAggScan body), occurs at least once more elsewhere, and contains internal sharing (a node or a
    pooled constant referenced twice inside s), so that s is registered as a binding site for one occurrence while
    another occurrence of the same object may itself be lifted."""
    occ = {}
    blockchild = set()

    def walk(n):
        if not isinstance(n, S.Node):
            return
        occ[id(n)] = occ.get(id(n), 0) + 1
        if occ[id(n)] > 1:
            return
        for i, o in enumerate(n.ops):
            if isinstance(o, S.Node) and ((n.kind in ('IF', 'IFL') and i in (1, 2)) or (
                    n.kind in S.SAGG_KINDS + S.SSCAN_KINDS and i == 1)):
                blockchild.add(id(o))
            walk(o)
    walk(root)
    # count every occurrence (tree walk) for the "occurs elsewhere" test
    total = {}

    def count(n):
        if isinstance(n, S.Node):
            total[id(n)] = total.get(id(n), 0) + 1
            for o in n.ops:
                count(o)
    count(root)
    nodes = {id(n): n for n in S.nodes_of(root)}
    for k in blockchild:
        if total.get(k, 0) < 2:
            continue
        inner = {}

        def cnt(n):
            key = ('leaf', n.name) if isinstance(n, S.Leaf) and not isinstance(n, S.Var) else id(n)
            if isinstance(n, S.Var) or (isinstance(n, S.Leaf) and n.name not in ('c', 'd')):
                return
            inner[key] = inner.get(key, 0) + 1
            if isinstance(n, S.Node):
                for o in n.ops:
                    cnt(o)
        for o in nodes[k].ops:
            cnt(o)
        if any(v > 1 for v in inner.values()):
            return True
    return False


def classify(root, r):
    """Finding class of an outcome = failure signature AND structural predicate over the shape; anything else that
    goes wrong (in particular every wrong *value*) stays unclassified and is reported as new."""
    if r['kind'] == 'crash' and 'AssertionError' in r['why'] and collision_candidate(root):
        return COLLISION
    if r['kind'] == 'scope' or (r['kind'] == 'crash' and 'KeyError' in r['why']):
        return known_class(root)
    return None


def eval_names(n):
    """Names (bound variables and free leaves, not constants) referenced in eval position inside `n`."""
    if isinstance(n, S.Var):
        return {n.name}
    if isinstance(n, S.Leaf):
        return set() if n.name in ('c', 'd') else {n.name[-1]}
    out = set()
    for i, o in enumerate(n.ops):
        if n.kind in S.SEQ_SLOT0 and i == 0:
            continue
        r = eval_names(o)
        if n.kind in S.SAGG_KINDS + S.SSCAN_KINDS and i == 1:
            # what the inner aggregation's seq args use is an eval use of the enclosing scope
            r = (r | seq_names(o)) - set(n.names)
        elif n.names and i == len(n.ops) - 1:
            r = r - set(n.names)
        out |= r
    return out


def seq_names(n):
    if not isinstance(n, S.Node):
        return set()
    out = set()
    for i, o in enumerate(n.ops):
        if n.kind in S.SEQ_SLOT0 and i == 0:
            out |= eval_names(o)
        elif n.kind in S.SAGG_KINDS + S.SSCAN_KINDS and i == 1:
            continue
        else:
            out |= seq_names(o)
    return out


def analyse(root, env, strict, strict_eval_all=False, api=False):
    """Render with both real renderers, read and evaluate both texts.
    Returns dict(kind=..., differs=z3 Bool or True, ...)."""
    if api:
        try:
            x = (S.to_expr_agg(root) if isinstance(root, S.Node) and root.idx == 0 else S.to_expr(root))._ir
        except _ExprExc:
            raise S.DeadEnd()        # the public API refuses this shape: not a program
    else:
        x = S.to_ir(root)
    plain = PlainRenderer()(x)
    try:
        cse = CSERenderer()(x)
    except Exception as e:     # the real renderer raised on a well-formed program
        return {'plain': plain, 'cse': f'<{type(e).__name__}: {e}>', 'lets': False, 'kind': 'crash', 'differs': True,
                'why': f'CSERenderer raised {type(e).__name__}: {e}'}
    out = {'plain': plain, 'cse': cse, 'lets': cse.count('__cse_') > 0}
    if not strict_eval_all and irsem._TOK.findall(plain) == irsem._TOK.findall(cse):
        # token-identical texts have the same parse and the same value: the path contributes `false`
        out.update(kind='identical', differs=False, syntactic=True)
        return out
    try:
        tp = irsem.read(plain)
        e1 = irsem.Evaluator()
        v1 = e1.ev(tp, env)
    except (irsem.IRTextError, irsem.ScopeError) as e:
        # the builder only makes well-formed programs: the *plain* text failing is a harness/grammar problem
        raise HarnessError(f'plain rendering not evaluable ({type(e).__name__}: {e}): {plain}')
    try:
        tc = irsem.read(cse)
        e2 = irsem.Evaluator()
        v2 = e2.ev(tc, env)
    except irsem.ScopeError as e:
        out.update(kind='scope', differs=True, why=f'unbound or wrong-context name {e}')
        return out
    except irsem.IRTextError as e:
        out.update(kind='malformed', differs=True, why=str(e))
        return out
    out['syntactic'] = irsem.inline_cse(tc) == tp
    eq = irsem.equal(v1, v2)
    if strict:
        eq = z3.And(e1.err == e2.err, z3.Or(e1.err, eq))
    out.update(kind='value', differs=z3.Not(eq), v1=v1, v2=v2, err1=e1.err, err2=e2.err)
    return out


def shard_prefixes(family, n, shadow, depth):
    """Split the decision tree into shards by fixing the first `depth` choices (discovered with the builder)."""
    class Stop(Exception):
        pass

    def width(prefix):
        pos = [0]
        res = [None]

        def ch(opts):
            i = pos[0]
            pos[0] += 1
            if i < len(prefix):
                return opts[prefix[i]]
            res[0] = len(opts)
            raise Stop()
        try:
            S.Builder(family, n, ch, shadow).root()
        except Stop:
            return res[0]
        except S.DeadEnd:
            return -1
        return 0      # complete program with fewer choices than the prefix allows

    shards = [()]
    for _ in range(depth):
        nxt = []
        for p in shards:
            if p and p[-1] is None:
                nxt.append(p)
                continue
            w = width(p)
            if w == -1:
                continue
            if w == 0:
                nxt.append(p + (None,))       # a complete shape: its own shard
            else:
                nxt.extend(p + (i,) for i in range(w))
        shards = nxt
    return [tuple(x for x in p if x is not None) for p in shards]


class _Out:
    __slots__ = ('pc', 'value')

    def __init__(self, pc, value):
        self.pc = pc
        self.value = value


def _formula(o):
    d = o.value['differs']
    pc = z3.And(o.pc) if o.pc else z3.BoolVal(True)
    return pc if d is True else z3.And(pc, d)


def _witness(o, m, family, n, shadow, api=False):
    vals = {}
    for nm in LEAF_VARS:
        var = z3.Bool(nm) if (nm == 'p' or '_has' in nm) else (
            z3.BitVec(nm, 64 if nm in ('y', 'B_0', 'B_1', 'C_0', 'C_1', 'C_2') else 32))
        mv = m.eval(var, model_completion=True)
        vals[nm] = z3.is_true(mv) if z3.is_bool(mv) else _signed(mv)
    v = o.value
    return {'family': family, 'n': n, 'shadow': shadow, 'api': api, 'choices': v['choices'], 'leaves': vals,
            'kind': v['kind'], 'why': v.get('why'), 'cls': v['cls'], 'shape': v['shape'],
            'plain': v['plain'], 'cse': v['cse']}


def run_shard(family, n, shadow, pins, batch=300, timeout_ms=120000, max_cex=12, api=False):
    """Explore every shape whose first choices are `pins`.  Returns a summary dict (picklable)."""
    t0 = time.time()
    strict = family.startswith('strict')
    env = leaves_env()
    cvars = [z3.Int(f'c{i}') for i in range(len(pins))]
    ex = shapex.ShapeExplorer(constraints=[cvars[i] == pins[i] for i in range(len(pins))], max_paths=10 ** 8,
                              max_decisions=400)
    stats = {'paths': 0, 'dead': 0, 'identical_text': 0, 'with_lets': 0, 'with_agg_lets': 0, 'with_scan_lets': 0, 'syntactic_ok': 0, 'shared': 0, 'known_class_paths': 0}
    res = {'queries': 0, 'unknown': 0, 'reach': 0, 'cex': [], 'solve_s': 0.0, 'samples': [], 'let_samples': []}
    solver = z3.Solver()
    solver.set('timeout', timeout_ms)
    pending = {'new': [], 'known': []}
    seen_cls = set()

    def body():
        k = [0]
        seq = []

        def ch(opts):
            name = f'c{k[0]}'
            k[0] += 1
            o = shapex.choose(name, opts)
            seq.append(opts.index(o))
            return o
        try:
            root = S.Builder(family, n, ch, shadow).root()
        except S.DeadEnd:
            stats['dead'] += 1
            raise glue.PathAbort('dead end')
        try:
            r = analyse(root, env, strict, api=api)
        except S.DeadEnd:
            stats['dead'] += 1
            raise glue.PathAbort('refused by the API')
        r['choices'] = list(seq)
        r['shape'] = repr(root)
        r['cls'] = classify(root, r)
        stats['paths'] += 1
        stats['with_lets'] += 1 if r['lets'] else 0
        stats['with_agg_lets'] += 1 if re.search(r'AggLet __cse_\d+ False', r['cse']) else 0
        stats['with_scan_lets'] += 1 if re.search(r'AggLet __cse_\d+ True', r['cse']) else 0
        stats['identical_text'] += 1 if r['kind'] == 'identical' else 0
        stats['syntactic_ok'] += 1 if r.get('syntactic') else 0
        stats['shared'] += 1 if S.shared_count(root) else 0
        stats['known_class_paths'] += 1 if r['cls'] else 0
        for key in ('v1', 'v2', 'err1', 'err2'):
            r.pop(key, None)
        return r

    def solve(which):
        """One query for the whole batch: exists shape integers and leaf values violating the claim."""
        chunk = pending[which]
        pending[which] = []
        t1 = time.time()
        first = True
        while chunk:
            solver.push()
            solver.add(z3.Or([_formula(o) for o in chunk if o.value['differs'] is not False]))
            r = str(solver.check())
            res['queries'] += 1
            if r == 'sat':
                m = solver.model()
            solver.pop()
            if first:
                # reachability twin of the batch: same path conditions, assertion replaced by false
                solver.push()
                solver.add(z3.Or([z3.And(o.pc) if o.pc else z3.BoolVal(True) for o in chunk]))
                if str(solver.check()) == 'sat':
                    res['reach'] += 1
                res['queries'] += 1
                solver.pop()
                first = False
            if r == 'unsat':
                break
            if r != 'sat':
                res['unknown'] += len(chunk)
                break
            hit = None
            for o in chunk:
                if o.value['differs'] is not False and z3.is_true(m.eval(_formula(o), model_completion=True)):
                    hit = o
                    break
            if hit is None:
                raise HarnessError('sat model satisfies no disjunct')
            if len(res['cex']) < max_cex:
                res['cex'].append(_witness(hit, m, family, n, shadow, api))
            cls = hit.value['cls']
            # one witness per known class is enough; an unclassified one is reported individually
            if cls:
                seen_cls.add(cls)
                chunk = [o for o in chunk if o.value['cls'] != cls]
            else:
                chunk = [o for o in chunk if o is not hit]
            if len(res['cex']) >= max_cex:
                res['truncated'] = True
                break
        res['solve_s'] += time.time() - t1

    def on_outcome(pc, value):
        which = 'known' if value['cls'] else 'new'
        if value['cls'] in seen_cls:
            return                   # class already witnessed in this shard
        if len(res['samples']) < 2:
            res['samples'].append({'choices': value['choices'], 'shape': value['shape'], 'cse': value['cse'][:300]})
        elif value['lets'] and len(res['let_samples']) < 2:
            res['let_samples'].append({'choices': value['choices'], 'shape': value['shape'],
                                       'cse': value['cse'][:300]})
        pending[which].append(_Out(list(pc), value))
        if len(pending[which]) >= batch:
            solve(which)

    ex.explore(body, on_outcome)
    solve('new')
    solve('known')
    total = time.time() - t0
    return {'family': family, 'n': n, 'shadow': shadow, 'api': api, 'pins': list(pins), 'stats': stats,
            'queries': res['queries'], 'cex': res['cex'], 'unknown': res['unknown'], 'reach': res['reach'],
            'truncated': res.get('truncated', False), 'explore_s': round(total - res['solve_s'], 2),
            'solve_s': round(res['solve_s'], 2), 'solver_calls_explorer': ex.solver_calls,
            'samples': res['samples'] + res['let_samples']}


def _signed(mv):
    x = mv.as_long()
    w = mv.size()
    return x - (1 << w) if x >= 1 << (w - 1) else x


def rebuild(choices, family, n, shadow):
    """Concrete re-execution of the builder on a recorded choice sequence."""
    pos = [0]

    def ch(opts):
        i = pos[0]
        pos[0] += 1
        if i >= len(choices) or not (0 <= choices[i] < len(opts)):
            raise HarnessError('replay: choice sequence does not fit the builder')
        return opts[choices[i]]
    return S.Builder(family, n, ch, shadow).root()


def replay_concrete(d):
    """Re-run one counterexample concretely on the real renderers.  Returns (violates: bool, message)."""
    root = rebuild(d['choices'], d['family'], d['n'], d.get('shadow', False))
    r = analyse(root, leaves_from_values(d['leaves']), d['family'].startswith('strict'), strict_eval_all=True,
                api=d.get('api', False))
    if r['differs'] is True:
        return True, f"{r['kind']}: {r['why']}\n  cse:   {r['cse']}\n  plain: {r['plain']}"
    dv = z3.simplify(r['differs'])
    if z3.is_true(dv):
        m = z3.Solver()
        m.check()
        mm = m.model()
        e1, e2 = z3.is_true(z3.simplify(r['err1'])), z3.is_true(z3.simplify(r['err2']))
        return True, (f"outcomes differ: plain={'ERROR' if e1 else irsem.concretize(r['v1'], mm)} "
                      f"cse={'ERROR' if e2 else irsem.concretize(r['v2'], mm)}"
                      f"\n  cse:   {r['cse']}\n  plain: {r['plain']}")
    if z3.is_false(dv):
        return False, 'values equal'
    raise HarnessError(f'replay did not reduce to a constant: {dv}')
